#!/usr/bin/env python3
"""Development sweep with the second operator set (sa.mutate.mutants_v2), not a registered check.
Every mutant of every package function is analysed by all twenty checks (never executed by them); for the mutants no
check reports, the repository's own test suite is then run on a scratch copy to tell test-passing survivors (candidate
blind spots, to be read by hand) from mutants the suite rejects anyway.
usage: tools_sweep2.py OUT.json [cap] [ops=v2|v1]"""
import ast, json, os, random, shutil, subprocess, sys, tempfile
from concurrent.futures import ThreadPoolExecutor

VERIF = os.path.dirname(os.path.abspath(__file__))
sys.path.insert(0, VERIF)
from sa import loader, mutate            # noqa: E402
from sa.loader import PKG                # noqa: E402

SKIP_FUNCS = ('helper.merkle', 'helper.chunks', 'ripemd.TestFrameworkKey', 'script.Script.__repr__', 'script.Script.__add__')


def main():
    outp = sys.argv[1]
    cap = int(sys.argv[2]) if len(sys.argv) > 2 else 100000
    ops = sys.argv[3] if len(sys.argv) > 3 else 'v2'
    repo = '/repo'
    prog = loader.Program(repo)
    muts = []
    for fi in sorted(prog.functions.values(), key=lambda f: f.qual):
        key = fi.qual[len(PKG) + 1:]
        if key.startswith(SKIP_FUNCS) or fi.module.name.endswith(('bip39_wordlist', '.op')):
            continue
        gen = mutate.mutants_v2(fi, prog) if ops == 'v2' else mutate.mutants_of_function(fi)
        for m in gen:
            if m is not None:
                muts.append((fi, m[0], m[1]))
    random.Random(1).shuffle(muts)
    muts = muts[:cap]
    print('mutants:', len(muts), flush=True)
    base = tempfile.mkdtemp(prefix='sweep2_')
    snap = os.path.join(base, 'checker')
    os.makedirs(snap)
    shutil.copytree(os.path.join(VERIF, 'sa'), os.path.join(snap, 'sa'), ignore=shutil.ignore_patterns('__pycache__'))
    for f in ('known_findings.json', 'claims.json', 'properties.jsonl'):
        shutil.copy(os.path.join(VERIF, f), os.path.join(snap, f))
    subprocess.run('git -C /repo archive HEAD | tar -x -C %s' % base, shell=True, check=True)   # tests/, setup files

    def one(i_m):
        i, (fi, desc, tree) = i_m
        d = os.path.join(base, 'm%05d' % i)
        try:
            try:
                src = ast.unparse(tree)
                compile(src, 'x', 'exec')
            except Exception:
                return (desc, 'invalid', {})
            shutil.copytree(os.path.join(repo, PKG), os.path.join(d, PKG), ignore=shutil.ignore_patterns('__pycache__'))
            open(os.path.join(d, fi.module.relpath), 'w').write(src)
            r = subprocess.run([sys.executable, '-B', '-m', 'sa.allprops', d], cwd=snap, capture_output=True, text=True,
                               env=dict(os.environ, VERIF_OUT=os.path.join(d, 'out')), timeout=1800)
            try:
                res = json.loads(r.stdout.strip().splitlines()[-1])
            except Exception:
                return (desc, 'error', {'stderr': r.stderr[-200:]})
            killed = [k for k, v in res.items() if v == 1]
            und = [k for k, v in res.items() if v == 2]
            if killed:
                return (desc, 'killed', {'violated': killed, 'undecided': und})
            # not reported: does the suite accept it?
            os.symlink(os.path.join(base, 'tests'), os.path.join(d, 'tests'))
            t = subprocess.run('/venv/bin/python -m pytest -q -x -p no:cacheprovider --deselect tests/test_parser.py::TestArgumentParsing::test_invalid_file_argument 2>&1 | tail -1',
                               shell=True, cwd=d, capture_output=True, text=True, timeout=900)
            passes = ' passed' in t.stdout and 'failed' not in t.stdout and 'error' not in t.stdout
            return (desc, ('undecided' if und else 'survived') + ('+tests-pass' if passes else '+tests-fail'),
                    {'undecided': und, 'tests': t.stdout.strip()[-80:]})
        except subprocess.TimeoutExpired:
            return (desc, 'timeout', {})
        finally:
            shutil.rmtree(d, ignore_errors=True)
    with ThreadPoolExecutor(max_workers=int(os.environ.get('VERIF_JOBS', '12'))) as ex:
        results = []
        for k, r in enumerate(ex.map(one, enumerate(muts))):
            results.append(r)
            if k % 100 == 0:
                print(k, flush=True)
    shutil.rmtree(base, ignore_errors=True)
    summ = {}
    for _, v, _ in results:
        summ[v] = summ.get(v, 0) + 1
    json.dump({'summary': summ, 'results': results}, open(outp, 'w'), indent=0)
    print(summ)
    for d, v, x in results:
        if v.endswith('+tests-pass'):
            print(v, '|', d, '|', x.get('undecided'))


if __name__ == '__main__':
    main()
