#!/bin/sh
# development helper: run the thorough tier of every check (four at a time), print exit codes and wall time
cd "$(dirname "$0")"
for i in 01 02 03 04 05 06 07 08 09 10 11 12 13 14 15 16 17 18 19 20; do
  ( s=$(date +%s); VERIF_NO_EVIDENCE=1 ./vcheck C$i --tier thorough > /tmp/th_C$i.log 2>&1; echo "C$i exit=$? $(( $(date +%s) - s ))s" ) &
  if [ $(( ${i#0} % 4 )) -eq 0 ]; then wait; fi
done
wait
