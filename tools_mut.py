#!/usr/bin/env python3
"""Development helper: apply one textual edit to a scratch copy of /repo's package and run checks on it.
usage: tools_mut.py FILE 'old' 'new' PID [PID...]   (scratch copy under $TMPDIR, removed afterwards)"""
import os, shutil, subprocess, sys, tempfile
f, old, new, pids = sys.argv[1], sys.argv[2], sys.argv[3], sys.argv[4:]
d = tempfile.mkdtemp(prefix='mut_')
try:
    shutil.copytree('/repo/btc_hd_wallet', os.path.join(d, 'btc_hd_wallet'))
    p = os.path.join(d, 'btc_hd_wallet', f)
    s = open(p).read()
    if old not in s:
        print('PATTERN NOT FOUND'); sys.exit(3)
    open(p, 'w').write(s.replace(old, new, 1))
    for pid in pids:
        r = subprocess.run(['./vcheck', pid, '--repo', d], capture_output=True, text=True, cwd='/verif',
                           env=dict(os.environ, VERIF_NO_EVIDENCE='1', VERIF_OUT=os.path.join(d, 'out')))
        lines = [l for l in r.stdout.splitlines() if l.startswith(('VIOLATION', 'ANALYSIS-ERROR', '  '))]
        print(pid, 'exit', r.returncode, '|', ' || '.join(l[:230] for l in lines[:3]))
finally:
    shutil.rmtree(d)
