#!/usr/bin/env python3
"""Regenerates seeded/RESULTS.md and the table in DESIGN.md section 11 from seeded/*/meta.json."""
import json, os, re
HERE = os.path.dirname(os.path.abspath(__file__))
rows = []
for n in sorted(os.listdir(os.path.join(HERE, 'seeded'))):
    mp = os.path.join(HERE, 'seeded', n, 'meta.json')
    if not os.path.exists(mp):
        continue
    m = json.load(open(mp))
    d = m.get('detection', {})
    own = {0: 'missed', 1: 'VIOLATION', 2: 'undecided'}.get(d.get('own_property_exit'), '?')
    summ = (m.get('summary') or m.get('what_it_breaks') or '').replace('|', '/').replace('\n', ' ')
    rows.append('| %s | %s | %s | %s | %s | %s |' % (n, summ[:150], (m.get('needs_to_manifest') or '').replace('|', '/').replace('\n', ' ')[:110],
                                                  m.get('first_evaluation_own', own), own, ', '.join(d.get('violated', [])) or '-'))
table = '| change | what it does | needs to manifest | own check when first evaluated | own check now | all checks reporting VIOLATION now |\n|---|---|---|---|---|---|\n' + '\n'.join(rows)
open(os.path.join(HERE, 'seeded', 'RESULTS.md'), 'w').write('# Seeded changes and their detection\n\n' + table + '\n')
p = os.path.join(HERE, 'DESIGN.md')
s = open(p).read()
if 'SEEDED_TABLE_PLACEHOLDER' in s:
    s = s.replace('SEEDED_TABLE_PLACEHOLDER', '<!-- seeded-table-begin -->\n' + table + '\n<!-- seeded-table-end -->')
else:
    s = re.sub(r'<!-- seeded-table-begin -->.*?<!-- seeded-table-end -->', lambda _: '<!-- seeded-table-begin -->\n' + table + '\n<!-- seeded-table-end -->', s, flags=re.S)
open(p, 'w').write(s)
print(len(rows), 'rows')
