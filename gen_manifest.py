#!/usr/bin/env python3
"""Regenerates MANIFEST.json from sa/props/*.py metadata (CLAIMS table below)."""
import json, os
HERE = os.path.dirname(os.path.abspath(__file__))
CLAIMS = json.load(open(os.path.join(HERE, 'claims.json')))
props = [json.loads(l) for l in open(os.path.join(HERE, 'properties.jsonl'))]
checks, na = [], []
for p in props:
    pid = p['id']
    c = CLAIMS.get(pid)
    if not c or c.get('not_applicable'):
        na.append({'property_id': pid, 'reason': (c or {}).get('reason', 'check not built yet (work in progress)')})
        continue
    checks.append({
        'property_id': pid,
        'quick_cmd': './vcheck %s --tier quick' % pid,
        'thorough_cmd': './vcheck %s --tier thorough' % pid,
        'evidence_file': 'evidence/%s.json' % pid,
        'replay_cmd_template': './vcheck %s --explain {path}' % pid,
        'engine': 'sa',
        'level_claimed': {'category': 'other', 'text': c['text'], 'design_ref': c.get('design_ref', 'DESIGN.md 6 ' + pid)},
        'level_note': c['note'],
        'technique': c['technique'],
    })
m = {
    'version': 1,
    'setup_cmd': 'true',
    'hooks': {'guard': 'BTC_HD_WALLET_VERIF', 'enable': 'no hooks: the checks parse /repo source with ast and never import or run it',
              'baseline_off_cmd': 'cd /repo && /venv/bin/python -m pytest -ra -q -p no:cacheprovider --timeout=900',
              'source_commits': [], 'add_only': True},
    'engines': [{'name': 'sa', 'path': 'sa/', 'serves_properties': [c['property_id'] for c in checks],
                 'kind_free_text': 'repository-specific static analyser (stdlib ast): loader+CHA call graph, back-end splitter, syntax-directed abstract evaluator to value terms with must-facts, rule families R-TERM/R-GUARD/R-PARTITION/R-SIBLING/R-TAINT/R-EFFECT/R-WHO/R-CONST'}],
    'checks': checks,
    'not_applicable': na,
    'notes': 'Static analysis only: every verdict is computed from the parsed source of /repo on each run. Exit 0 = all obligations discharged (KNOWN-FINDING lines allowed), 1 = VIOLATION, 2 = ANALYSIS-ERROR (undecided; never a VIOLATION line). fix: commits in /repo are listed in known_findings.json.',
}
json.dump(m, open(os.path.join(HERE, 'MANIFEST.json'), 'w'), indent=1)
print('checks', len(checks), 'n/a', len(na))
