"""Parallel structural comparison of a repository function with a reference implementation at the level of value
terms (R-SIBLING against a transcribed specification).

Both functions are abstractly executed segment by segment with values flowing forward.  A loop whose iteration space
is a fixed-shape sequence is unrolled by the evaluator and is part of a straight-line segment; any other loop is
compared by (i) the values its loop-carried variables have on entry, (ii) its iteration space / condition and
(iii) the transfer function of its body: the loop-carried variables (the variables written in the loop, in order of
first write - names do not matter) are bound to canonical symbols, the body is executed once and the resulting values
and exits are compared.  Loop invariants keep the values computed before the loop.  Straight-line segments are compared
through their exits (returned values, rejecting returns, raises and their conditions); temporaries are never compared by
name - what they feed is compared."""
from __future__ import annotations

import ast

from . import terms as T
from . import astnorm
from .evalr import Evaluator, Facts, FALL, Frame, _fixed_items, UNROLL_BOUND, _elem_meta
from .loader import AnalysisError, PKG

MUT = {'append', 'extend', 'insert', 'pop', 'remove', 'clear', 'update', 'add', 'sort', 'reverse'}


def _summaries_for(program, module, keep, shared):
    """Functions of `module` that both sides define become uninterpreted operators CALL:<name>(args);
    helpers that exist on one side only are inlined."""
    summ = {}
    mi = program.get_module(module)
    for name, fi in mi.functions.items():
        if name == keep or name not in shared:
            continue

        def f(ev, fi_, env, facts, name=name):
            return T.raw_op('CALL:' + name, *[env[q] for q in fi_.params]), facts
        summ['%s.%s' % (module, name)] = f
    return summ


def _written(nodes):
    """Names written in the statements, in order of first write (assignment targets, augmented assignments, mutating
    method calls on a local name)."""
    out = []

    def add(n):
        if n not in out:
            out.append(n)
    for s in nodes:
        for n in ast.walk(s):
            if isinstance(n, ast.Name) and isinstance(n.ctx, ast.Store):
                add(n.id)
            elif isinstance(n, ast.Call) and isinstance(n.func, ast.Attribute) and n.func.attr in MUT \
                    and isinstance(n.func.value, ast.Name):
                add(n.func.value.id)
    # order by source position of the first write
    pos = {}
    for s in nodes:
        for n in ast.walk(s):
            nm = None
            if isinstance(n, ast.Name) and isinstance(n.ctx, ast.Store):
                nm = n.id
            elif isinstance(n, ast.Call) and isinstance(n.func, ast.Attribute) and n.func.attr in MUT \
                    and isinstance(n.func.value, ast.Name):
                nm = n.func.value.id
            if nm is not None:
                p = (n.lineno, n.col_offset)
                if nm not in pos or p < pos[nm]:
                    pos[nm] = p
    return sorted(out, key=lambda k: pos[k])


def _reads(node):
    return {n.id for n in ast.walk(node) if isinstance(n, ast.Name) and isinstance(n.ctx, ast.Load)}


def _reads_outside(fn, loop):
    inside = {id(n) for n in ast.walk(loop)}
    return {n.id for n in ast.walk(fn) if isinstance(n, ast.Name) and isinstance(n.ctx, ast.Load) and id(n) not in inside}


def _stores(node):
    return {n.id for n in ast.walk(node) if isinstance(n, ast.Name) and isinstance(n.ctx, ast.Store)}


def _walrus_defs(expr):
    """names bound by `(name := ...)` sub-expressions that are evaluated whenever `expr` is (not behind and/or, a conditional
    expression, a comprehension or a lambda)"""
    out = set()

    def go(e):
        if isinstance(e, ast.NamedExpr):
            go(e.value)
            if isinstance(e.target, ast.Name):
                out.add(e.target.id)
            return
        if isinstance(e, ast.BoolOp):
            go(e.values[0])
            return
        if isinstance(e, ast.IfExp):
            go(e.test)
            return
        if isinstance(e, (ast.Lambda, ast.ListComp, ast.SetComp, ast.DictComp, ast.GeneratorExp)):
            return
        for c in ast.iter_child_nodes(e):
            if isinstance(c, ast.expr):
                go(c)
    if expr is not None:
        go(expr)
    return out


def _exposed(stmts, defd):
    """Names read while not definitely assigned (definite-assignment analysis over the structured statements);
    `defd` is updated to the names definitely assigned after the statements."""
    exp = set()
    for s in stmts:
        if isinstance(s, ast.Assign):
            exp |= _reads(s.value) - defd - _walrus_defs(s.value)
            defd |= _walrus_defs(s.value)
            for t in s.targets:
                if not isinstance(t, (ast.Name, ast.Tuple, ast.List)):
                    exp |= _reads(t) - defd
            for t in s.targets:
                if isinstance(t, (ast.Name, ast.Tuple, ast.List)):
                    defd |= _stores(t)
        elif isinstance(s, ast.AugAssign):
            exp |= _reads(s.value) - defd
            if isinstance(s.target, ast.Name):
                if s.target.id not in defd:
                    exp.add(s.target.id)
            else:
                exp |= _reads(s.target) - defd
        elif isinstance(s, ast.If):
            exp |= _reads(s.test) - defd - _walrus_defs(s.test)
            defd |= _walrus_defs(s.test)
            d1, d2 = set(defd), set(defd)
            exp |= _exposed(s.body, d1)
            exp |= _exposed(s.orelse, d2)
            defd |= (d1 & d2)
        elif isinstance(s, ast.For):
            exp |= _reads(s.iter) - defd
            d = set(defd) | _stores(s.target)
            exp |= _exposed(s.body + s.orelse, d)
        elif isinstance(s, ast.While):
            exp |= _reads(s.test) - defd - _walrus_defs(s.test)
            defd |= _walrus_defs(s.test)
            exp |= _exposed(s.body + s.orelse, set(defd))
        else:
            exp |= _reads(s) - defd
    return exp


def _target_names(t):
    return [n.id for n in ast.walk(t) if isinstance(n, ast.Name)]


class _Walker:
    def __init__(self, program, module, fname, backend, shared, param_types=(), level=2):
        self.param_types = list(param_types)
        self.fi = program.get_function('%s.%s' % (module, fname))
        self.ev = Evaluator(program, backend, summaries=_summaries_for(program, module, fname, shared))
        self.qual = '%s.%s' % (module, fname)
        self.depth = 0
        self.nloops = 0
        # representation-level normal form (sa/astnorm.py): helpers only this side has are spliced in, list accumulators
        # that end in ''.join become string accumulators
        mi = program.get_module(module)
        helpers = {n: f.node for n, f in mi.functions.items() if n != fname and n not in shared and isinstance(f.node, ast.FunctionDef)}
        # level 0: the source as it is; 1: helpers spliced in; 2: and list accumulators as strings
        self.node, self.notes = astnorm.normalise(self.fi.node, helpers, level)

    def run(self):
        env = {}
        for i_, q in enumerate(self.fi.params):
            ty = self.param_types[i_] if i_ < len(self.param_types) else None
            env[q] = T.sym('$' + q, type=ty) if ty else T.sym('$' + q)
        recs, env, facts = self.walk(self.node.body, env, Facts())
        return recs

    def _trial(self, pending, env, facts):
        if not pending:
            return env, facts
        try:
            _, env2, facts2 = self.ev.eval_fragment(self.qual, list(pending), env, facts)
            return env2, facts2
        except Exception:
            return env, facts

    def _iter_is_fixed(self, loop, env, facts):
        if not isinstance(loop, ast.For):
            return False
        fr = Frame(self.fi, dict(env), facts, self.fi.module, self.fi.cls, 0)
        try:
            it = self.ev.expr(loop.iter, fr)
            seq = _fixed_items(it)
            if seq is not None:
                return len(seq) <= UNROLL_BOUND and not loop.orelse
            # an accumulation loop the evaluator turns into a comprehension term
            return bool(self.ev._append_only_loop(loop, it, fr))
        except Exception:
            return False

    def walk(self, stmts, env, facts):
        recs = []
        pending = []

        def flush():
            nonlocal env, facts
            if not pending:
                return
            res, env2, facts2 = self.ev.eval_fragment(self.qual, list(pending), env, facts)
            recs.append(('seq', res if res is not FALL else ('fall',)))
            env, facts = env2, facts2
            pending.clear()
        for s in stmts:
            if isinstance(s, ast.Expr) and isinstance(s.value, ast.Constant) and isinstance(s.value.value, str):
                continue
            if isinstance(s, (ast.For, ast.While)) and not self._iter_is_fixed(s, *self._trial(pending, env, facts)):
                flush()
                written = _written(s.body + s.orelse)
                tnames = _target_names(s.target) if isinstance(s, ast.For) else []
                # loop-carried: written in the loop and either read in an iteration before being (definitely)
                # written, or read outside the loop; other written names are per-iteration temporaries
                exp = _exposed(s.body + s.orelse, set(tnames))
                if isinstance(s, ast.While):
                    exp |= _reads(s.test)
                outside = _reads_outside(self.node, s)
                carried = [n for n in written if n not in tnames and (n in exp or n in outside)]
                init = [env.get(n) for n in carried]
                d = self.depth
                self.nloops += 1
                lid = self.nloops          # symbols of different loops never coincide
                env_loop = dict(env)
                for i, n in enumerate(carried):
                    env_loop[n] = T.sym('$L%d_%d' % (lid, i))
                fr = Frame(self.fi, env_loop, facts, self.fi.module, self.fi.cls, 0)
                if isinstance(s, ast.For):
                    it = self.ev.expr(s.iter, Frame(self.fi, dict(env), facts, self.fi.module, self.fi.cls, 0))
                    self.ev.assign(s.target, T.sym('$E%d' % lid, **_elem_meta(it)), fr)
                    head = ('for', it)
                else:
                    head = ('while', T.truth(self.ev.expr(s.test, fr)))
                self.depth += 1
                body_recs, env_b, facts_b = self.walk(s.body, fr.env, facts)
                else_recs, _, _ = self.walk(s.orelse, dict(env_loop), facts) if s.orelse else ([], None, None)
                self.depth -= 1
                out_state = [env_b.get(n) for n in carried]
                recs.append(('loop', head, init, body_recs, out_state, else_recs, tuple(facts_b) if facts_b is not None else ()))
                for i, n in enumerate(carried):
                    env[n] = T.sym('$OUT%d_%d' % (lid, i))
                for n in tnames:
                    env[n] = T.sym('$LASTE%d' % lid)
            else:
                pending.append(s)
        flush()
        return recs, env, facts


def param_types_of(fi):
    """declared types of the parameters (simple names only): the symbolic inputs of both sides carry them"""
    ann = {a.arg: a.annotation for a in fi.node.args.args}
    out = []
    for q in fi.params:
        t_ = ann.get(q)
        out.append(t_.id if isinstance(t_, ast.Name) and t_.id in ('str', 'bytes', 'int', 'bool') else None)
    return out


def describe(program, module, fname, backend='ecdsa', shared=(), param_types=(), level=2):
    w = _Walker(program, module, fname, backend, set(shared), param_types, level)
    fi = w.fi
    return fi, w.run(), [len(fi.params), sorted(ast.unparse(v) for v in fi.defaults.values())]


def compare(ob, repo_prog, ref_prog, module, fname, same_term, backend='ecdsa'):
    shared = set(repo_prog.get_module(module).functions) & set(ref_prog.get_module(module).functions)
    pt = param_types_of(repo_prog.get_function('%s.%s' % (module, fname)))
    # the source normal forms (sa/astnorm.py) are applied only as far as needed: the first pair of normalisation levels
    # (candidate, reference) under which both sides have the same segment / loop structure is compared
    fi = a = b = sig_a = sig_b = None
    tried = {}
    for la, lb in ((0, 0), (1, 1), (2, 2), (2, 0), (0, 2), (1, 0), (2, 1), (3, 3), (2, 3), (0, 3), (1, 3), (3, 2), (3, 0)):
        try:
            if ('a', la) not in tried:
                tried[('a', la)] = describe(repo_prog, module, fname, backend, shared, pt, la)
            if ('b', lb) not in tried:
                tried[('b', lb)] = describe(ref_prog, module, fname, backend, shared, pt, lb)
        except AnalysisError:
            continue
        fa, ra, sa_ = tried[('a', la)]
        _fb, rb, sb_ = tried[('b', lb)]
        if fi is None:
            fi, a, b, sig_a, sig_b = fa, ra, rb, sa_, sb_
        if _shape(ra) == _shape(rb):
            fi, a, b, sig_a, sig_b = fa, ra, rb, sa_, sb_
            break
    if fi is None:
        fi, a, sig_a = describe(repo_prog, module, fname, backend, shared, pt)
        _, b, sig_b = describe(ref_prog, module, fname, backend, shared, pt)
    where = fi.where
    ob.require(sig_a == sig_b, '%s: number of parameters and default values equal the reference' % fname, where,
               expected=sig_b, found=sig_a)
    # a difference expressed with operators the reference algorithm never uses is a re-expression whose equivalence this
    # comparison cannot judge (UNDECIDED); a difference inside the reference's own vocabulary is a different algorithm
    vocab = set()
    _vocab_of(b, vocab)

    # connectives, arithmetic and indexing are everybody's vocabulary: a difference written with them alone is a different
    # computation, not a re-expression in another idiom
    vocab |= {'MINBYTES', 'NOT', 'AND', 'OR', 'EQ', 'LT', 'IS', 'BOOL', 'IN', 'ADD', 'SUB', 'MUL', 'FLOORDIV', 'MOD', 'LSHIFT', 'RSHIFT',
              'BITAND', 'BITOR', 'BITXOR', 'LEN', 'GETITEM', 'SLICE', 'CAT', 'NEG', 'POW', 'ORD', 'INT', 'SER'}

    def records_as_tuples(t, _d=0):
        # an object of a NamedTuple record class is the tuple of its fields in declaration order (it unpacks, indexes and
        # compares as that tuple)
        if not isinstance(t, tuple) or _d > 40:
            return t
        k = T.tag(t)
        if k == 'phi':
            return T.phi(records_as_tuples(t[1], _d + 1), records_as_tuples(t[2], _d + 1), records_as_tuples(t[3], _d + 1))
        if k in ('tuple', 'list'):
            return (k, tuple(records_as_tuples(x, _d + 1) for x in t[1]))
        if k == 'op':
            args = tuple(records_as_tuples(x, _d + 1) if isinstance(x, tuple) else x for x in t[2:])
            return t if all(a is b for a, b in zip(args, t[2:])) else T.op(t[1], *args)
        if k == 'obj':
            ci = repo_prog.classes.get(t[1])
            if ci is not None and ci.is_record and any(b.split('.')[-1] == 'NamedTuple' for c_ in ci.mro() for b in c_.base_names):
                f = T.obj_fields(t)
                names = [nm for nm, _ in ci.fields]
                if all(nm in f for nm in names):
                    return T.tup([records_as_tuples(f[nm], _d + 1) for nm in names])
        return t

    def st(ob_, found, expected, what, where_=None):
        found = records_as_tuples(found) if found is not None else None
        cf = canon(found) if found is not None else None
        ce = canon(expected) if expected is not None else None
        if cf is not None and ce is not None and cf != ce:
            cases = _bit_table_cases(cf, ce)
            if cases is not None:
                # one side looks a value up in a constant table indexed by the low bits of X where the other tests those bits
                # one by one: decided by the finite case analysis over the index (2^n entries), nothing is executed
                ob_.evaluations += len(cases)
                for k, fk, ek in cases:
                    if fk != ek:
                        return same_term(ob_, fk, ek, '%s [table entry %d]' % (what, k), where_, vocab=vocab)
                return same_term(ob_, ce, ce, what, where_, vocab=vocab)
        return same_term(ob_, cf, ce, what, where_, vocab=vocab)
    _cmp_recs(ob, a, b, fname, where, st)


def _shape(recs):
    out = []
    for r in recs:
        if r[0] == 'seq':
            out.append('seq')
        else:
            out.append(('loop', r[1][0], len(r[2]), tuple(_kind(x) for x in r[2]), _shape(r[3]), _shape(r[5])))
    return out


def _minbytes(t):
    """Idioms for "the shortest big-endian byte string of a non-negative integer":
         bytes.fromhex(h if len(h) % 2 == 0 else '0' + h), h = hex(x)[2:]  /  '%x' % x      -> MINBYTES(x, 1)
         x.to_bytes(max(1, (x.bit_length() + 7) // 8), 'big')                                 -> MINBYTES(x, 1)
         x.to_bytes((x.bit_length() + 7) // 8, 'big')                                         -> MINBYTES(x, 0)
    (second operand: number of bytes produced for x == 0)."""
    def hexdigits(h):
        if T.is_op(h, 'SLICE') and h[3] == T.const(2) and h[4] == T.NONE and T.is_op(h[2], 'HEXINT'):
            return h[2][2]
        if T.is_op(h, 'FORMAT%') and h[2] == T.const('%x'):
            return h[3]
        return None

    def nbytes(n, x):
        return T.is_op(n, 'FLOORDIV') and n[3] == T.const(8) and T.is_op(n[2], 'ADD') and set(n[2][2:]) == {
            T.const(7), T.raw_op('METHOD', x, T.const('bit_length'))}
    if T.is_op(t, 'FROMHEX') and T.tag(t[2]) == 'phi':
        c, a, b = t[2][1], t[2][2], t[2][3]
        x = hexdigits(b)
        if x is not None and a == T.cat(T.const('0'), b) and c == T.truth(T.mod(T.len_(b), T.const(2))):
            return T.raw_op('MINBYTES', x, T.const(1))
    if T.is_op(t, 'FROMHEX') and (T.is_op(t[2], 'ZFILL') or (T.is_op(t[2], 'RJUST') and len(t[2]) == 5 and t[2][4] == T.const('0'))):
        # h.zfill(len(h) + len(h) % 2): pad to the next even length
        h, w = t[2][2], t[2][3]
        x = hexdigits(h)
        ln = T.len_(h)
        if x is not None and T.is_op(w, 'ADD') and len(w) == 4 and set(w[2:]) == {ln, T.mod(ln, T.const(2))}:
            return T.raw_op('MINBYTES', x, T.const(1))
    if T.is_op(t, 'SER') and t[4] == T.const('big'):
        x, n = t[2], t[3]
        if nbytes(n, x):
            return T.raw_op('MINBYTES', x, T.const(0))
        if T.is_op(n, 'MAX') and len(n) == 4 and T.const(1) in n[2:]:
            other = n[3] if n[2] == T.const(1) else n[2]
            if nbytes(other, x):
                return T.raw_op('MINBYTES', x, T.const(1))
        # `(x.bit_length() + 7) // 8 or 1`
        if T.tag(n) == 'phi' and n[3] == T.const(1) and nbytes(n[2], x) and n[1] == T.truth(n[2]):
            return T.raw_op('MINBYTES', x, T.const(1))
    return None


def _single_char(x):
    return x is not None and T.tag(x) == 'sym' and T.sym_meta(x, 'type') == 'str' and T.sym_meta(x, 'len') == 1


def _norm_pred(var, pred):
    """A predicate on one element that is a case analysis over `var == constant` tests, as the disjunction of the accepted
    constants (or the negation of the refused ones): `x in 'abc'`, `TABLE.get(x) is not None`, `x == 'a' or x == 'b'`."""
    consts = []
    for x in T.walk(pred):
        if T.is_op(x, 'EQ') and len(x) == 4 and var in x[2:]:
            o = x[2] if x[3] == var else x[3]
            if T.is_const(o) and o not in consts:
                consts.append(o)
            elif not T.is_const(o):
                return pred
    if not consts or len(consts) > 64:
        return pred
    if any(T.tag(x) == 'sym' and x == var for x in T.walk(T.subst(pred, {T.eq(var, k): T.TRUE for k in consts}))):
        return pred         # the element is used in some other way as well
    yes, no = [], []
    for k in consts:
        facts = {T.eq(var, k)} | {T.not_(T.eq(var, k2)) for k2 in consts if k2 != k}
        v = T.truth(T.assume(pred, facts))
        if v == T.TRUE:
            yes.append(k)
        elif v == T.FALSE:
            no.append(k)
        else:
            return pred
    rest = T.truth(T.assume(pred, {T.not_(T.eq(var, k)) for k in consts}))
    if rest == T.FALSE:
        out = T.FALSE
        for k in yes:
            out = T.or_(out, T.eq(var, k))
        return out
    if rest == T.TRUE:
        out = T.FALSE
        for k in no:
            out = T.or_(out, T.eq(var, k))
        return T.not_(out)
    return pred


def _run_item(p_):
    """the single item a strip argument / a compared element stands for: b'\\x00' and 0 are the same byte"""
    if T.is_const(p_) and isinstance(p_[1], bytes) and len(p_[1]) == 1:
        return T.const(p_[1][0])
    if T.is_const(p_) and isinstance(p_[1], str) and len(p_[1]) == 1:
        return p_
    if T.is_const(p_) and isinstance(p_[1], int) and not isinstance(p_[1], bool):
        return p_
    return None


def _leadrun(r):
    """len(X) - len(X.lstrip(P)) for a one-item P, and the operator the evaluator makes of a counting loop (astnorm level 3):
    LEADRUN(X, item)"""
    if T.is_op(r, 'LEADRUN') and len(r) == 4:
        it = _run_item(r[3])
        return ('op', 'LEADRUN', r[2], it) if it is not None else None
    a = b = None
    if T.is_op(r, 'SUB') and len(r) == 4:
        a, b = r[2], r[3]
    elif T.is_op(r, 'ADD') and len(r) == 4:
        for u, w in ((r[2], r[3]), (r[3], r[2])):
            if T.is_op(w, 'MUL') and T.const(-1) in w[2:] and len(w) == 4:
                a, b = u, [z for z in w[2:] if z != T.const(-1)][0]
    if a is not None and T.is_op(a, 'LEN') and T.is_op(b, 'LEN') and T.is_op(b[2], 'LSTRIP') and len(b[2]) == 4 and b[2][2] == a[2]:
        it = _run_item(b[2][3])
        if it is not None:
            return ('op', 'LEADRUN', a[2], it)
    return None


def _bit_table_cases(a, b):
    """a or b contains TABLE[X & (2^n - 1)] with a constant table of 2^n entries (n <= 6).  For every k in 0 .. 2^n - 1 both
    terms are specialised to "the low n bits of X are k": the masked index becomes k, every single-bit test (X >> i) & 1 with
    i < n becomes bit i of k.  Returns [(k, a_k, b_k)] or None when no such table look-up is present."""
    hit = None
    for side in (a, b):
        for x in T.walk(side):
            if T.is_op(x, 'GETITEM') and len(x) == 4 and T.tag(x[2]) in ('tuple', 'list') and all(T.is_const(y) for y in x[2][1]) \
                    and T.is_op(x[3], 'BITAND') and len(x[3]) == 4:
                n_ = len(x[2][1])
                m, X = (x[3][2], x[3][3]) if T.is_const(x[3][2]) else (x[3][3], x[3][2])
                if T.is_const(m) and isinstance(m[1], int) and n_ in (2, 4, 8, 16, 32, 64) and m[1] == n_ - 1 and not T.is_const(X):
                    hit = (x[3], X, n_)
                    break
        if hit:
            break
    if hit is None:
        return None
    masked, X, n_ = hit
    nbits = n_.bit_length() - 1
    out = []
    for k in range(n_):
        mp = {masked: T.const(k)}
        for i in range(nbits):
            bit = T.const((k >> i) & 1)
            sh = X if i == 0 else T.op('RSHIFT', X, T.const(i))
            for one in (T.op('BITAND', T.const(1), sh), T.op('BITAND', sh, T.const(1)), ('op', 'BITAND', T.const(1), sh), ('op', 'BITAND', sh, T.const(1))):
                mp[one] = bit
            # (X & 2^i) as a truth value
            for pw in (T.op('BITAND', T.const(1 << i), X), ('op', 'BITAND', T.const(1 << i), X), ('op', 'BITAND', X, T.const(1 << i))):
                mp[pw] = T.const(((k >> i) & 1) << i)
        out.append((k, canon(T.subst(a, mp)), canon(T.subst(b, mp))))
    return out


def _const_leaf_chain(t, _n=0):
    if T.tag(t) == 'phi':
        return _n < 80 and _const_leaf_chain(t[2], _n + 1) and _const_leaf_chain(t[3], _n + 1)
    return T.is_const(t) and isinstance(t[1], (int, str, bytes, bool, type(None)))


def _lift_compare(opname, tree, k, tree_left):
    if T.tag(tree) != 'phi':
        try:
            a, b = (tree[1], k[1]) if tree_left else (k[1], tree[1])
            if opname == 'IS':
                if a is None or b is None:
                    return T.const(a is None and b is None)
                raise TypeError
            return T.const(a < b if opname == 'LT' else a == b)
        except TypeError:
            return T.raw_op(opname, tree, k) if tree_left else T.raw_op(opname, k, tree)
    c = tree[1]
    ta, tb = _lift_compare(opname, tree[2], k, tree_left), _lift_compare(opname, tree[3], k, tree_left)
    if ta == tb:
        return ta
    if ta == T.TRUE:
        return T.or_(c, tb)
    if ta == T.FALSE:
        return T.and_(T.not_(c), tb)
    if tb == T.TRUE:
        return T.or_(T.not_(c), ta)
    if tb == T.FALSE:
        return T.and_(c, ta)
    return T.phi(c, ta, tb)


def canon(t, _memo=None):
    """idiom-level canonical form applied to both sides before comparing"""
    memo = {} if _memo is None else _memo
    if not isinstance(t, tuple) or t is FALL:
        return t
    if id(t) in memo:
        return memo[id(t)][1]
    k = T.tag(t)
    if k == 'op' and t[1] == 'MAP' and len(t) == 7 and T.tag(t[2]) == 'sym' and not _single_char(t[2]) \
            and (T.type_of(t[4]) == 'str' or (T.is_op(t[4], 'SLICE') and T.type_of(t[4][2]) == 'str')):
        # the elements of a string are its characters: the element variable is a one-character string
        v2 = T.sym(t[2][1], type='str', len=1)
        t = ('op', 'MAP', v2, T.subst(t[3], {t[2]: v2}), t[4], T.subst(t[5], {t[2]: v2}) if isinstance(t[5], tuple) else t[5], t[6])
    if k == 'op':
        r = ('op', t[1]) + tuple(canon(x, memo) if isinstance(x, tuple) else x for x in t[2:])
        m = _minbytes(r)
        lr = _leadrun(r)
        if lr is not None:
            r = lr
        elif m is not None:
            r = m
        elif _single_char(r[3] if r[1] == 'INDEX' and len(r) == 4 else (r[2] if r[1] == 'IN' and len(r) == 4 else None)):
            # membership / position of ONE character in a constant alphabet: a case analysis over its characters
            if r[1] == 'IN' and T.is_const(r[3]) and isinstance(r[3][1], str) and 0 < len(r[3][1]) <= 64:
                out = T.FALSE
                for ch in r[3][1]:
                    out = T.or_(out, T.eq(r[2], T.const(ch)))
                r = out
            elif False:
                pass
            elif r[1] == 'INDEX' and T.is_const(r[2]) and isinstance(r[2][1], str) and 0 < len(r[2][1]) <= 64:
                out = T.raise_('ValueError')
                seen = set()
                for i_, ch in reversed(list(enumerate(r[2][1]))):
                    if r[2][1].index(ch) == i_:
                        out = T.phi(T.eq(r[3], T.const(ch)), T.const(i_), out)
                r = out
        if r[1] == 'FIND' and len(r) == 4 and T.is_const(r[2]) and isinstance(r[2][1], str) and 0 < len(r[2][1]) <= 64 and _single_char(r[3]):
            out = T.const(-1)
            for i_, ch in reversed(list(enumerate(r[2][1]))):
                if r[2][1].index(ch) == i_:
                    out = T.phi(T.eq(r[3], T.const(ch)), T.const(i_), out)
            r = out
        # a comparison of a case analysis with constant outcomes (the position of a character in an alphabet) against a
        # constant is the disjunction of the cases in which it holds: `ALPHABET.find(c) < 0` is "c is none of the letters"
        if isinstance(r, tuple) and T.is_op(r) and r[1] in ('LT', 'EQ', 'IS') and len(r) == 4:
            for pi, ki in ((2, 3), (3, 2)):
                if T.tag(r[pi]) == 'phi' and T.is_const(r[ki]) and _const_leaf_chain(r[pi]):
                    r = _lift_compare(r[1], r[pi], r[ki], pi == 2)
                    break
        if isinstance(r, tuple) and T.is_op(r, 'BITXOR') and len(r) == 4:
            # xor on integers is associative and commutative: one flat spelling, constants folded into one
            ops, stack = [], [r]
            while stack:
                x = stack.pop()
                if T.is_op(x, 'BITXOR') and len(x) == 4:
                    stack.extend([x[3], x[2]])
                else:
                    ops.append(x)
            consts = [x for x in ops if T.is_const(x) and type(x[1]) is int]
            rest = [x for x in ops if not (T.is_const(x) and type(x[1]) is int)]
            if (consts or any(T.type_of(x) == 'int' for x in rest)) and not any(T.is_const(x) for x in rest) and len(ops) > 2:
                c = 0
                for x in consts:
                    c ^= x[1]
                rest = sorted(rest, key=repr)
                parts = ([T.const(c)] if c else []) + rest
                acc = parts[-1] if parts else T.const(0)
                for x in reversed(parts[:-1]):
                    acc = ('op', 'BITXOR', x, acc)
                r = acc
        if isinstance(r, tuple) and T.is_op(r, 'NOT') and len(r) == 3 and (T.is_op(r[2], 'AND') or T.is_op(r[2], 'OR') or T.is_op(r[2], 'NOT')
                                                                         or T.is_const(r[2])):
            r = T.not_(r[2])          # De Morgan through the smart constructor: NOT(AND(NOT a, NOT b)) is OR(a, b)
        # quantifiers over a comprehension: one canonical spelling (ALL), so that `None in [TABLE.get(x) for x in s]`,
        # `any(x not in SET for x in s)` and `not all(x in SET for x in s)` are the same condition
        if r[1] == 'IN' and len(r) == 4 and r[2] == T.NONE and T.is_op(r[3], 'MAP') and r[3][5] == T.TRUE:
            m = r[3]
            r = ('op', 'ANY', ('op', 'MAP', m[2], T.is_(m[3], T.NONE), m[4], m[5], m[6]))
        if r[1] == 'ANY' and len(r) == 3 and T.is_op(r[2], 'MAP'):
            m = r[2]
            r = T.not_(('op', 'ALL', ('op', 'MAP', m[2], T.not_(T.truth(m[3])), m[4], m[5], m[6])))
        elif r[1] == 'ALL' and len(r) == 3 and T.is_op(r[2], 'MAP'):
            m = r[2]
            r = ('op', 'ALL', ('op', 'MAP', m[2], T.truth(m[3]), m[4], m[5], m[6]))
        if T.is_op(r, 'NOT') and T.is_op(r[2], 'ALL') and T.is_op(r[2][2], 'MAP'):
            m = r[2][2]
            r = T.not_(('op', 'ALL', ('op', 'MAP', m[2], _norm_pred(m[2], m[3]), m[4], m[5], m[6])))
        elif T.is_op(r, 'ALL') and len(r) == 3 and T.is_op(r[2], 'MAP'):
            m = r[2]
            r = ('op', 'ALL', ('op', 'MAP', m[2], _norm_pred(m[2], m[3]), m[4], m[5], m[6]))
        if r[1] == 'GETITEM' and len(r) == 4 and T.tag(r[2]) == 'dict' and _single_char(r[3]) and 0 < len(r[2][1]) <= 64 \
                and all(T.is_const(k_) and isinstance(k_[1], str) and len(k_[1]) == 1 for k_, _v in r[2][1]):
            # look-up of ONE character in a constant table: the same case analysis as ALPHABET.index(c)
            out = T.raise_('KeyError')
            for k_, v_ in reversed(r[2][1]):
                out = T.phi(T.eq(r[3], k_), v_, out)
            r = out
    elif k == 'phi':
        r = T.phi(canon(t[1], memo), canon(t[2], memo), canon(t[3], memo))
    elif k in ('list', 'tuple'):
        r = (k, tuple(canon(x, memo) for x in t[1]))
    else:
        r = t
    memo[id(t)] = (t, r)
    return r


def _vocab_of(recs, out):
    def walk(t):
        if isinstance(t, tuple):
            for x in T.walk(t):
                if T.is_op(x):
                    out.add(x[1])
    for r in recs:
        if r[0] == 'seq':
            walk(r[1])
        else:
            walk(r[1][1])
            for x in r[2] + r[4]:
                if x is not None:
                    walk(x)
            _vocab_of(r[3], out)
            _vocab_of(r[5], out)


def _tl(t):
    """constant tuples and lists are interchangeable for what these functions do with them (indexing, iteration)"""
    if isinstance(t, tuple) and T.tag(t) == 'tuple' and all(T.is_const(x) for x in t[1]):
        return ('list', t[1])
    return t


def _kind(t):
    if isinstance(t, tuple) and T.tag(t) in ('list', 'tuple', 'dict'):
        return 'list' if T.tag(t) in ('list', 'tuple') else 'dict'
    return T.type_of(t)


def _cmp_values(ob, xs, ys, what, where, same_term):
    if len(xs) != len(ys):
        ob.undecided('%s: the repository has %d loop-carried variables, the reference %d; term-level comparison not possible'
                     % (what, len(xs), len(ys)), where)
        return
    for i, (x, y) in enumerate(zip(xs, ys)):
        if x is None and y is None:
            continue
        if x is None or y is None:
            ob.require(False, '%s: loop-carried variable #%d is initialised on one side only' % (what, i), where)
            continue
        tx, ty = _kind(x), _kind(y)
        if tx is not None and ty is not None and tx != ty:
            ob.undecided('%s, loop-carried variable #%d: the loop state is represented differently (%s instead of %s); '
                         'term-level comparison not possible' % (what, i, tx, ty), where)
            continue
        same_term(ob, _tl(x), _tl(y), '%s, loop-carried variable #%d' % (what, i), where)


def _under_path(t, facts=()):
    """Every exit of a segment simplified under the conditions of its own path: case-analysis tails that the path has
    already excluded are dropped - for a scalar (`if c not in TABLE: return` before `TABLE[c]`) and element-wise for a
    comprehension over the same iterable as a universally quantified guard (`if not all(x in SET for x in s): return`
    before `[TABLE.find(x) for x in s]`)."""
    if not isinstance(t, tuple) or t is FALL or t == ('fall',):
        return t
    t = canon(t) if not facts else t
    if T.tag(t) in ('tuple', 'list') and any(T.tag(x) == 'phi' for x in t[1]):
        # exits that all return displays of one length are kept component-wise by the evaluator
        return (t[0], tuple(_under_path(x, facts) if isinstance(x, tuple) else x for x in t[1]))
    if T.tag(t) == 'phi':
        c = _ascii_len(_elementwise(t[1], facts) if facts else t[1], facts)
        return T.phi(c, _under_path(t[2], facts + (c,)), _under_path(t[3], facts + (T.not_(c),)))
    if not facts:
        return t
    r = _drop_refused(t, facts)
    return _ascii_len(_elementwise(r, facts), facts)


def _ascii_strings(facts):
    """strings x for which the path has established that every character is ASCII: ALL(ord(c) <= k for c in x), k <= 127"""
    out = []
    for f in facts:
        for g in ([f] if not T.is_op(f, 'AND') else list(f[2:])):
            if not (T.is_op(g, 'ALL') and len(g) == 3 and T.is_op(g[2], 'MAP') and g[2][5] == T.TRUE):
                continue
            m = g[2]
            var, pred, it = m[2], (m[3][2] if T.is_op(m[3], 'BOOL') else m[3]), m[4]
            for cj in ([pred] if not T.is_op(pred, 'AND') else list(pred[2:])):
                # NOT(LT(k, ORD(var)))  i.e.  ord(c) <= k
                if T.is_op(cj, 'NOT') and T.is_op(cj[2], 'LT') and T.is_const(cj[2][2]) and isinstance(cj[2][2][1], int) \
                        and cj[2][2][1] <= 127 and cj[2][3] == ('op', 'ORD', var):
                    out.append(it)
                # LT(ORD(var), k)
                if T.is_op(cj, 'LT') and cj[2] == ('op', 'ORD', var) and T.is_const(cj[3]) and isinstance(cj[3][1], int) and cj[3][1] <= 128:
                    out.append(it)
    return out


def _ascii_len(t, facts):
    """len(x.lower()) / len(x.upper()) is len(x) for a string known to be ASCII (case mapping changes the length of some
    non-ASCII strings only)"""
    xs = _ascii_strings(facts) if facts else []
    if not xs or not isinstance(t, tuple):
        return t
    mapping = {}
    for x in xs:
        for nm in ('LOWER', 'UPPER'):
            mapping[('op', 'LEN', ('op', nm, x))] = T.len_(x)
    return T.subst(t, mapping)


def _elementwise(t, facts):
    guards = []
    for f in facts:
        for g in ([f] if not T.is_op(f, 'AND') else list(f[2:])):
            if T.is_op(g, 'ALL') and len(g) == 3 and T.is_op(g[2], 'MAP') and g[2][5] == T.TRUE:
                m = g[2]
                p_ = m[3][2] if T.is_op(m[3], 'BOOL') else m[3]
                if T.is_op(p_, 'OR') and all(T.is_op(d, 'EQ') for d in p_[2:]):
                    guards.append((m[2], p_, m[4]))
    if not guards:
        return t
    memo = {}

    def rec(x):
        if not isinstance(x, tuple) or not x:
            return x
        if id(x) in memo:
            return memo[id(x)][1]
        r = x
        if T.is_op(x, 'MAP'):
            body = x[3]
            for var, pred, it in guards:
                if x[4] == it:
                    p2 = T.subst(pred, {var: x[2]}) if var != x[2] else pred
                    body = _drop_refused(body, (p2,))
            r = ('op', 'MAP', x[2], rec(body), rec(x[4]), x[5], x[6]) if len(x) == 7 else x
        elif T.tag(x) == 'op':
            r = ('op', x[1]) + tuple(rec(y) if isinstance(y, tuple) else y for y in x[2:])
        elif T.tag(x) in ('tuple', 'list'):
            r = (x[0], tuple(rec(y) for y in x[1]))
        elif T.tag(x) == 'phi':
            r = T.phi(rec(x[1]), rec(x[2]), rec(x[3]))
        memo[id(x)] = (x, r)
        return r
    return rec(t)


def _must_raise(x):
    if not isinstance(x, tuple):
        return False
    if T.tag(x) == 'raise':
        return True
    if T.tag(x) == 'phi':
        return _must_raise(x[2]) and _must_raise(x[3])
    if T.tag(x) == 'op':
        if x[1] in ('ADD', 'SUB', 'MUL', 'FLOORDIV', 'MOD', 'LSHIFT', 'RSHIFT', 'BITAND', 'BITOR', 'BITXOR', 'NEG', 'POW', 'LT') \
                and any(y == T.NONE for y in x[2:]):
            return True         # arithmetic / ordering on None is a TypeError
        return any(_must_raise(y) for y in x[2:] if isinstance(y, tuple))
    if T.tag(x) in ('tuple', 'list'):
        return any(_must_raise(y) for y in x[1])
    return False


def _non_raising(t):
    """the value on the alternatives where computing it does not raise"""
    if t is None or not isinstance(t, tuple):
        return t
    t = canon(t)

    def go(x):
        if not isinstance(x, tuple):
            return x
        if T.tag(x) == 'phi':
            if _must_raise(x[2]) and not _must_raise(x[3]):
                return go(x[3])
            if _must_raise(x[3]) and not _must_raise(x[2]):
                return go(x[2])
            return T.phi(x[1], go(x[2]), go(x[3]))
        if T.tag(x) == 'op':
            return ('op', x[1]) + tuple(go(y) if isinstance(y, tuple) and T.tag(y) in ('phi', 'op') else y for y in x[2:])
        return x
    return t if _must_raise(t) else go(t)


def _drop_refused(t, facts):
    """Remove the raising tail of a case analysis `x == k1 ? v1 : x == k2 ? v2 : ... : RAISE` when the facts say that x
    is one of the k (a membership test that raised earlier in the same iteration)."""
    if t is None or not facts or not isinstance(t, tuple):
        return t
    ors = []
    for f in facts:
        c = canon(f)
        if T.is_op(c, 'OR') and all(T.is_op(d, 'EQ') for d in c[2:]):
            ors.append(set(c[2:]))
    if not ors:
        return t
    t = canon(t)

    def go(x, negated):
        if any(o <= negated for o in ors):
            return None         # every alternative the guard allows has been excluded on the way here: unreachable
        if T.tag(x) == 'phi':
            c = x[1]
            a = go(x[2], negated)
            b = go(x[3], negated | {c})
            if b is None:
                return a
            if a is None:
                return b
            return T.phi(c, a, b)
        if T.is_op(x):
            return ('op', x[1]) + tuple(go(y, negated) if isinstance(y, tuple) and T.tag(y) in ('phi', 'op') else y for y in x[2:]) \
                if not any(isinstance(y, tuple) and T.tag(y) in ('phi', 'op') and go(y, negated) is None for y in x[2:]) else None
        if any(o <= negated for o in ors):
            return None         # every alternative the guard allows has been excluded on the way here: unreachable
        return x
    r = go(t, frozenset())
    return t if r is None else r


def _cmp_recs(ob, a, b, what, where, same_term):
    if [r[0] for r in a] != [r[0] for r in b]:
        ob.undecided('%s: statement structure differs from the reference (segments %s vs %s); term-level comparison not possible'
                     % (what, [r[0] for r in a], [r[0] for r in b]), where)
        return
    for i, (ra, rb) in enumerate(zip(a, b)):
        if ra[0] == 'seq':
            same_term(ob, _under_path(ra[1]), _under_path(rb[1]),
                      '%s, segment %d: exits (returned value / rejecting returns and their conditions)' % (what, i), where)
        else:
            ha, hb = ra[1], rb[1]
            ob.require(ha[0] == hb[0], '%s, loop %d: loop kind' % (what, i), where, expected=hb[0], found=ha[0])
            if ha[0] == hb[0]:
                same_term(ob, ha[1], hb[1], '%s, loop %d: %s' % (what, i, 'iteration space' if ha[0] == 'for' else 'loop condition'), where)
            _cmp_values(ob, ra[2], rb[2], '%s, loop %d: value on entry' % (what, i), where, same_term)
            _cmp_recs(ob, ra[3], rb[3], '%s, loop %d body' % (what, i), where, same_term)
            # a value is compared on the iterations that get that far: alternatives excluded by what the body has already
            # refused (`if c not in ALPHABET: raise` before `TABLE[c]`) are dropped on both sides
            fa = ra[6] if len(ra) > 6 else ()
            fb = rb[6] if len(rb) > 6 else ()
            # ... and alternatives on which the iteration raises are not values at all (the raising exits of the body are
            # compared as exits, with their conditions)
            _cmp_values(ob, [_non_raising(_drop_refused(x, fa)) for x in ra[4]], [_non_raising(_drop_refused(x, fb)) for x in rb[4]],
                        '%s, loop %d: value after one iteration' % (what, i), where, same_term)
            _cmp_recs(ob, ra[5], rb[5], '%s, loop %d else' % (what, i), where, same_term)
