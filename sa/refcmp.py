"""Parallel structural comparison of a repository function with a reference implementation at the level of value
terms (R-SIBLING against a transcribed specification).  Straight-line segments are compared as the terms they assign /
return; loops are compared by iteration space and by the transfer function of their body (recursively)."""
from __future__ import annotations

import ast

from . import terms as T
from .evalr import Evaluator, Facts, FALL
from .loader import AnalysisError, FunctionInfo, PKG
from . import externals as X


def _summaries_for(program, module, keep):
    """Every function of `module` other than `keep` becomes an uninterpreted operator CALL:<name>(args)."""
    summ = {}
    mi = program.get_module(module)
    for name, fi in mi.functions.items():
        if name == keep:
            continue

        def f(ev, fi_, env, facts, name=name):
            return T.raw_op('CALL:' + name, *[env[q] for q in fi_.params]), facts
        summ['%s.%s' % (module, name)] = f
    return summ


def _segments(stmts):
    segs, cur = [], []
    for s in stmts:
        if isinstance(s, ast.Expr) and isinstance(s.value, ast.Constant) and isinstance(s.value.value, str):
            continue
        if isinstance(s, ast.For) and _is_accumulation_loop(s):
            cur.append(s)          # the evaluator turns it into a comprehension term
            continue
        if isinstance(s, (ast.For, ast.While)):
            if cur:
                segs.append(('seq', cur))
                cur = []
            segs.append(('loop', s))
        else:
            cur.append(s)
    if cur:
        segs.append(('seq', cur))
    return segs


def _is_accumulation_loop(st):
    body = st.body
    if st.orelse or not body:
        return False
    last = body[-1]
    if not (isinstance(last, ast.Expr) and isinstance(last.value, ast.Call) and isinstance(last.value.func, ast.Attribute)
            and last.value.func.attr == 'append' and isinstance(last.value.func.value, ast.Name) and len(last.value.args) == 1):
        return False
    return all(isinstance(x, ast.Assign) and len(x.targets) == 1 and isinstance(x.targets[0], ast.Name) for x in body[:-1])


def _names_used(nodes):
    out = set()
    for s in nodes:
        for n in ast.walk(s):
            if isinstance(n, ast.Name):
                out.add(n.id)
    return out


def _local_names(fi):
    names = set(fi.params)
    for n in ast.walk(fi.node):
        if isinstance(n, ast.Name) and isinstance(n.ctx, ast.Store):
            names.add(n.id)
        if isinstance(n, ast.comprehension):
            for x in ast.walk(n.target):
                if isinstance(x, ast.Name):
                    names.discard(x.id)
    return names


def _sym_env(fi, nodes):
    # every local of the function is part of the symbolic state of a fragment (a variable the reference updates and the
    # repository leaves alone must show up as a difference)
    env = {}
    for nm in sorted(_local_names(fi)):
        env[nm] = T.sym('$' + nm)
    return env


def describe(program, module, fname, backend='ecdsa'):
    """Comparable description of module.fname: nested list of segment records."""
    fi = program.get_function('%s.%s' % (module, fname))
    summ = _summaries_for(program, module, fname)
    ev = Evaluator(program, backend, summaries=summ)

    def seg_records(stmts):
        recs = []
        for kind, item in _segments(stmts):
            if kind == 'seq':
                env0 = _sym_env(fi, item)
                res, env1, facts = ev.eval_fragment('%s.%s' % (module, fname), item, env0)
                assigned = {k: v for k, v in env1.items() if k not in env0 or env0[k] != v}
                recs.append(('seq', res if res is not FALL else ('fall',), assigned, dict(env1)))
            else:
                loop = item
                env0 = _sym_env(fi, [loop])
                from .evalr import Frame
                fr = Frame(fi, dict(env0), Facts(), fi.module, fi.cls, 0)
                if isinstance(loop, ast.For):
                    head = ('for', ast.unparse(loop.target), ev.expr(loop.iter, fr))
                else:
                    head = ('while', T.truth(ev.expr(loop.test, fr)))
                recs.append(('loop', head, seg_records(loop.body), seg_records(loop.orelse)))
        return recs
    return fi, seg_records(fi.node.body), [fi.params, {k: ast.unparse(v) for k, v in fi.defaults.items()}]


def compare(ob, repo_prog, ref_prog, module, fname, same_term, backend='ecdsa'):
    fi, a, sig_a = describe(repo_prog, module, fname, backend)
    _, b, sig_b = describe(ref_prog, module, fname, backend)
    where = fi.where
    ob.require(sig_a == sig_b, '%s: signature (parameters and defaults) equals the reference' % fname, where,
               expected=sig_b, found=sig_a)
    _cmp_recs(ob, a, b, fname, where, same_term)


def _cmp_recs(ob, a, b, what, where, same_term):
    if len(a) != len(b) or [r[0] for r in a] != [r[0] for r in b]:
        ob.undecided('%s: statement structure differs from the reference (segments %s vs %s); term-level comparison not possible'
                     % (what, [r[0] for r in a], [r[0] for r in b]), where)
        return
    for i, (ra, rb) in enumerate(zip(a, b)):
        if ra[0] == 'seq':
            same_term(ob, ra[1], rb[1], '%s, segment %d: exits (returned value / rejecting returns and their conditions)' % (what, i), where)
            for k in sorted(set(ra[2]) | set(rb[2])):
                # a variable changed on one side and left unchanged on the other is a difference
                if k not in ra[2] and k in ra[3]:
                    ra[2][k] = ra[3][k]
                if k not in rb[2] and k in rb[3]:
                    rb[2][k] = rb[3][k]
                if k not in ra[2] or k not in rb[2]:
                    # a temporary that exists on one side only is not a difference by itself: what it feeds is compared
                    ob.note('%s, segment %d: temporary %s exists only in %s' % (what, i, k, 'the reference' if k in rb[2] else 'the repository'))
                    continue
                same_term(ob, ra[2][k], rb[2][k], '%s, segment %d: value of %s' % (what, i, k), where)
        else:
            ha, hb = ra[1], rb[1]
            ob.require(ha[0] == hb[0], '%s, loop %d: loop kind' % (what, i), where, expected=hb[0], found=ha[0])
            if ha[0] == 'for' and hb[0] == 'for':
                ob.require(ha[1] == hb[1], '%s, loop %d: loop variable' % (what, i), where, expected=hb[1], found=ha[1])
                same_term(ob, ha[2], hb[2], '%s, loop %d: iteration space' % (what, i), where)
            elif ha[0] == 'while' and hb[0] == 'while':
                same_term(ob, ha[1], hb[1], '%s, loop %d: loop condition' % (what, i), where)
            _cmp_recs(ob, ra[2], rb[2], '%s, loop %d body' % (what, i), where, same_term)
            _cmp_recs(ob, ra[3], rb[3], '%s, loop %d else' % (what, i), where, same_term)
