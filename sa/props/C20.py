"""C20 — CLI: bad arguments yield no wallet output; good ones equal the API result."""
from __future__ import annotations

import ast

from .. import terms as T
from ..evalr import Evaluator, Facts, bounds_of
from .. import externals as X
from .common import *
from .common import _split

PW = PKG + '.paper_wallet.PaperWallet'
CTORS = {
    'new': ('new_wallet', {'mnemonic_length': 'mnemonic_len', 'password': 'password', 'testnet': 'testnet'}),
    'from-master-xprv': ('from_extended_key', {'extended_key': 'master_xprv'}),
    'from-mnemonic': ('from_mnemonic', {'mnemonic': 'mnemonic', 'password': 'password', 'testnet': 'testnet'}),
    'from-bip39-seed': ('from_bip39_seed_hex', {'bip39_seed': 'seed_hex', 'testnet': 'testnet'}),
    'from-entropy-hex': ('from_entropy_hex', {'entropy_hex': 'entropy_hex', 'password': 'password', 'testnet': 'testnet'}),
}
ARGS = T.sym('args')


def attr(name):
    return T.raw_op('ATTR', ARGS, T.const(name))


def _choice_facts(p, ev):
    """What argparse guarantees about a destination declared with `choices=`: after parsing, its value is one of the
    choices or the declared default (argparse does not check defaults that are not strings against the choices)."""
    from ..evalr import Frame
    fpa = p.get_function('__main__.parse_args')
    calls, _ = _add_argument_calls(fpa, p)
    facts = Facts()
    for own, names, kw, line in calls:
        if 'choices' not in kw or not names:
            continue
        fr = Frame(fpa, {}, Facts(), fpa.module, None, 0)
        try:
            ch = ev.expr(kw['choices'], fr)
            dflt = ev.expr(kw['default'], fr) if 'default' in kw else T.NONE
        except Exception:
            continue
        items = list(ch[1]) if T.tag(ch) in ('list', 'tuple') else None
        if items is None or not all(T.is_const(x) for x in items):
            continue
        vals = list(items)
        if T.is_const(dflt) and dflt not in vals:
            vals.append(dflt)
        elif not T.is_const(dflt):
            # argparse.SUPPRESS: the attribute is then absent, not of some other value - nothing to add
            if not (isinstance(kw.get('default'), ast.Attribute) and kw['default'].attr == 'SUPPRESS'):
                continue
        a = attr(_dest(names) if 'dest' not in kw or not isinstance(kw['dest'], ast.Constant) else kw['dest'].value)
        c = T.FALSE
        for x in vals:
            c = T.or_(c, T.eq(a, x))
        facts = facts.add(c)
    return facts


def main_paths(p):
    """Abstractly evaluate main() with the wallet API summarised; return one record per path."""
    summ = dict(X.DEFAULT_SUMMARIES)
    parser = S('parser', type='argparser')
    argv_seen = []
    summ['__main__.parse_args'] = lambda ev, fi, env, facts: (argv_seen.append(env[fi.params[0]]) or T.tup([parser, ARGS]), facts)

    def ctor(name):
        def f(ev, fi, env, facts):
            kw = tuple(sorted((k, v) for k, v in env.items() if k != fi.params[0]))
            return S('wallet', cls=PW, ctor=name, recv=env[fi.params[0]], kwargs=kw), facts
        return f
    for name in ('new_wallet', 'from_extended_key', 'from_mnemonic', 'from_bip39_seed_hex', 'from_entropy_hex',
                 'from_bip39_seed_bytes', 'from_entropy_bits'):
        summ['base_wallet.BaseWallet.' + name] = ctor(name)
    summ['paper_wallet.PaperWallet.generate'] = lambda ev, fi, env, facts: (
        T.raw_op('GENERATE', *[env[q] for q in fi.params]), facts)
    summ['__main__.paranoia_mode'] = lambda ev, fi, env, facts: (T.raw_op('PARANOIA', env[fi.params[0]]), facts)

    def sink(kind):
        def f(ev, fi, env, facts):
            ev.sinks.append((kind, dict(env)))
            return T.raise_('SINK#%d' % (len(ev.sinks) - 1)), facts
        return f
    for kind in ('export_wallet', 'pprint', 'export_wasabi', 'json', 'wasabi_json', 'export_to_file'):
        summ['paper_wallet.PaperWallet.' + kind] = sink(kind)
    ev = Evaluator(p, 'ecdsa', summaries=summ)
    given = _choice_facts(p, ev)
    v, f = ev.call_function('__main__.main', [], facts=given)
    out = []
    main_paths.argv = list(argv_seen)
    for cs, leaf in leaves(v, conds=tuple(given), _known=set(given)):
        cmd = None
        for c in cs:
            if T.is_op(c, 'EQ') and attr('command') in c[2:]:
                o = c[2] if c[3] == attr('command') else c[3]
                if T.is_const(o):
                    cmd = o[1]
        if cmd is None:
            # decided by exclusion: (command is one of the table's keys) and not any of the others
            flat = set()
            for c in cs:
                flat.update(_split(c))
            for c in flat:
                if T.is_op(c, 'OR') and all(T.is_op(d, 'EQ') and attr('command') in d[2:] for d in c[2:]):
                    left = [d for d in c[2:] if T.not_(d) not in flat]
                    if len(left) == 1:
                        o = left[0][2] if left[0][3] == attr('command') else left[0][3]
                        if T.is_const(o):
                            cmd = o[1]
        rec = {'conds': cs, 'command': cmd, 'paranoia': T.truth(attr('paranoia')) in cs, 'file': T.truth(attr('file')) in cs,
               'leaf': leaf, 'effects': list(ev.effects)}
        if T.tag(leaf) == 'raise' and leaf[1].startswith('SINK#'):
            kind, env = ev.sinks[int(leaf[1][5:])]
            known = set()
            for c in cs:
                known.update(_split(c))
            pc = T.truth(attr('paranoia'))
            if pc not in known and T.not_(pc) not in known:
                # the filter sits on a join: consider both values of the flag
                for flag in (True, False):
                    k2 = set(known) | {pc if flag else T.not_(pc)}
                    env2 = {k_: T.assume(v_, k2) for k_, v_ in env.items()}
                    r2 = dict(rec, paranoia=flag)
                    r2.update(kind='sink', sink=kind, env=env2, data=env2.get('data'))
                    out.append(r2)
                continue
            env = {k_: T.assume(v_, known) for k_, v_ in env.items()}
            rec.update(kind='sink', sink=kind, env=env, data=env.get('data'))
        elif T.tag(leaf) == 'raise' and leaf[1].startswith('SystemExit#'):
            rec.update(kind='exit', status=ev.exits[int(leaf[1][11:])][0])
        elif T.tag(leaf) == 'raise':
            rec.update(kind='raise')
        else:
            rec.update(kind='return')
        out.append(rec)
    return out


def all_sink_calls(p):
    """Second evaluation of main() in which a sink returns normally: every call that emits wallet data is recorded with
    the must-facts of its call site (the branch conditions that lead to it), including calls that come *after* another
    sink - which the first evaluation, where a sink ends the path, cannot see."""
    summ = dict(X.DEFAULT_SUMMARIES)
    parser = S('parser', type='argparser')
    summ['__main__.parse_args'] = lambda ev, fi, env, facts: (T.tup([parser, ARGS]), facts)

    def ctor(name):
        def f(ev, fi, env, facts):
            kw = tuple(sorted((k, v) for k, v in env.items() if k != fi.params[0]))
            return S('wallet', cls=PW, ctor=name, recv=env[fi.params[0]], kwargs=kw), facts
        return f
    for name in ('new_wallet', 'from_extended_key', 'from_mnemonic', 'from_bip39_seed_hex', 'from_entropy_hex',
                 'from_bip39_seed_bytes', 'from_entropy_bits'):
        summ['base_wallet.BaseWallet.' + name] = ctor(name)
    summ['paper_wallet.PaperWallet.generate'] = lambda ev, fi, env, facts: (
        T.raw_op('GENERATE', *[env[q] for q in fi.params]), facts)
    summ['__main__.paranoia_mode'] = lambda ev, fi, env, facts: (T.raw_op('PARANOIA', env[fi.params[0]]), facts)
    recs = []

    def sink(kind):
        def f(ev, fi, env, facts):
            recs.append((kind, dict(env), set(facts)))
            return T.NONE, facts
        return f
    for kind in ('export_wallet', 'pprint', 'export_wasabi', 'export_to_file'):
        summ['paper_wallet.PaperWallet.' + kind] = sink(kind)
    ev = Evaluator(p, 'ecdsa', summaries=summ)
    ev.call_function('__main__.main', [], facts=_choice_facts(p, ev))
    return recs


def _consistent(fa, fb):
    """can the two fact sets hold on one run?  (no literal of one negated in the other, no two different constants for
    one value)"""
    both = set(fa) | set(fb)
    eqs = {}
    for c in both:
        if T.not_(c) in both:
            return False
        if T.is_op(c, 'EQ') and len(c) == 4:
            for x, y in ((c[2], c[3]), (c[3], c[2])):
                if T.is_const(y) and not T.is_const(x):
                    if x in eqs and eqs[x] != y:
                        return False
                    eqs[x] = y
    return True


def _add_argument_calls(fi, p=None):
    """[(parser variable, positional args consts, keywords {name: ast})] in source order, with the sub-command each
    parser variable stands for."""
    owner = {}
    calls = []
    for n in ast.walk(fi.node):
        if isinstance(n, ast.Assign) and isinstance(n.value, ast.Call) and isinstance(n.value.func, ast.Attribute) \
                and n.value.func.attr == 'add_parser' and n.value.args and isinstance(n.value.args[0], ast.Constant):
            for t in n.targets:
                if isinstance(t, ast.Name):
                    owner[t.id] = n.value.args[0].value
    for n in ast.walk(fi.node):
        if isinstance(n, ast.Call) and isinstance(n.func, ast.Attribute) and n.func.attr == 'add_argument' \
                and isinstance(n.func.value, ast.Name):
            names = [a.value for a in n.args if isinstance(a, ast.Constant)]
            kw = {k.arg: k.value for k in n.keywords}
            calls.append((owner.get(n.func.value.id, '<global>'), names, kw, n.lineno))
    # declarations made through a helper that is handed the parser: helper(parser_x, ...) with parser.add_argument inside
    if p is not None:
        for n in ast.walk(fi.node):
            if isinstance(n, ast.Call) and isinstance(n.func, ast.Name):
                h = fi.module.functions.get(n.func.id)
                if h is None or h is fi:
                    continue
                bind = {}
                for i, a in enumerate(n.args):
                    if isinstance(a, ast.Name) and i < len(h.params):
                        bind[h.params[i]] = a.id
                for kw_ in n.keywords:
                    if isinstance(kw_.value, ast.Name) and kw_.arg in h.params:
                        bind[kw_.arg] = kw_.value.id
                for m in ast.walk(h.node):
                    if isinstance(m, ast.Call) and isinstance(m.func, ast.Attribute) and m.func.attr == 'add_argument' \
                            and isinstance(m.func.value, ast.Name) and m.func.value.id in bind:
                        names = [a.value for a in m.args if isinstance(a, ast.Constant)]
                        kw = {k.arg: k.value for k in m.keywords}
                        calls.append((owner.get(bind[m.func.value.id], '<global>'), names, kw, n.lineno))
    # options declared on a parent parser: `common = helper()` (or built in place) and `ArgumentParser(parents=[common])` /
    # `add_parser(name, parents=[common])` - argparse copies the parent's actions into the child
    if p is not None:
        parent_decl = {}        # local name of a parent parser -> [(names, kw, line)]
        for n in ast.walk(fi.node):
            if isinstance(n, ast.Assign) and len(n.targets) == 1 and isinstance(n.targets[0], ast.Name) and isinstance(n.value, ast.Call) \
                    and isinstance(n.value.func, ast.Name):
                h = fi.module.functions.get(n.value.func.id)
                if h is None or h is fi:
                    continue
                built = {t.id for m in ast.walk(h.node) if isinstance(m, ast.Assign) and isinstance(m.value, ast.Call)
                         and ast.unparse(m.value.func).endswith('ArgumentParser') for t in m.targets if isinstance(t, ast.Name)}
                returned = {r.value.id for r in ast.walk(h.node) if isinstance(r, ast.Return) and isinstance(r.value, ast.Name)}
                decl = []
                for m in ast.walk(h.node):
                    if isinstance(m, ast.Call) and isinstance(m.func, ast.Attribute) and m.func.attr == 'add_argument' \
                            and isinstance(m.func.value, ast.Name) and m.func.value.id in (built & returned):
                        decl.append(([a.value for a in m.args if isinstance(a, ast.Constant)], {k.arg: k.value for k in m.keywords}, n.lineno))
                if decl:
                    parent_decl[n.targets[0].id] = decl
        # parent parsers built in place: calls recorded above under '<global>' for a variable that is only ever a parent
        for n in ast.walk(fi.node):
            if isinstance(n, ast.Call) and isinstance(n.func, (ast.Attribute, ast.Name)):
                fn_ = ast.unparse(n.func)
                if not (fn_.endswith('ArgumentParser') or fn_.endswith('.add_parser')):
                    continue
                for k in n.keywords:
                    if k.arg == 'parents' and isinstance(k.value, (ast.List, ast.Tuple)):
                        own = '<global>' if fn_.endswith('ArgumentParser') else (
                            n.args[0].value if n.args and isinstance(n.args[0], ast.Constant) else '<global>')
                        for el in k.value.elts:
                            if isinstance(el, ast.Name) and el.id in parent_decl:
                                for names, kw, line in parent_decl[el.id]:
                                    calls.append((own, names, kw, line))
    # the parser may be built by a helper that returns it: `parser = build_parser()`
    if p is not None:
        for h in _parser_builders(fi, p):
            c2, o2 = _add_argument_calls(h, p)
            calls.extend(c2)
            owner.update(o2)
    return calls, owner


def _parser_builders(fi, p, _seen=None):
    """module functions called from `fi` that construct an ArgumentParser and return it"""
    seen = _seen if _seen is not None else {fi}
    out = []
    for n in ast.walk(fi.node):
        if isinstance(n, ast.Call) and isinstance(n.func, ast.Name):
            h = fi.module.functions.get(n.func.id)
            if h is None or h in seen:
                continue
            builds = any(isinstance(m, ast.Call) and ast.unparse(m.func).endswith('ArgumentParser') for m in ast.walk(h.node))
            returns = any(isinstance(r, ast.Return) and r.value is not None for r in ast.walk(h.node))
            takes_parser = any(isinstance(a, ast.Name) for a in n.args)     # helper(parser): handled by the bind rule above
            if builds and returns and not takes_parser:
                seen.add(h)
                out.append(h)
    return out


def _dest_levels(ob, calls, fpa, only=None):
    by_dest = {}
    for own, names, kw, line in calls:
        by_dest.setdefault(_dest(names), set()).add('<global>' if own == '<global>' else 'sub')
    for d_, levels in sorted(by_dest.items()):
        if only is not None and d_ not in only:
            continue
        ob.evaluations += 1
        ob.require(len(levels) == 1, 'option destination %r is declared on the main parser and on a sub-command: a value given '
                   'before the sub-command is overwritten by the sub-command default (accepted, status 0, wrong wallet)' % d_, fpa.where)


def check_onesink(ctx, rule):
    """Every call in main() that emits wallet data - also one that follows another sink - goes to the channel the user asked
    for, gets the generated data filtered exactly when --paranoia is on, and no run reaches two of them."""
    p = ctx.p
    fmain = p.get_function('__main__.main')
    with ctx.obligation(rule, '__main__.main', None, fmain.where) as ob:
        calls = all_sink_calls(p)
        ob.require(len(calls) >= 2, 'main() calls the stdout sink and the file sink', fmain.where, found=len(calls))
        fc, pc = T.truth(attr('file')), T.truth(attr('paranoia'))
        for kind, env, facts in calls:
            ob.evaluations += 1
            with_file = [True] if fc in facts else ([False] if T.not_(fc) in facts else [True, False])
            if kind == 'pprint':
                ob.require(with_file == [False], 'with --file the wallet data (also) reaches standard output: a pprint call is '
                           'reachable while args.file is set', fmain.where, found=sorted(T.show(x, maxdepth=3) for x in facts if 'file' in T.show(x)))
            else:
                ob.require(with_file == [True], 'without --file a file export is reachable (%s)' % kind, fmain.where)
            if kind == 'export_to_file':
                continue
            data = env.get('data')
            flags = [True] if pc in facts else ([False] if T.not_(pc) in facts else [True, False])
            for flag in flags:
                d = T.assume(data, set(facts) | {pc if flag else T.not_(pc)}) if data is not None and data != T.NONE else None
                ok = d is not None and (T.is_op(d, 'PARANOIA') and T.is_op(d[2], 'GENERATE') if flag else T.is_op(d, 'GENERATE'))
                ob.require(ok, 'every emitting call gets the generated data, filtered exactly when --paranoia is on (%s, paranoia %s)'
                           % (kind, 'on' if flag else 'off'), fmain.where,
                           found=T.show(d, maxdepth=3) if d is not None else 'no data argument: the sink falls back to a fresh, unfiltered generate()')
        for i, (k1, _, f1) in enumerate(calls):
            for k2, _, f2 in calls[i + 1:]:
                if _consistent(f1, f2):
                    ob.require(False, 'two emitting calls (%s, %s) are reachable on one run: the wallet is emitted more than once' % (k1, k2),
                               fmain.where)


def check_namespace(ctx, rule):
    """main() must work on what ONE parse of the complete argument vector produced.  argparse fills every option a parser
    knows with its default on every parse: a namespace patched together from two parses (a second parse of left-over
    arguments copied over the first) silently replaces options given in front of the command - `--paranoia` included - by
    their defaults.  Structural rule on parse_args: the namespace it returns comes from a single parse of its `args`
    parameter and is not written to afterwards; copying a second parse's attributes over it wholesale is a violation,
    any other post-processing that is not recognised is UNDECIDED."""
    p = ctx.p
    fpa = p.get_function('__main__.parse_args')
    with ctx.obligation(rule, '__main__.parse_args', None, fpa.where) as ob:
        ob.evaluations += 1
        # the argument vector is read when the command runs: a default value `argv=sys.argv[1:]` (evaluated once, at import)
        # or a module-level copy freezes the vector the process was started with - options put into sys.argv afterwards
        # (`--paranoia` forced by a launcher, an in-process caller) are ignored
        mi_ = fpa.module
        for fi_ in p.functions.values():
            if fi_.module is not mi_:
                continue
            a_ = fi_.node.args
            for d_ in list(a_.defaults) + [x for x in a_.kw_defaults if x is not None]:
                if any(isinstance(n_, ast.Attribute) and n_.attr == 'argv' and isinstance(n_.value, ast.Name) and n_.value.id == 'sys'
                       for n_ in ast.walk(d_)):
                    ob.require(False, '%s takes its argument vector from a default value that reads sys.argv (%s): defaults are '
                               'evaluated once at import, so what is in sys.argv when the command runs is ignored'
                               % (fi_.qual[len(PKG) + 1:], ast.unparse(d_)), '%s:%d' % (mi_.relpath, d_.lineno))
        for st_ in mi_.tree.body:
            if isinstance(st_, (ast.Assign, ast.AnnAssign)) and st_.value is not None and any(
                    isinstance(n_, ast.Attribute) and n_.attr == 'argv' and isinstance(n_.value, ast.Name) and n_.value.id == 'sys'
                    for n_ in ast.walk(st_.value)):
                ob.require(False, 'the CLI module copies sys.argv at import (%s): the vector the command later runs with is not the one '
                           'it parses' % ast.unparse(st_)[:80], '%s:%d' % (mi_.relpath, st_.lineno))
        argname = fpa.params[0] if fpa.params else None
        rets = [n for n in ast.walk(fpa.node) if isinstance(n, ast.Return) and n.value is not None]
        if not rets:
            ob.undecided('parse_args has no return statement', fpa.where)
            return
        parses = [n for n in ast.walk(fpa.node) if isinstance(n, ast.Call) and isinstance(n.func, ast.Attribute)
                  and n.func.attr in ('parse_args', 'parse_known_args', 'parse_intermixed_args', 'parse_known_intermixed_args')]
        full = [c for c in parses if c.args and isinstance(c.args[0], ast.Name) and c.args[0].id == argname]
        other = [c for c in parses if c not in full]
        ob.require(len(full) >= 1, 'parse_args parses its argument vector', fpa.where)
        ob.saw('%d parse call(s) on the full vector, %d on something else' % (len(full), len(other)))
        # names that hold a namespace: bound from a parse call (directly, or by unpacking parse_known_args)
        ns_names, second = set(), set()
        for n in ast.walk(fpa.node):
            if isinstance(n, ast.Assign) and isinstance(n.value, ast.Call) and n.value in parses:
                tgt = n.targets[0]
                nm = tgt.id if isinstance(tgt, ast.Name) else (tgt.elts[0].id if isinstance(tgt, (ast.Tuple, ast.List)) and tgt.elts
                                                               and isinstance(tgt.elts[0], ast.Name) else None)
                if nm:
                    (ns_names if n.value in full else second).add(nm)
        for r in rets:
            val = r.value.elts[1] if isinstance(r.value, ast.Tuple) and len(r.value.elts) == 2 else r.value
            direct = isinstance(val, ast.Call) and val in full and val.func.attr == 'parse_args'
            named = isinstance(val, ast.Name) and val.id in ns_names
            if not (direct or named):
                ob.undecided('the namespace returned by parse_args (%s) is not recognisably the result of one parse of the argument '
                             'vector' % ast.unparse(val), '%s:%d' % (fpa.module.relpath, r.lineno))
        # writes to a namespace after parsing
        for n in ast.walk(fpa.node):
            w = None
            if isinstance(n, ast.Call) and isinstance(n.func, ast.Name) and n.func.id == 'setattr' and n.args \
                    and isinstance(n.args[0], ast.Name) and n.args[0].id in ns_names:
                w = ('setattr', n)
            elif isinstance(n, (ast.Assign, ast.AugAssign)):
                for t in (n.targets if isinstance(n, ast.Assign) else [n.target]):
                    if isinstance(t, ast.Attribute) and isinstance(t.value, ast.Name) and t.value.id in ns_names:
                        w = ('store', n)
            elif isinstance(n, ast.Call) and isinstance(n.func, ast.Attribute) and n.func.attr == 'update' and any(
                    isinstance(x, ast.Name) and x.id in ns_names for x in ast.walk(n.func.value)):
                w = ('update', n)
            if w is None:
                continue
            kind, node = w
            where = '%s:%d' % (fpa.module.relpath, node.lineno)
            from_second = any(isinstance(x, ast.Name) and x.id in second for x in ast.walk(node))
            # the enclosing loop may iterate over the second namespace (for k, v in vars(options).items(): setattr(ns, k, v))
            for lp in ast.walk(fpa.node):
                if isinstance(lp, ast.For) and any(x is node for x in ast.walk(lp)) \
                        and any(isinstance(x, ast.Name) and x.id in second for x in ast.walk(lp.iter)):
                    guarded = any(isinstance(x, ast.If) and any(y is node for y in ast.walk(x)) for x in ast.walk(lp))
                    from_second = 'guarded' if guarded else 'loop'
            if from_second == 'loop' or (from_second is True and kind in ('update',)):
                ob.require(False, 'the namespace of the full parse is overwritten wholesale with the attributes of a second parse: every '
                           'option the second parser knows - given there or not - replaces the value parsed from the full argument '
                           'vector, so `--paranoia` (or --file, --testnet, --account, --interval) in front of the command is silently '
                           'reset to its default', where)
            else:
                ob.undecided('parse_args writes to the parsed namespace (%s); whether main() still sees what the user gave is not '
                             'decided' % ast.unparse(node)[:80], where)


def check_secret_options(ctx, rule, dests):
    """The command line hands the user's secret inputs to the wallet constructors unchanged: none of their destinations is
    declared on two parser levels (argparse then silently replaces the value given first by the other level's default)."""
    p = ctx.p
    fpa = p.get_function('__main__.parse_args')
    with ctx.obligation(rule, '__main__.parse_args', None, fpa.where) as ob:
        calls, _ = _add_argument_calls(fpa, p)
        found = {_dest(names) for _, names, _kw, _l in calls}
        ob.require(set(dests) <= found, 'the secret-carrying options are declared', fpa.where, expected=sorted(dests), found=sorted(found))
        _dest_levels(ob, calls, fpa, only=set(dests))


def _dest(names):
    longs = [x for x in names if x.startswith('--')]
    if longs:
        return longs[0][2:].replace('-', '_')
    return names[0].lstrip('-').replace('-', '_')


SPEC_ARGS = {
    ('<global>', 'file'): {'type': 'file_'},
    ('<global>', 'testnet'): {'action': 'store_true'},
    ('<global>', 'paranoia'): {'action': ('one-of', 'store_true', 'count')},      # a flag; main() uses its truth value
    ('<global>', 'account'): {'type': 'account_index', 'default': 0},
    ('<global>', 'interval'): {'type': 'address_index', 'nargs': 2, 'default': [0, 20]},
    ('new', 'password'): {'type': 'str', 'default': ''},
    ('new', 'mnemonic_len'): {'type': 'int', 'default': 24, 'choices': 'CORRECT_MNEMONIC_LENGTH'},
    ('from-master-xprv', 'master_xprv'): {'type': 'extended_key'},
    ('from-mnemonic', 'mnemonic'): {'type': 'mnemonic'},
    ('from-mnemonic', 'password'): {'type': 'str', 'default': ''},
    ('from-bip39-seed', 'seed_hex'): {'type': 'bip39_seed'},
    ('from-entropy-hex', 'entropy_hex'): {'type': 'entropy_hex'},
    ('from-entropy-hex', 'password'): {'type': 'str', 'default': ''},
}


def run(ctx):
    p = ctx.p
    ctx.explanation = (
        'main() is abstractly evaluated with the argument namespace symbolic and the wallet API summarised: each of the '
        'five command strings must reach its constructor with the intended keyword wiring, an unknown command must end '
        'in a non-zero exit before anything is generated, generate() must receive args.account / args.interval, the '
        'paranoia filter must sit between generation and the sinks, and exactly one sink (file or stdout) is reached. '
        'parse_args\' add_argument calls are matched against the validator table; each validator is evaluated on a '
        'symbolic value: it must raise ArgumentError on the complement of its accepted set and the accepted numeric '
        'ranges are compared with BIP44\'s (hardened account, non-hardened address index). Only PaperWallet.pprint '
        'writes to stdout and only export_to_file creates files.')
    ctx.not_decided = ['argparse internals, OS file semantics, races between validation and open()']
    fmain = p.get_function('__main__.main')
    paths = main_paths(p)
    with ctx.obligation('C20.DISPATCH', '__main__.main', None, fmain.where) as ob:
        seen = set()
        refusals = []
        for rec in paths:
            cmd = rec['command']
            if rec['kind'] == 'sink':
                data = rec['data']
                gen = data[2] if T.is_op(data, 'PARANOIA') else data
                ob.require(T.is_op(data, 'PARANOIA') == rec['paranoia'],
                           'command %r: with --paranoia %s the emitted data is %sfiltered' % (
                               cmd, 'on' if rec['paranoia'] else 'off', '' if T.is_op(data, 'PARANOIA') else 'un'), fmain.where)
                if not T.is_op(gen, 'GENERATE'):
                    ob.require(False, 'the data reaching %s is not the generated wallet data' % rec['sink'], fmain.where,
                               found=T.show(data, maxdepth=3))
                    continue
                wallet = gen[2]
                if cmd not in CTORS:
                    ob.require(False, 'command %r reaches wallet output' % (cmd,), fmain.where)
                    continue
                seen.add(cmd)
                cname, wiring = CTORS[cmd]
                ob.require(T.tag(wallet) == 'sym' and T.sym_meta(wallet, 'ctor') == cname,
                           'command %r must build its wallet with PaperWallet.%s' % (cmd, cname), fmain.where,
                           found=T.show(wallet, maxdepth=2) + ' via ' + str(T.sym_meta(wallet, 'ctor')))
                ob.require(T.sym_meta(wallet, 'recv') == T.clsref(PW), 'the wallet class is PaperWallet', fmain.where)
                kwargs = dict(T.sym_meta(wallet, 'kwargs') or ())
                for param, dest in wiring.items():
                    ob.require(kwargs.get(param) == attr(dest),
                               'command %r: constructor parameter %s must receive args.%s' % (cmd, param, dest), fmain.where,
                               expected=T.show(attr(dest)), found=T.show(kwargs.get(param)) if param in kwargs else 'not passed')
                same_term(ob, gen[3], attr('account'), 'generate(account=args.account)', fmain.where)
                same_term(ob, gen[4], attr('interval'), 'generate(interval=args.interval)', fmain.where)
                # sinks
                if rec['file']:
                    ob.require(rec['sink'] == 'export_wallet', 'with --file the data must go to export_wallet', fmain.where, found=rec['sink'])
                    same_term(ob, rec['env'].get('file_path'), attr('file'), 'export_wallet(file_path=args.file)', fmain.where)
                else:
                    ob.require(rec['sink'] == 'pprint', 'without --file the data must go to pprint (stdout)', fmain.where, found=rec['sink'])
                same_term(ob, rec['env'].get('self'), wallet, 'the sink is invoked on the wallet that generated the data', fmain.where)
            elif rec['kind'] == 'exit':
                st = rec['status']
                # stopping before anything was emitted is one of the two outcomes the property allows, for any command -
                # provided the status is non-zero (a string status is printed to stderr and means 1)
                nonzero = T.is_const(st) and ((isinstance(st[1], int) and not isinstance(st[1], bool) and st[1] != 0)
                                              or (isinstance(st[1], str) and st[1] != ''))
                if not nonzero and T.type_of(st) == 'str' and any(T.is_const(x) and isinstance(x[1], str) and x[1] != ''
                                                                   for x in (st[2:] if T.is_op(st, 'CAT') else ())):
                    nonzero = True      # a message with a non-empty constant part: printed to stderr, status 1
                ob.require(nonzero, 'a run that stops without output (command %r) must stop with a non-zero status' % (cmd,), fmain.where,
                           found=T.show(st))
                if cmd in CTORS:
                    refusals.append((cmd, rec))
            elif rec['kind'] == 'raise':
                # an uncaught exception before any sink: status 1, nothing on stdout, no file
                if cmd in CTORS:
                    refusals.append((cmd, rec))
            else:
                ob.require(False, 'main() has a path that neither emits the wallet nor stops with a non-zero status (%s)' % rec['kind'],
                           fmain.where, found=T.show(rec['leaf'], maxdepth=3))
        ob.require(seen == set(CTORS), 'every sub-command reaches wallet output', fmain.where, expected=sorted(CTORS), found=sorted(seen))
        if refusals:
            ob.note('main() itself refuses some runs of known commands before any output (allowed: non-zero status, nothing emitted): %s'
                    % sorted({c for c, _ in refusals}))
        argv = getattr(main_paths, 'argv', [])
        ob.require(len(argv) == 1 and argv[0] == T.slice_(T.sym('sys.argv', type='list'), T.const(1), T.NONE),
                   'main() parses sys.argv[1:] (the arguments without the program name)', fmain.where,
                   found=[T.show(x) for x in argv])
        ob.require(any(r['kind'] == 'exit' for r in paths), 'an unknown command is refused', fmain.where)
        # no handler in main swallows errors
        ob.require(not [n for n in ast.walk(fmain.node) if isinstance(n, ast.Try)], 'main() contains no try/except that could swallow '
                   'an error (an exception ends the process with a non-zero status)', fmain.where)
    check_onesink(ctx, 'C20.ONESINK')
    # ---------------------------------------------------------------- parse_args table
    fpa = p.get_function('__main__.parse_args')
    with ctx.obligation('C20.ARGS', '__main__.parse_args', None, fpa.where) as ob:
        calls, owner = _add_argument_calls(fpa, p)
        found = {}
        for own, names, kw, line in calls:
            found[(own, _dest(names))] = (kw, line)
        for key, spec in SPEC_ARGS.items():
            if key not in found:
                ob.require(False, 'argument %s of %s is not declared' % (key[1], key[0]), fpa.where)
                continue
            kw, line = found[key]
            where = '%s:%d' % (fpa.module.relpath, line)
            for k, want in spec.items():
                node = kw.get(k)
                got = None
                if node is not None:
                    got = node.id if isinstance(node, ast.Name) else (ast.literal_eval(node) if isinstance(node, (ast.Constant, ast.List, ast.Tuple)) else ast.unparse(node))
                if k == 'type' and want == 'str' and node is None:
                    got = 'str'
                ob.require(got == want or (isinstance(want, list) and isinstance(got, (list, tuple)) and list(got) == want)
                           or (isinstance(want, tuple) and want and want[0] == 'one-of' and got in want[1:]),
                           'argument %s of %s: %s must be %r' % (key[1], key[0], k, want), where, expected=want, found=got)
        # argparse copies a sub-parser's namespace (defaults included) over the parent's: a destination declared on
        # both levels silently loses the value given in front of the sub-command
        _dest_levels(ob, calls, fpa)
        extra = sorted(set(found) - set(SPEC_ARGS))
        if extra:
            ob.note('arguments beyond the specified table (not judged): %s' % extra)
        ob.require(set(owner.values()) == set(CTORS), 'sub-commands are exactly the five wallet sources', fpa.where,
                   expected=sorted(CTORS), found=sorted(owner.values()))
        sub = [n for f_ in [fpa] + _parser_builders(fpa, p) for n in ast.walk(f_.node) if isinstance(n, ast.Call)
               and isinstance(n.func, ast.Attribute) and n.func.attr == 'add_subparsers']
        ok = sub and any(k.arg == 'dest' and isinstance(k.value, ast.Constant) and k.value.value == 'command' for k in sub[0].keywords)
        ob.require(bool(ok), 'the chosen sub-command is stored in args.command', fpa.where)
        # every args.X read by main is a declared destination
        dests = {d for (_, d) in found} | {'command'}
        for n in ast.walk(fmain.node):
            if isinstance(n, ast.Attribute) and isinstance(n.value, ast.Name) and n.value.id == 'args':
                ob.require(n.attr in dests, 'main() reads args.%s which parse_args never sets' % n.attr,
                           '%s:%d' % (fmain.module.relpath, n.lineno))
    check_namespace(ctx, 'C20.NAMESPACE')
    # ---------------------------------------------------------------- validators
    ev = Evaluator(p, 'ecdsa')
    val = S('value', type='str')
    iv = T.raw_op('INTCAST', val)

    def only_argerror(ob, v, where, name):
        for _, leaf in leaves(v):
            if T.tag(leaf) == 'raise':
                ob.require(leaf[1] == 'ArgumentError', '%s refuses with %s (argparse reports only ArgumentError/TypeError/ValueError '
                           'as usage errors)' % (name, leaf[1]), where)
    fa = p.get_function('__main__.account_index')
    with ctx.obligation('C20.RANGES', '__main__.account_index', None, fa.where) as ob:
        v, f = ev.call_function('__main__.account_index', [val])
        nl = normal_leaves(v)
        ob.require(len(nl) >= 1, 'some account is accepted', fa.where)
        for cs, leaf in nl:
            lo, hi = bounds_of(iv, known_at(f, cs))
            same_term(ob, leaf, iv, 'the validator returns int(value)', fa.where)
            ob.require(lo is not None and lo >= 0 and hi is not None and hi <= 2 ** 31 - 1,
                       'an accepted account lies outside [0, 2^31): account + 2^31 would not be a hardened index below 2^32', fa.where,
                       found='[%s, %s]' % (lo, hi))
        only_argerror(ob, v, fa.where, 'account_index')
    fx = p.get_function('__main__.address_index')
    with ctx.obligation('C20.RANGES', '__main__.address_index', None, fx.where) as ob:
        v, f = ev.call_function('__main__.address_index', [val])
        nl = normal_leaves(v)
        ob.require(len(nl) >= 1, 'some address index is accepted', fx.where)
        for cs, leaf in nl:
            lo, hi = bounds_of(iv, known_at(f, cs))
            same_term(ob, leaf, iv, 'the validator returns int(value)', fx.where)
            ob.require(lo is not None and lo >= 0, 'a negative address index is accepted', fx.where, found='[%s, %s]' % (lo, hi))
            ob.require(hi is not None and hi <= 2 ** 31 - 1,
                       'address_index accepts values up to %s: an --interval inside [2^31, 2^32) yields rows with hardened address '
                       'indexes (m/44\'/0\'/0\'/0/0\'), not BIP44-shaped rows' % hi, fx.where,
                       expected='upper bound <= 2^31 - 1', found='[%s, %s]' % (lo, hi))
        only_argerror(ob, v, fx.where, 'address_index')
    with ctx.obligation('C20.VALIDATORS', '__main__ string validators', None, fpa.module.relpath) as ob:
        L = T.len_(val)

        def refuses_when(name, negated):
            """With every accepted size excluded (facts), does the validator refuse on every path?"""
            fx_ = Facts()
            for c_ in negated:
                fx_ = fx_.add(T.not_(c_))
            v_, _ = Evaluator(p, 'ecdsa').call_function('__main__.' + name, [val], facts=fx_)
            lv_ = [x for _, x in leaves(v_, (), set(fx_))]
            return bool(lv_) and all(T.tag(x) == 'raise' for x in lv_)

        def decoded_size_fact(known, leaf, sizes):
            """The path has pinned the number of bytes the RETURNED text decodes to (bytes.fromhex) to one of `sizes`."""
            dl = T.len_(X.fromhex(leaf))
            want = {T.eq(T.const(n_), dl) for n_ in sizes}
            # facts recorded before the path split speak about the case distinction; on this path they speak about its branch
            simple = {k for k in known if not T.phi_conditions(k)}
            known = set(known) | {T.assume(k, simple) for k in known if T.phi_conditions(k)}
            if len(sizes) == 1 and next(iter(want)) in known:
                return True
            return any(T.is_op(k, 'OR') and set(k[2:]) == want for k in known)
        cases = [('extended_key', T.eq(T.const(111), L), val, None), ('bip39_seed', T.eq(T.const(128), L), val, (64,))]
        for name, accept, ret, decoded in cases:
            fi = p.get_function('__main__.' + name)
            v, f = ev.call_function('__main__.' + name, [val])
            sem = None
            for cs, leaf in normal_leaves(v):
                known = known_at(f, cs)
                ok = accept in known
                via_decoded = False
                if not ok and decoded is not None and decoded_size_fact(known, leaf, decoded):
                    ok = via_decoded = True      # the text handed on decodes to exactly that many bytes
                if not ok:
                    if sem is None:
                        sem = refuses_when(name, [accept])
                    ok = sem
                ob.require(ok, '%s accepts a value whose length was not checked' % name, fi.where,
                           expected=T.show(accept), found=[T.show(x) for x in cs])
                if via_decoded:
                    ob.note('%s hands on a normalised text whose decoded size it has checked' % name)
                else:
                    same_term(ob, leaf, ret, '%s returns the value unchanged' % name, fi.where)
            ob.require(any(T.tag(l) == 'raise' for _, l in leaves(v)), '%s can refuse' % name, fi.where)
            only_argerror(ob, v, fi.where, name)
        fi = p.get_function('__main__.entropy_hex')
        v, f = ev.call_function('__main__.entropy_hex', [val])
        sem = None
        for cs, leaf in normal_leaves(v):
            known = known_at(f, cs)
            want = {T.eq(T.const(b), T.mul(T.const(4), L)) for b in (128, 160, 192, 224, 256)}
            ok = any(T.is_op(k, 'OR') and set(k[2:]) == want for k in known)
            via_decoded = False
            if not ok and decoded_size_fact(known, leaf, (16, 20, 24, 28, 32)):
                ok = via_decoded = True
            if not ok:
                if sem is None:
                    sem = refuses_when('entropy_hex', sorted(want))
                    if not sem:
                        # a validator that judges the number of DECODED bytes (the library's own criterion: blanks between
                        # hex bytes are not entropy): with the decoded size none of the five, every path must refuse
                        dl_ = T.len_(X.fromhex(val))
                        sem = refuses_when('entropy_hex', [T.eq(T.const(n_), dl_) for n_ in (16, 20, 24, 28, 32)])
                        if sem:
                            via_decoded = True
                            ob.note('entropy_hex judges the decoded byte count (decided semantically)')
                ok = sem
            ob.require(ok, 'entropy_hex accepts a length outside 32/40/48/56/64 hex characters', fi.where)
            if via_decoded:
                ob.note('entropy_hex hands on a normalised text whose decoded size it has checked')
            else:
                same_term(ob, leaf, val, 'entropy_hex returns the value unchanged', fi.where)
        only_argerror(ob, v, fi.where, 'entropy_hex')
        fi = p.get_function('__main__.mnemonic')
        v, f = ev.call_function('__main__.mnemonic', [val])
        words = T.len_(T.raw_op('SPLIT', val, T.const(' ')))
        for cs, leaf in normal_leaves(v):
            known = known_at(f, cs)
            want = {T.eq(T.const(b), words) for b in (12, 15, 18, 21, 24)}
            ok = any(T.is_op(k, 'OR') and set(k[2:]) == want for k in known)
            if not ok:
                ok = refuses_when('mnemonic', sorted(want))
            ob.require(ok, 'mnemonic accepts a sentence whose word count is not 12/15/18/21/24', fi.where,
                       found=[T.show(x, maxdepth=3) for x in known][:4])
            # the wallet must be the API's wallet for the sentence that was typed: the validator hands it on as it is
            # (today: with surrounding white space stripped), never re-written word by word
            if leaf != val and not (T.is_op(leaf, 'METHOD') and leaf[2] == val and leaf[3] == T.const('strip') and len(leaf) == 4) \
                    and not (T.is_op(leaf, 'STRIP') and leaf[2] == val):
                same_term(ob, leaf, val, 'mnemonic returns the sentence unchanged (or stripped of surrounding white space)', fi.where)
            else:
                ob.require(True, 'mnemonic returns the sentence unchanged (or stripped)', fi.where)
        only_argerror(ob, v, fi.where, 'mnemonic')
        fi = p.get_function('__main__.file_')
        v, f = ev.call_function('__main__.file_', [val])
        nl = normal_leaves(v)
        ob.require(len(nl) >= 1, 'file_ can accept a path', fi.where)
        def _method_fact(known, name, positive):
            for k in known:
                g = k[2] if T.is_op(k, 'NOT') else k
                neg = T.is_op(k, 'NOT')
                if T.is_op(g, 'BOOL'):
                    g = g[2]
                if T.is_op(g, 'METHOD') and g[3] == T.const(name) and neg != positive:
                    return True
                if T.is_op(g, 'EXTCALL') and g[2] == T.const(name) and neg != positive:
                    return True
            return False
        NORMALISERS = ('expanduser', 'resolve', 'absolute', 'expandvars', 'normpath', 'abspath', 'realpath')

        def file_identity(t):
            """Which file a path expression denotes: wrappers (Path(...), os.fspath, str) are transparent, normalising calls
            (expanduser, resolve, ...) give another - possibly different - file name."""
            if T.is_op(t, 'EXTCALL') and len(t) >= 4 and T.is_const(t[2]):
                nm = str(t[2][1])
                if nm.split('.')[-1] in ('Path', 'PurePath', 'PosixPath', 'fspath', 'fsdecode'):
                    return file_identity(t[3])
                if nm.split('.')[-1] in NORMALISERS:
                    return (nm.split('.')[-1], file_identity(t[3]))
            if T.is_op(t, 'STR') and len(t) == 3:
                return file_identity(t[2])
            if T.is_op(t, 'METHOD') and len(t) == 4 and T.is_const(t[3]) and t[3][1] in NORMALISERS:
                return (t[3][1], file_identity(t[2]))
            return t

        def checked_files(known, name):
            out = []
            for k in known:
                if T.is_op(k, 'NOT'):
                    g = k[2][2] if T.is_op(k[2], 'BOOL') else k[2]
                    if T.is_op(g, 'METHOD') and g[3] == T.const(name):
                        out.append(file_identity(g[2]))
            return out
        for cs, leaf in nl:
            known = known_at(f, cs)
            ob.require(_method_fact(known, 'exists', False), 'file_ accepts a path without having established that it does not exist '
                       '(an existing file would be overwritten)', fi.where, found=[T.show(x, maxdepth=4) for x in known][:6])
            # the file that is known not to exist must be the file whose name is handed on (and then created)
            ret_id = file_identity(leaf)
            base = ret_id
            while isinstance(base, tuple) and len(base) == 2 and base[0] in NORMALISERS:
                base = base[1]
            if base == val:
                ex = checked_files(known, 'exists')
                if ex:
                    ob.require(ret_id in ex, 'file_ establishes that one path does not exist and hands on another (the name is '
                               'normalised - e.g. "~" expanded - after, or apart from, the existence check): an existing file can be '
                               'overwritten', fi.where, expected=str(ret_id)[:120], found=[str(x)[:120] for x in ex])
            ob.require(_method_fact(known, 'is_dir', False), 'file_ accepts a path without having established that it is not a directory',
                       fi.where, found=[T.show(x, maxdepth=4) for x in known][:6])
            ob.require(_method_fact(known, 'os.access', True), 'file_ accepts a path whose parent directory was not checked to be writable',
                       fi.where, found=[T.show(x, maxdepth=4) for x in known][:6])
            if base == val and ret_id != val:
                ob.note('file_ hands on a normalised form of the path: %s' % str(ret_id)[:100])
                ob.evaluations += 1
            else:
                same_term(ob, leaf, val, 'file_ returns the path unchanged', fi.where)
        only_argerror(ob, v, fi.where, 'file_')
    # ---------------------------------------------------------------- who writes to stdout / creates files
    with ctx.obligation('C20.STDOUT', 'stdout and file writers', None, 'btc_hd_wallet/') as ob:
        pprint = p.get_function('paper_wallet.PaperWallet.pprint')
        etf = p.get_function('paper_wallet.PaperWallet.export_to_file')
        n_out = n_open = 0
        for fi in p.functions.values():
            for n in ast.walk(fi.node):
                if isinstance(n, ast.Call):
                    d = ast.unparse(n.func)
                    to_stderr = d.startswith('sys.stderr') or (d == 'print' and any(
                        kw.arg == 'file' and ast.unparse(kw.value) == 'sys.stderr' for kw in n.keywords))
                    if to_stderr:
                        # standard error is not the channel the property speaks about (first version: counted as output - a
                        # false alarm on the correct PR V1-R2, a --verbose switch reporting progress on stderr)
                        ob.evaluations += 1
                        ob.note('%s:%d: %s writes to standard error (not judged by this rule)' % (fi.module.relpath, n.lineno, fi.qual))
                        continue
                    if d.startswith('sys.stdout') or d == 'print':
                        n_out += 1
                        ob.require(fi is pprint, 'wallet data can reach standard output outside PaperWallet.pprint', '%s:%d' % (fi.module.relpath, n.lineno),
                                   found='%s in %s' % (d, fi.qual))
                    if d in ('open', 'io.open', 'os.open') or d.endswith('.write_text') or d.endswith('.write_bytes') or d.endswith('.open'):
                        n_open += 1
                        if fi is not etf and d in ('open', 'io.open') and _only_called_from_sinks(p, fi, etf):
                            ob.evaluations += 1
                            ob.note('%s opens the file on behalf of the sinks only (every caller is export_to_file / pprint / '
                                    'export_wallet / export_wasabi)' % fi.qual)
                            continue
                        if fi is not etf and d == 'os.open' and _only_opener_of(p, fi, etf):
                            ob.evaluations += 1
                            ob.note('%s is the opener= of the open() call in export_to_file (it creates the file that call asks for)' % fi.qual)
                            continue
                        ob.require(fi is etf, 'a file is created outside PaperWallet.export_to_file', '%s:%d' % (fi.module.relpath, n.lineno),
                                   found='%s in %s' % (d, fi.qual))
        ob.require(n_out >= 1 and n_open >= 1, 'the stdout writer and the file creator were found (positive control)', pprint.where,
                   found='%d stdout writes, %d opens' % (n_out, n_open))
        main_closure = set(p.reachable_from([fmain])) | {fmain}
        for cs in p.callers_of(pprint):
            ob.require(cs.caller is not None and cs.caller in main_closure and cs.caller.module is fmain.module,
                       'pprint is called outside main() and the helpers main() is split into', cs.where)
        for cs in p.callers_of(etf):
            ok = cs.caller is not None and cs.caller.name in ('export_wallet', 'export_wasabi')
            ob.require(ok, 'export_to_file is called outside export_wallet/export_wasabi', cs.where)
        # the file is created exclusively, or its path is the one validated by file_ (refuses existing paths)
        modes = [n for n in ast.walk(etf.node) if isinstance(n, ast.Call) and ast.unparse(n.func) == 'open']
        excl = all(len(n.args) > 1 and isinstance(n.args[1], ast.Constant) and 'x' in str(n.args[1].value) for n in modes)
        calls, _ = _add_argument_calls(fpa, p)
        validated = any(_dest(names) == 'file' and isinstance(kw.get('type'), ast.Name) and kw['type'].id == 'file_'
                        for _, names, kw, _l in calls)
        ob.require(excl or validated, 'an existing file can be overwritten: export_to_file does not create exclusively and --file is '
                   'not validated by file_', etf.where)
    check_sinks(ctx, 'C20.SINKS')
    # "JSON identical to what the library API returns for the same source secret, network ...": the network of a wallet made
    # from an extended key is the key's own (the API's from_extended_key(key)), that of the other commands is --testnet
    from .C16 import check_cli_network
    check_cli_network(ctx, 'C20.NETWORK(=C16.CLI)')
    # "bad arguments yield no wallet output": the entropy_hex validator counts characters, the refusal of a wrong entropy
    # *size* (e.g. hex digits separated by blanks, which bytes.fromhex skips) is the library's - C04.SIZE is part of it
    from . import C04
    sub4 = ctx.__class__('C20', ctx.tier, ctx.p, ctx.seed)
    C04.run(sub4)
    for o in sub4.obligations:
        if o.rule in ('C04.SIZE', 'C04.PASS'):
            o.rule = 'C20.%s(=C04)' % o.rule.split('.')[1]
            ctx.obligations.append(o)
    from .C11 import check_regex_anchors
    check_regex_anchors(ctx, 'C20.REGEX', [p.get_module('__main__')])
    # "filtered when paranoia mode is on": the filtered value must survive the sinks' falsy-data fall-back
    from .C15 import run as _c15run
    sub = ctx.__class__('C20', ctx.tier, ctx.p, ctx.seed)
    _c15run(sub)
    for o in sub.obligations:
        if o.rule == 'C15.FILTER':
            o.rule = 'C20.FILTERED(=C15.FILTER)'
            ctx.obligations.append(o)


def _only_called_from_sinks(p, fi, etf):
    """fi is a helper whose every caller in the package is one of the output sinks of PaperWallet (a shared 'open the target'
    helper / context manager): the file is still only created on behalf of those sinks"""
    sinks = {'export_to_file', 'pprint', 'export_wallet', 'export_wasabi'}
    callers = list(p.callers_of(fi))
    if not callers:
        return False
    return all(cs.caller is not None and cs.caller.cls is etf.cls and cs.caller.name in sinks for cs in callers)


def _only_opener_of(p, fi, etf):
    """fi is a module-level function whose every use in the package is `opener=fi` in an open() call inside export_to_file"""
    if fi.cls is not None:
        return False
    uses = 0
    for f2 in p.functions.values():
        parents = {}
        for n in ast.walk(f2.node):
            for ch in ast.iter_child_nodes(n):
                parents[ch] = n
        for n in ast.walk(f2.node):
            if isinstance(n, ast.Name) and n.id == fi.name and isinstance(n.ctx, ast.Load):
                par = parents.get(n)
                call = parents.get(par) if isinstance(par, ast.keyword) else None
                if not (f2 is etf and isinstance(par, ast.keyword) and par.arg == 'opener' and isinstance(call, ast.Call)
                        and ast.unparse(call.func) in ('open', 'io.open')):
                    return False
                uses += 1
    return uses >= 1


def check_sinks(ctx, rule):
    """export_wallet / pprint emit exactly the JSON of the data they are given (the fall-back to generate() is taken
    only when no data is given)."""
    p = ctx.p
    fexp = p.get_function('paper_wallet.PaperWallet.export_wallet')
    with ctx.obligation(rule, 'PaperWallet.export_wallet / pprint', None, fexp.where) as ob:
        summ = dict(X.DEFAULT_SUMMARIES)
        rec = []
        summ['paper_wallet.PaperWallet.export_to_file'] = lambda ev_, fi, env, facts: (rec.append(dict(env)) or T.NONE, facts)
        summ['paper_wallet.PaperWallet.generate'] = lambda ev_, fi, env, facts: (T.raw_op('GENERATE', *[env[q] for q in fi.params]), facts)
        data, path = S('data', type='dict'), S('path', type='str')
        w = S('wallet', cls=PW)
        nonempty = Facts().add(T.truth(data))
        e2 = Evaluator(p, 'ecdsa', summaries=summ)
        e2.call_function('paper_wallet.PaperWallet.export_wallet', [w], {'file_path': path, 'data': data}, facts=nonempty)
        ok = len(rec) == 1 and rec[0].get('file_path') == path and rec[0].get('contents') == T.raw_op('JSON', data, T.const(4))
        ob.require(ok, 'export_wallet(file_path, data=d) must write json(data=d, indent=4) to file_path (the data it is given, '
                   'not a freshly generated wallet)', fexp.where,
                   found=[{k: T.show(v, maxdepth=3) for k, v in r.items()} for r in rec])
        fpp = p.get_function('paper_wallet.PaperWallet.pprint')
        e3 = Evaluator(p, 'ecdsa', summaries=summ)
        e3.call_function('paper_wallet.PaperWallet.pprint', [w], {'data': data}, facts=nonempty)
        writes = [e for e in e3.effects if e[0] == 'stream-write' and e[3].startswith('sys.stdout')]
        # what reaches standard output, in order, is the JSON of the data (then, at most, the line terminator)
        text = T.cat(*[x for e in writes for x in e[4]]) if writes else None
        js = T.raw_op('JSON', data, T.const(4))
        ok = bool(writes) and (text == js or text == T.cat(js, X.ext_value('os.linesep')) or text == T.cat(js, T.const('\n')))
        ob.require(ok, 'pprint(data=d) must write json(data=d, indent=4) to standard output', fpp.where,
                   found=[tuple(T.show(x, maxdepth=3) for x in e[4]) for e in writes])
        ob.require(not [e for e in e3.effects if e[0] == 'stream-write' and not e[3].startswith('sys.stdout')],
                   'pprint writes only to standard output', fpp.where)
        # export_to_file writes the contents it is given into the path it is given
        fetf = p.get_function('paper_wallet.PaperWallet.export_to_file')
        e5 = Evaluator(p, 'ecdsa')
        cont = S('contents', type='str')
        e5.call_function('paper_wallet.PaperWallet.export_to_file', [path, cont])
        opens = [e for e in e5.effects if e[0] == 'open']
        fw = [e for e in e5.effects if e[0] == 'file-write']
        ob.require(len(opens) == 1 and opens[0][3][:1] == (T.show(path),), 'export_to_file opens the requested path', fetf.where,
                   found=[e[3] for e in opens])
        ob.require(len(fw) == 1 and fw[0][4] == (cont,), 'export_to_file writes the contents it is given', fetf.where,
                   found=[tuple(T.show(x) for x in e[4]) for e in fw])
        # json(data) renders the data it is given
        summ2 = dict(X.DEFAULT_SUMMARIES)
        summ2['paper_wallet.PaperWallet.generate'] = summ['paper_wallet.PaperWallet.generate']
        e4 = Evaluator(p, 'ecdsa', summaries=summ2)
        ind = S('indent', type='int')
        v, _ = e4.call_function('paper_wallet.PaperWallet.json', [w], {'data': data, 'indent': ind}, facts=nonempty)
        same_term(ob, v, T.raw_op('JSON', data, ind), 'json(data=d, indent=n) is json.dumps(d, indent=n)', p.get_function('paper_wallet.PaperWallet.json').where)
        # the CLI never relies on the fall-back: an EMPTY filtered result must not turn into a full wallet
        v, _ = e4.call_function('paper_wallet.PaperWallet.json', [w], {'data': T.dct([]), 'indent': ind})
        ob.note('json({}) falls back to generate(): %s' % (T.contains(v, lambda x: T.is_op(x, 'GENERATE')),))


def sinks_fall_back_on_empty(p):
    """Do pprint / export_wallet / json replace an empty (falsy) data mapping by a freshly generated wallet?"""
    summ = dict(X.DEFAULT_SUMMARIES)
    rec = []
    summ['paper_wallet.PaperWallet.export_to_file'] = lambda ev_, fi, env, facts: (rec.append(dict(env)) or T.NONE, facts)
    summ['paper_wallet.PaperWallet.generate'] = lambda ev_, fi, env, facts: (T.raw_op('GENERATE', *[env[q] for q in fi.params]), facts)
    w = S('wallet', cls=PW)
    ev = Evaluator(p, 'ecdsa', summaries=summ)
    ev.call_function('paper_wallet.PaperWallet.export_wallet', [w], {'file_path': S('path', type='str'), 'data': T.dct([])})
    hit = any(T.contains(v, lambda x: T.is_op(x, 'GENERATE')) for r in rec for v in r.values())
    ev.call_function('paper_wallet.PaperWallet.pprint', [w], {'data': T.dct([])})
    for e in ev.effects:
        if e[0] == 'stream-write' and any(T.contains(a, lambda x: T.is_op(x, 'GENERATE')) for a in e[4]):
            hit = True
    return hit
