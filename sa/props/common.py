"""Shared helpers for the property modules: symbolic inputs, leaf/path-condition walks, fact closure."""
from __future__ import annotations

import ast

from .. import terms as T
from ..evalr import Evaluator, Facts, FALL
from ..loader import AnalysisError, PKG

BACKENDS = ('secp', 'ecdsa')
PRV = PKG + '.bip32.PrvKeyNode'
PUB = PKG + '.bip32.PubKeyNode'
BIG = T.const('big')
HARD = 2 ** 31


def S(name, **meta):
    return T.sym(name, **meta)


PRIVKEY = PKG + '.keys.PrivateKey'
PUBKEY = PKG + '.keys.PublicKey'
K_VALID = T.sym('k', type='bytes', len=32)      # the checks' valid parent scalar


def _dummy_frame(facts=None):
    from ..evalr import Frame
    return Frame(None, {}, facts or Facts(), None, None, 0)


def mk_priv(p, be, k):
    """The PrivateKey object the class's own constructor builds for the (valid) scalar term k - whatever fields
    the class has today; the checks never assume a layout."""
    ev = Evaluator(p, be)
    v, _ = ev.construct('keys.PrivateKey', [k], facts=Facts(closure([T.raw_op('VALID_SK', k)])))
    nl = distinct_normal_leaves(v)
    if len(nl) == 1 and T.tag(nl[0]) == 'obj':
        return nl[0]
    raise AnalysisError('mk_priv', 'PrivateKey(<valid scalar>) does not evaluate to one object: %s' % T.show(v, maxdepth=4))


def mk_pub(p, be, P):
    ev = Evaluator(p, be)
    v, _ = ev.construct('keys.PublicKey', [P])
    nl = distinct_normal_leaves(v)
    if len(nl) == 1 and T.tag(nl[0]) == 'obj':
        return nl[0]
    raise AnalysisError('mk_pub', 'PublicKey(<point>) does not evaluate to one object: %s' % T.show(v, maxdepth=4))


def mk_wallet(p, be, master, testnet, cls=None):
    """The wallet object BaseWallet's own constructor builds on a node (whatever fields the class has today)."""
    ev = Evaluator(p, be)
    v, _ = ev.construct(cls or (PKG + '.base_wallet.BaseWallet'), [master, testnet])
    nl = distinct_normal_leaves(v)
    if len(nl) == 1 and T.tag(nl[0]) == 'obj':
        return nl[0]
    raise AnalysisError('mk_wallet', 'BaseWallet(<node>, <network>) does not evaluate to one object: %s' % T.show(v, maxdepth=4))


def call_on(ev, obj, qual, kwargs=None, facts=None):
    """Call method `qual` on the object term; returns (value, the receiver as the call left it).  A method that stores
    on its receiver (a cache, a remembered form) hands the modified object back, so that sequences of calls on one
    object can be evaluated."""
    fi = ev.p.get_function(qual)
    ev._param_mut = {}
    v, f = ev.call_function(qual, [obj], dict(kwargs or {}), facts=facts)
    pm = getattr(ev, '_param_mut', None) or {}
    after = pm.get(fi.params[0], obj) if getattr(ev, '_param_mut_fi', None) is fi else obj
    return v, after


def check_history_free(ob, ev, obj, calls, what, where):
    """Every call in `calls` [(label, qualified method, kwargs)] gives, on the object as ANY other call of the list left
    it, the same value as on the fresh object (results do not depend on what was asked of the object before)."""
    fresh = {}
    for lab, q, kw in calls:
        fresh[lab], _ = call_on(ev, obj, q, kw)
    for lab1, q1, kw1 in calls:
        _, obj1 = call_on(ev, obj, q1, kw1)
        if obj1 == obj:
            ob.require(True, '%s: %s leaves the object unchanged' % (what, lab1), where)
            continue
        for lab2, q2, kw2 in calls:
            v2, _ = call_on(ev, obj1, q2, kw2)
            same_term(ob, v2, fresh[lab2], '%s: %s after %s gives what it gives on a fresh object' % (what, lab2, lab1), where)


def attr_of(ev, v, name, facts=None):
    """Attribute read through the evaluator (properties are evaluated)."""
    return ev.getattr(v, name, _dummy_frame(ev._with_domain(facts)))


def pub_sec(ev, pub, compressed=True, facts=None):
    v, _ = ev.call_function('keys.PublicKey.sec', [pub], {'compressed': T.const(compressed)}, facts=facts)
    return v


def same_priv(ob, ev, found, scalar, what, where=None, facts=None):
    """Observational equality of a PrivateKey object: its class, bytes(key) and the encoding of key.K."""
    ok = True
    base = Facts(facts.items if isinstance(facts, Facts) else (facts or ()))
    nl = normal_leaves(found)
    ok &= bool(ob.require(len(nl) >= 1, what + ': a key object is returned', where))
    for cs, leaf in nl:
        fx = Facts(closure(list(base) + list(cs)))
        ok &= bool(ob.require(T.tag(leaf) == 'obj' and leaf[1] == PRIVKEY, what + ': a PrivateKey object', where,
                              found=T.show(leaf, maxdepth=2)))
        b, _ = ev.call_function('keys.PrivateKey.__bytes__', [leaf], facts=fx)
        ok &= bool(same_term(ob, b, scalar, what + ': bytes(key)', where))
        K = attr_of(ev, leaf, 'K', fx)
        ok &= bool(same_term(ob, pub_sec(ev, K, True, fx), T.sec(T.pt(scalar), T.TRUE), what + ': key.K is point(scalar)', where))
    return ok


def same_pub(ob, ev, found, P, what, where=None, facts=None):
    ok = True
    base = Facts(facts.items if isinstance(facts, Facts) else (facts or ()))
    nl = normal_leaves(found)
    ok &= bool(ob.require(len(nl) >= 1, what + ': a key object is returned', where))
    for cs, leaf in nl:
        fx = Facts(closure(list(base) + list(cs)))
        ok &= bool(ob.require(T.tag(leaf) == 'obj' and leaf[1] == PUBKEY, what + ': a PublicKey object', where,
                              found=T.show(leaf, maxdepth=2)))
        for comp in (True, False):
            ok &= bool(same_term(ob, pub_sec(ev, leaf, comp, fx), T.sec(P, T.const(comp)),
                                 what + ': %scompressed encoding' % ('' if comp else 'un'), where))
    return ok


def same_node(ob, ev, found, cls, what, where=None, facts=None, prv=None, pub=None, chain=None, depth=None, index=None,
              testnet=None, parent_fpr=None):
    """Observational equality of a node: its class and what its API returns (secret, public key encoding, chain code,
    depth, child number, network, parent fingerprint).  Field layout, caches and bookkeeping are not compared."""
    ok = True
    base = Facts(facts.items if isinstance(facts, Facts) else (facts or ()))
    nl = normal_leaves(found)
    ok &= bool(ob.require(len(nl) >= 1, what + ': a node is returned', where))
    for cs, leaf in nl:
        fx = Facts(closure(list(base) + list(cs)))
        ok &= bool(ob.require(T.tag(leaf) == 'obj' and leaf[1] == cls, what + ': a %s object' % cls.split('.')[-1], where,
                              found=T.show(leaf, maxdepth=2)))
        if T.tag(leaf) != 'obj':
            continue
        if prv is not None:
            pk, _ = ev.call_function('bip32.PrvKeyNode.private_key', [leaf], facts=fx)
            b, _ = ev.call_function('keys.PrivateKey.__bytes__', [pk], facts=fx)
            ok &= bool(same_term(ob, b, prv, what + ': private key', where))
        if pub is not None:
            K = attr_of(ev, leaf, 'public_key', fx)
            ok &= bool(same_term(ob, pub_sec(ev, K, True, fx), T.sec(pub, T.TRUE), what + ': public key', where))
        for name, exp in (('chain_code', chain), ('depth', depth), ('index', index), ('testnet', testnet)):
            if exp is not None:
                ok &= bool(same_term(ob, attr_of(ev, leaf, name, fx), exp, what + ': ' + name, where))
        if parent_fpr is not None:
            v, _ = ev.call_function('bip32.PubKeyNode.parent_fingerprint', [leaf], facts=fx)
            ok &= bool(same_term(ob, v, parent_fpr, what + ': parent fingerprint', where))
    return ok


PROGRAM = None
_NODE_CACHE = {}


def node_term(cls, key, chain=None, depth=None, index=None, parent=T.NONE, testnet=None, ppf=T.NONE, tagname=''):
    """Symbolic node.  With a program at hand the object is built by the node class's own constructor, so that it has
    whatever fields (slots, caches, bookkeeping) the class has today; a parsed node gets its parsed parent fingerprint
    the way _parse sets it (attribute assignment after construction)."""
    args = dict(
        key=key,
        chain_code=chain if chain is not None else S('c' + tagname, type='bytes', len=32),
        depth=depth if depth is not None else S('depth' + tagname, type='int'),
        index=index if index is not None else S('pindex' + tagname, type='int'),
        parent=parent,
        testnet=testnet if testnet is not None else S('testnet', type='bool'),
    )
    if PROGRAM is not None:
        ck = (cls, tuple(sorted(args.items())), ppf)
        if ck in _NODE_CACHE:
            return _NODE_CACHE[ck]
        ev = Evaluator(PROGRAM, 'ecdsa')
        v, _ = ev.construct(cls, [], dict(args))
        nl = distinct_normal_leaves(v)
        if len(nl) == 1 and T.tag(nl[0]) == 'obj':
            node = nl[0]
            if ppf != T.NONE:
                if 'parsed_parent_fingerprint' not in T.obj_fields(node):
                    raise AnalysisError('node_term', 'node objects no longer have a parsed_parent_fingerprint field')
                node = T.obj_set(node, 'parsed_parent_fingerprint', ppf)
            _NODE_CACHE[ck] = node
            return node
        raise AnalysisError('node_term', '%s(key, chain_code, index, depth, testnet, parent) does not evaluate to one '
                            'object: %s' % (cls.split('.')[-1], T.show(v, maxdepth=3)))
    return T.obj(cls, dict(args, parsed_parent_fingerprint=ppf, parsed_version=T.NONE, children=T.lst([])))


def prv_node(layout='32', name='k', **kw):
    """Symbolic PrvKeyNode.  layout '32': key is the 32-byte scalar; '33': 00 || scalar (parsed xprv).
    The default scalar symbol `k` is a valid scalar (Evaluator.DOMAIN); any other name is an arbitrary 32-byte string."""
    k = S(name, type='bytes', len=32)
    key = k if layout == '32' else T.cat(T.const(b'\x00'), k)
    return node_term(PRV, key, **kw), k


def depth_overflow(cs, node):
    """A refusal whose conditions imply that the parent's depth is 255 or more: the child's depth (256) has no one-byte
    serialisation, so no extended key could be printed for it - refusing to derive it is not a refusal of a valid child."""
    from ..evalr import bounds_of, Facts as _F
    d = T.obj_fields(node).get('depth') if T.tag(node) == 'obj' else None
    if d is None:
        return False
    lo, hi = bounds_of(d, _F(list(cs)))
    return lo is not None and lo >= 255


def pub_node(**kw):
    """Symbolic PubKeyNode whose key is the compressed SEC encoding of a symbolic point P."""
    P = S('P', type='point')
    return node_term(PUB, T.sec(P, T.TRUE), **kw), P


def master_prv(layout='32', testnet=None):
    return prv_node(layout, depth=T.const(0), index=T.const(0), parent=T.NONE, testnet=testnet)


def leaves(t, conds=(), _known=None):
    """Yield (path conditions, leaf) for every feasible leaf of a Phi tree.  A leaf is infeasible when
    one of its conditions simplifies to False under the conditions before it."""
    known = set() if _known is None else _known
    if t is not FALL and T.tag(t) == 'phi':
        c = T.assume(t[1], known)
        if c == T.TRUE:
            yield from leaves(t[2], conds, known)
            return
        if c == T.FALSE:
            yield from leaves(t[3], conds, known)
            return
        k1 = set(known)
        k1.update(_split(c))
        yield from leaves(t[2], conds + (c,), k1)
        nc = T.not_(c)
        k2 = set(known)
        k2.update(_split(nc))
        yield from leaves(t[3], conds + (nc,), k2)
    else:
        # a condition taken early may be refuted by the ones taken after it (a disjunction whose every alternative was
        # excluded later): such a path is infeasible
        for c in conds:
            if T.is_op(c, 'OR') and T.assume(c, known - {c}) == T.FALSE:
                return
        yield conds, t


def distinct_leaves(t):
    """Distinct leaves of a Phi DAG (no path enumeration; shared sub-trees are visited once)."""
    seen, out, stack = set(), [], [t]
    while stack:
        x = stack.pop()
        if x is not FALL and T.tag(x) == 'phi':
            if id(x) in seen:
                continue
            seen.add(id(x))
            stack.append(x[3])
            stack.append(x[2])
        elif x not in out:
            out.append(x)
    return out


def distinct_normal_leaves(t):
    return [x for x in distinct_leaves(t) if T.tag(x) != 'raise']


def normal_leaves(t):
    return [(c, x) for c, x in leaves(t) if T.tag(x) != 'raise']


def raise_leaves(t):
    return [(c, x) for c, x in leaves(t) if T.tag(x) == 'raise']


def closure(facts):
    """Close a fact set under the contracts of the summary table (DESIGN 8)."""
    out = set()
    for f in facts:
        for x in _split(f):
            out.add(x)
    changed = True
    while changed:
        changed = False
        for f in list(out):
            new = []
            if T.is_op(f, 'VALID_SK'):
                x = f[2]
                i = T.int_(x, BIG)
                new += [T.lt(i, T.CURVE_N), T.not_(T.eq(T.const(0), i)), T.lt(T.const(0), i)]
            if T.is_op(f, 'LT') and f[2] == T.const(0):
                new.append(T.not_(T.eq(T.const(0), f[3])))
            # canonical spelling of 0 < x for integers: not (x < 1)
            if T.is_op(f, 'NOT') and T.is_op(f[2], 'LT') and T.is_const(f[2][3]) and isinstance(f[2][3][1], int) and f[2][3][1] >= 1:
                new.append(T.not_(T.eq(T.const(0), f[2][2])))
            # an explicit range check is as good as the library's: 32 bytes, 0 < int(x) < n
            if T.is_op(f, 'LT') and f[3] == T.CURVE_N and T.is_op(f[2], 'INT') and f[2][3] == BIG:
                x, ix = f[2][2], f[2]
                low = (T.lt(T.const(0), ix) in out or T.not_(T.lt(ix, T.const(1))) in out
                       or T.not_(T.eq(T.const(0), ix)) in out)
                ln = T.length_of(x) == 32 or T.eq(T.const(32), T.len_(x)) in out
                if low and ln:
                    new.append(T.raw_op('VALID_SK', x))
            elif T.is_op(f, 'LT') and f[3] == T.CURVE_N and T.type_of(f[2]) == 'int' and not T.is_const(f[2]):
                ix = f[2]
                if (T.lt(T.const(0), ix) in out or T.not_(T.lt(ix, T.const(1))) in out or T.not_(T.eq(T.const(0), ix)) in out):
                    new.append(T.raw_op('VALID_SK', T.ser(ix, T.const(32), BIG)))
            for n in new:
                if n not in out:
                    out.add(n)
                    changed = True
    return out


def _split(t):
    if T.is_op(t, 'AND'):
        for x in t[2:]:
            yield from _split(x)
    elif T.is_op(t, 'NOT') and T.is_op(t[2], 'OR'):
        for x in t[2][2:]:
            yield from _split(T.not_(x))
    else:
        yield t


def contradictory(known):
    """A closed fact set that contains a boolean term together with its negation."""
    return any(T.not_(x) in known for x in known)


Evaluator.DOMAIN = tuple(closure([T.raw_op('VALID_SK', K_VALID)]))


def spurious_refusals(ev, v, valid_facts):
    """Raising exits that valid input can reach: a raise leaf is harmless when, under the validity facts, one of the
    conditions on its path is decided false (the path needs invalid input).  Returns [(exception, undecided
    conditions)] for the others."""
    from ..evalr import Frame
    out = []
    for cs, leaf in raise_leaves(v):
        known = set(closure(valid_facts))
        fr = Frame(None, {}, Facts(known), None, None, 0)
        infeasible = False
        open_ = []
        for c in cs:
            d = ev.decide(c, fr)
            if d == T.FALSE:
                infeasible = True
                break
            if d != T.TRUE:
                open_.append(c)
            known |= set(_split(c))
            fr.facts = Facts(closure(known))
        if not infeasible:
            out.append((leaf[1], open_))
    return out


def known_at(facts, conds):
    return closure(list(facts) + list(conds))


def find_sub(t, pred):
    return [x for x in T.walk(t) if pred(x)]


def is_hmac_left(x):
    return T.is_op(x, 'SLICE') and T.is_op(x[2], 'HMAC512') and x[3] == T.const(0) and x[4] == T.const(32)


def is_hmac_right(x):
    return T.is_op(x, 'SLICE') and T.is_op(x[2], 'HMAC512') and x[3] == T.const(32) and x[4] == T.const(64)


def require_no_opaque(ob, t, what, where=None):
    ops = T.opaques(t)
    if ops:
        raise AnalysisError(ob.rule, '%s contains constructs outside the evaluator\'s catalogue: %s'
                            % (what, '; '.join(sorted({o[1] for o in ops}))[:300]))


def fn_where(p, qual):
    return p.get_function(qual).where


def discarded_exceptions(fi):
    """Expression statements that build an exception object and drop it (forgotten `raise`)."""
    out = []
    for n in ast.walk(fi.node):
        if isinstance(n, ast.Expr) and isinstance(n.value, ast.Call):
            f = n.value.func
            name = f.id if isinstance(f, ast.Name) else (f.attr if isinstance(f, ast.Attribute) else '')
            if name.endswith('Error') or name.endswith('Exception'):
                out.append('%s:%d %s(...) constructed but not raised' % (fi.module.relpath, n.lineno, name))
    return out


def vocabulary(t):
    out = set()
    for x in T.walk(t):
        if T.is_op(x):
            if x[1] == 'LT' and len(x) == 4 and any((T.is_const(y) and isinstance(y[1], (str, bytes))) or T.type_of(y) in ('str', 'bytes')
                                                  for y in x[2:]):
                out.add('LT(text)')         # ordering of characters / texts: another operator than the integer comparison
            else:
                out.add(x[1])
    return out


UNINTERPRETED_OPS = {'SUM', 'MIN', 'MAX', 'ABS', 'POW', 'ROUND', 'DIVMOD', 'METHOD', 'ZIP', 'SORTED', 'DICTGET', 'ANY', 'ALL', 'LIST', 'TUPLE',
                     'SET', 'FROZENSET', 'DICT', 'BYTES', 'DECODE', 'SEQCAT', 'PLUS', 'ATTR', 'HASATTR'}


def same_term(ob, found, expected, what, where=None, vocab=None):
    """R-TERM comparison with diagnosis.  With `vocab` (a set of operator names): a differing term that
    uses operators outside it is an unknown re-expression (UNDECIDED), not a violation."""
    if vocab is not None and found is not None and found != expected:
        extra = vocabulary(found) - set(vocab) - vocabulary(expected)
        if extra and not T.opaques(found):
            ob.undecided('%s: expressed with operators outside the recognised vocabulary (%s); equivalence not decided'
                         % (what, ', '.join(sorted(extra))), where)
            return False
    if found == expected:
        return ob.require(True, what, where)
    _ovf = lambda t_: t_ is not None and T.contains(t_, lambda x: T.tag(x) == 'raise' and x[1] == 'OverflowError')
    if _ovf(found) or _ovf(expected):
        from ..evalr import absorb_ser_guards
        found = absorb_ser_guards(found) if found is not None else None
        expected = absorb_ser_guards(expected) if expected is not None else None
        if found == expected:
            return ob.require(True, what, where)
    if found is not None and expected is not None and (T.phi_conditions(found) or T.phi_conditions(expected)):
        hf, he = T.hoist(found), T.hoist(expected)
        if hf == he:
            return ob.require(True, what, where)
        found, expected = hf, he
    if found is None:
        return ob.require(False, what + ': value missing', where, expected=T.show(expected, maxdepth=5), found='None')
    ops = T.opaques(found)
    if ops:
        ob.undecided('%s: value not computable by the evaluator (%s)' % (
            what, '; '.join(sorted({o[1] for o in ops}))[:300]), where)
        return False
    ext = sorted({str(x[2][1]) for x in T.walk(found) if T.is_op(x, 'EXTCALL') and len(x) > 2 and T.is_const(x[2])}
                 - ({str(x[2][1]) for x in T.walk(expected) if T.is_op(x, 'EXTCALL') and len(x) > 2 and T.is_const(x[2])} if expected is not None else set()))
    if ext:
        # a library function the summary table does not model: the value is not known, which is not a difference
        ob.undecided('%s: the value goes through %s, which the summary table does not model; not compared' % (what, ', '.join(ext)), where)
        return False
    # operators that stand for a builtin / method the evaluator did not interpret (it only recorded the call): a value
    # that contains one where the specification has none is not known, which is not a difference
    def _closed(t_):
        if T.is_const(t_):
            return True
        if T.tag(t_) in ('tuple', 'list'):
            return all(_closed(i_) for i_ in t_[1])
        return False
    unint = sorted({x[1] for x in T.walk(found) if T.is_op(x) and x[1] in UNINTERPRETED_OPS and all(_closed(a_) for a_ in x[2:])}
                   - ({x[1] for x in T.walk(expected) if T.is_op(x)} if expected is not None else set()))
    if unint:
        # a call on constants only that the evaluator merely recorded: it has a value the evaluator failed to compute
        ob.undecided('%s: the value contains %s applied to constants, which the evaluator does not fold; not compared' % (what, ', '.join(unint)), where)
        return False
    d = T.first_difference(found, expected)
    path, a, b = d if d else ('', found, expected)
    return ob.require(False, '%s differs from the specification at %s' % (what, path or '<root>'), where,
                      expected=T.show(b, maxdepth=6), found=T.show(a, maxdepth=6))
