"""C13 — derivation is a pure function of root and path (effect analysis)."""
from __future__ import annotations

import ast

from .. import terms as T
from ..evalr import Evaluator, Facts, Frame
from .. import externals as X
from .common import *
from . import C17

MUTATORS = {'append', 'extend', 'insert', 'pop', 'remove', 'clear', 'update', 'add', 'sort', 'reverse', 'setdefault',
            'popitem', 'discard', '__setitem__', '__delitem__', 'appendleft'}
API_ROOTS = [
    'bip32.PubKeyNode.ckd', 'bip32.PrvKeyNode.ckd', 'bip32.PubKeyNode.derive_path', 'bip32.PubKeyNode.generate_children',
    'base_wallet.BaseWallet.by_path', 'base_wallet.BaseWallet.address_generator', 'base_wallet.BaseWallet.p2pkh_address',
    'base_wallet.BaseWallet.p2wpkh_address', 'base_wallet.BaseWallet.p2sh_p2wpkh_address', 'base_wallet.BaseWallet.p2wsh_address',
    'base_wallet.BaseWallet.p2sh_p2wsh_address', 'base_wallet.BaseWallet.node_extended_public_key',
    'base_wallet.BaseWallet.node_extended_private_key', 'base_wallet.BaseWallet.node_extended_keys',
    'bip32.PubKeyNode.serialize_public', 'bip32.PrvKeyNode.serialize_private', 'bip32.PubKeyNode.extended_public_key',
    'bip32.PrvKeyNode.extended_private_key', 'bip85.BIP85DeterministicEntropy.bip39_mnemonic', 'bip85.BIP85DeterministicEntropy.wif',
    'bip85.BIP85DeterministicEntropy.xprv', 'bip85.BIP85DeterministicEntropy.hex', 'bip85.BIP85DeterministicEntropy.pwd',
    'paper_wallet.PaperWallet.generate', 'paper_wallet.PaperWallet.json', 'paper_wallet.PaperWallet.wasabi_json',
    # building a wallet on a node is a request too: it must not alter the node it is given ("no request alters the root key")
    'base_wallet.BaseWallet.__init__', 'base_wallet.BaseWallet.from_extended_key', 'base_wallet.BaseWallet.from_mnemonic',
    'base_wallet.BaseWallet.from_bip39_seed_bytes', 'base_wallet.BaseWallet.from_bip39_seed_hex',
    'base_wallet.BaseWallet.from_entropy_hex', 'base_wallet.BaseWallet.from_entropy_bits', 'base_wallet.BaseWallet.new_wallet',
    'bip85.BIP85DeterministicEntropy.__init__', 'bip85.BIP85DeterministicEntropy.from_xprv',
    'bip32.PubKeyNode.parse', 'bip32.PrvKeyNode.master_key',
]
# bookkeeping fields and the only functions allowed to read them
PARENT_READERS = {'__repr__', 'is_master', 'is_root', 'parent_fingerprint', '__init__'}
# writes outside the API closure that are known and harmless for this property (one reason each)
OUTSIDE = {
    'helper.merkle_parent_level': 'mutates its argument list (duplicates the last hash); merkle helpers are not part of the wallet API closure',
}


PLANTED = """
import functools
CACHE = {}
@functools.lru_cache()
def f(x, acc=[]):
    global CACHE
    CACHE[x] = 1
    acc.append(x)
"""


def _local_fresh_names(fn, modtree=None):
    """Names bound in fn to a freshly constructed object or a fresh container (so stores on them are local)."""
    fresh = set()
    for n in ast.walk(fn):
        if isinstance(n, ast.Assign) and len(n.targets) == 1 and isinstance(n.targets[0], ast.Name):
            v = n.value
            if isinstance(v, (ast.List, ast.Dict, ast.Set, ast.ListComp, ast.DictComp, ast.SetComp, ast.Constant, ast.BinOp)):
                fresh.add(n.targets[0].id)
            elif isinstance(v, ast.Call):
                f = v.func
                name = f.id if isinstance(f, ast.Name) else (f.attr if isinstance(f, ast.Attribute) else '')
                # constructor-like calls: cls(...), ClassName(...), alternative constructors on cls
                if name in ('cls', 'list', 'dict', 'set', 'bytearray') or name[:1].isupper() or \
                        (isinstance(f, ast.Attribute) and isinstance(f.value, ast.Name) and f.value.id == 'cls'):
                    fresh.add(n.targets[0].id)
                elif _class_valued(f, modtree):
                    fresh.add(n.targets[0].id)
    return fresh


def _class_valued(f, modtree):
    """Is the callee expression a class chosen at run time - TABLE[key] / TABLE.get(key) over a module-level dict whose
    values are all class names, `A if c else B` of class names, type(self) / self.__class__ ?"""
    def is_class_name(x):
        return isinstance(x, ast.Name) and x.id[:1].isupper() and not x.id.isupper()
    if isinstance(f, ast.IfExp):
        return all(is_class_name(x) or _class_valued(x, modtree) for x in (f.body, f.orelse))
    if isinstance(f, ast.Call) and isinstance(f.func, ast.Name) and f.func.id == 'type' and len(f.args) == 1:
        return True
    if isinstance(f, ast.Attribute) and f.attr == '__class__':
        return True
    tbl = None
    if isinstance(f, ast.Subscript) and isinstance(f.value, ast.Name):
        tbl = f.value.id
    if isinstance(f, ast.Call) and isinstance(f.func, ast.Attribute) and f.func.attr == 'get' and isinstance(f.func.value, ast.Name):
        tbl = f.func.value.id
    if tbl is None or modtree is None:
        return False
    for st in modtree.body:
        if isinstance(st, (ast.Assign, ast.AnnAssign)):
            tg = st.targets if isinstance(st, ast.Assign) else [st.target]
            if any(isinstance(t_, ast.Name) and t_.id == tbl for t_ in tg) and isinstance(st.value, ast.Dict) and st.value.values:
                return all(is_class_name(v_) for v_ in st.value.values)
    return False


def _stores(fi):
    """Yield (kind, base expression text, attribute, node) for every store to non-local state in fi."""
    fresh = _local_fresh_names(fi.node, fi.module.tree)
    selfname = fi.params[0] if fi.params and fi.kind in ('method', 'property') else None
    for n in ast.walk(fi.node):
        targets = []
        if isinstance(n, ast.Assign):
            targets = n.targets
        elif isinstance(n, (ast.AugAssign, ast.AnnAssign)):
            targets = [n.target]
        elif isinstance(n, ast.Delete):
            targets = n.targets
        for t in targets:
            for x in ast.walk(t):
                if isinstance(x, (ast.Attribute, ast.Subscript)) and isinstance(x.ctx, (ast.Store, ast.Del)):
                    base = x.value
                    root = base
                    while isinstance(root, (ast.Attribute, ast.Subscript)):
                        root = root.value
                    rootname = root.id if isinstance(root, ast.Name) else None
                    yield ('store', rootname, ast.unparse(x), x, rootname in fresh and isinstance(base, ast.Name), selfname)
        if isinstance(n, ast.Call) and isinstance(n.func, ast.Attribute) and n.func.attr in MUTATORS:
            base = n.func.value
            if isinstance(base, ast.Name) and base.id == selfname and fi.cls is not None and fi.cls.find_method(n.func.attr) is not None:
                continue        # self.update(...) where `update` is a method of the class: a call, judged by that method's own stores
            root = base
            while isinstance(root, (ast.Attribute, ast.Subscript)):
                root = root.value
            rootname = root.id if isinstance(root, ast.Name) else None
            local = isinstance(base, ast.Name) and rootname in fresh
            yield ('mutate', rootname, ast.unparse(n.func), n, local, selfname)


def _call_local_param(p, fi, param, _depth=0):
    """Is parameter `param` of the private helper fi a container that lives only as long as one API call: every call site
    in the package hands over a fresh container literal ({} / [] / dict() / list()), a local of the caller that is bound to
    such a literal and used for nothing but being handed to this helper, or the caller's own parameter with the same
    property?  (A batch helper that shares parent material between the siblings derived by one call.)"""
    if _depth > 3 or not fi.name.startswith('_') or fi.name.startswith('__') or param not in fi.params:
        return False
    idx = fi.params.index(param)
    method = fi.kind in ('method', 'property')
    sites = []
    for f2 in p.functions.values():
        for n in ast.walk(f2.node):
            if not isinstance(n, ast.Call):
                continue
            f = n.func
            nm = f.attr if isinstance(f, ast.Attribute) else (f.id if isinstance(f, ast.Name) else None)
            if nm != fi.name:
                continue
            if any(isinstance(a, ast.Starred) for a in n.args) or any(kw.arg is None for kw in n.keywords):
                return False
            pos = idx - 1 if (method and isinstance(f, ast.Attribute)) else idx
            arg = n.args[pos] if 0 <= pos < len(n.args) else next((kw.value for kw in n.keywords if kw.arg == param), None)
            sites.append((f2, arg))
    if not sites:
        return False

    def fresh_literal(a):
        return isinstance(a, (ast.Dict, ast.List, ast.Set)) and not getattr(a, 'keys', None) and not getattr(a, 'elts', None) \
            or (isinstance(a, ast.Call) and isinstance(a.func, ast.Name) and a.func.id in ('dict', 'list', 'set') and not a.args and not a.keywords)
    for f2, arg in sites:
        if arg is None:
            return False            # a default would be one object shared by all calls
        if fresh_literal(arg):
            continue
        if isinstance(arg, ast.Name):
            nm = arg.id
            if nm in f2.params:
                if not _call_local_param(p, f2, nm, _depth + 1):
                    return False
                continue
            binds = [n for n in ast.walk(f2.node) if isinstance(n, ast.Assign) and any(isinstance(t, ast.Name) and t.id == nm for t in n.targets)]
            if len(binds) != 1 or not fresh_literal(binds[0].value) or len(binds[0].targets) != 1:
                return False
            # every other occurrence of the name is an argument of a call to this helper
            ok_uses = set()
            for n in ast.walk(f2.node):
                if isinstance(n, ast.Call):
                    f = n.func
                    cn = f.attr if isinstance(f, ast.Attribute) else (f.id if isinstance(f, ast.Name) else None)
                    if cn == fi.name:
                        for a in list(n.args) + [kw.value for kw in n.keywords]:
                            if isinstance(a, ast.Name) and a.id == nm:
                                ok_uses.add(id(a))
            for n in ast.walk(f2.node):
                if isinstance(n, ast.Name) and n.id == nm and isinstance(n.ctx, ast.Load) and id(n) not in ok_uses:
                    return False
            # the binding must not sit at module / class level or be declared global / nonlocal
            if any(isinstance(n, (ast.Global, ast.Nonlocal)) and nm in n.names for n in ast.walk(f2.node)):
                return False
            continue
        return False
    return True


def _ephemeral_class(p, ci, _memo={}):
    """Are the instances of class ci accumulators that live inside one call: every construction site `K(...)` in the package
    either uses the new object at once as a receiver (`K(data).digest()`), or binds it to a local that is used for nothing
    but as a receiver of its own methods / attribute access, or is inside K's own methods (copy()); and K is not a base of
    another class.  State kept on such an object cannot outlive the API call that made it."""
    key = (id(p), ci.qual)
    if key in _memo:
        return _memo[key]
    ok = True
    sites = 0
    if any(ci in c.mro()[1:] for c in p.classes.values()):
        ok = False
    for f2 in p.functions.values():
        if not ok:
            break
        parents = {}
        for n in ast.walk(f2.node):
            for ch in ast.iter_child_nodes(n):
                parents[ch] = n
        for n in ast.walk(f2.node):
            if not (isinstance(n, ast.Call) and isinstance(n.func, ast.Name) and n.func.id == ci.name):
                continue
            sites += 1
            par = parents.get(n)
            if isinstance(par, ast.Attribute) and par.value is n:
                continue                                    # K(...).something
            if f2.cls is ci:
                continue                                    # inside the class itself (copy)
            if isinstance(par, ast.Assign) and len(par.targets) == 1 and isinstance(par.targets[0], ast.Name) and par.value is n:
                nm = par.targets[0].id
                for u in ast.walk(f2.node):
                    if isinstance(u, ast.Name) and u.id == nm and isinstance(u.ctx, ast.Load):
                        pu = parents.get(u)
                        if not (isinstance(pu, ast.Attribute) and pu.value is u):
                            ok = False
                continue
            ok = False
    # module-level constructions (a shared instance) are not ephemeral
    for mi in p.modules.values():
        for st in mi.tree.body:
            if isinstance(st, (ast.FunctionDef, ast.ClassDef)):
                continue
            if any(isinstance(n, ast.Call) and isinstance(n.func, ast.Name) and n.func.id == ci.name for n in ast.walk(st)):
                ok = False
    _memo[key] = ok and sites > 0
    return _memo[key]


def _bookkeeping_closed(p, fi):
    """Do the reads of `children` in fi (and, for a method, in the other methods of its class) flow only back into the
    bookkeeping list itself?  A small taint analysis over the class: values derived from `.children` (its length, a slice,
    its elements) may be kept in locals / attributes of self and may be used to index, slice, delete from or remove from a
    `.children` list - nothing else (not returned, not passed on, not deciding anything but such statements).  Roll-back of
    the children registered by a failed derivation has this shape; a result that depends on earlier derivations has not."""
    fns = [f for f in p.functions.values() if f.cls is fi.cls] if fi.cls is not None else [fi]
    MUT = {'append', 'extend', 'insert', 'pop', 'remove', 'clear', 'sort', 'reverse'}
    t_attrs = set()
    t_locals = {f.qual: set() for f in fns}

    def is_children(e):
        return isinstance(e, ast.Attribute) and e.attr == 'children'

    def tainted(e, f):
        for n in ast.walk(e):
            if is_children(n) and isinstance(n.ctx, ast.Load):
                return True
            if isinstance(n, ast.Name) and isinstance(n.ctx, ast.Load) and n.id in t_locals[f.qual]:
                return True
            if isinstance(n, ast.Attribute) and isinstance(n.ctx, ast.Load) and isinstance(n.value, ast.Name) \
                    and f.params and n.value.id == f.params[0] and n.attr in t_attrs:
                return True
        return False
    for _ in range(6):
        before = (len(t_attrs), sum(len(v) for v in t_locals.values()))
        for f in fns:
            for n in ast.walk(f.node):
                if isinstance(n, (ast.Assign, ast.AnnAssign, ast.AugAssign)) and n.value is not None and tainted(n.value, f):
                    for t in (n.targets if isinstance(n, ast.Assign) else [n.target]):
                        if isinstance(t, ast.Name):
                            t_locals[f.qual].add(t.id)
                        elif isinstance(t, ast.Attribute) and isinstance(t.value, ast.Name) and f.params and t.value.id == f.params[0]:
                            t_attrs.add(t.attr)
                if isinstance(n, (ast.For, ast.comprehension)) and tainted(n.iter, f):
                    for x in ast.walk(n.target):
                        if isinstance(x, ast.Name):
                            t_locals[f.qual].add(x.id)
        if before == (len(t_attrs), sum(len(v) for v in t_locals.values())):
            break

    def allowed(st, f):
        if isinstance(st, (ast.Assign, ast.AnnAssign)):
            tg = st.targets if isinstance(st, ast.Assign) else [st.target]
            return all(isinstance(t, ast.Name) or (isinstance(t, ast.Attribute) and isinstance(t.value, ast.Name) and f.params
                                                   and t.value.id == f.params[0]) for t in tg) \
                and not any(isinstance(x, ast.Call) and not (isinstance(x.func, ast.Name) and x.func.id in ('len', 'list', 'tuple'))
                            for x in ast.walk(st.value or ast.Pass()))
        if isinstance(st, ast.Expr) and isinstance(st.value, ast.Call) and isinstance(st.value.func, ast.Attribute) \
                and st.value.func.attr in MUT and is_children(st.value.func.value):
            return True
        if isinstance(st, ast.Delete):
            return all(isinstance(t, ast.Subscript) and is_children(t.value) for t in st.targets)
        if isinstance(st, ast.For):
            return not st.orelse and all(allowed(x, f) or not tainted(x, f) and not _has_exit(x) for x in st.body)
        if isinstance(st, ast.If):
            return all(allowed(x, f) for x in st.body + st.orelse)
        return False

    def _has_exit(st):
        return any(isinstance(x, (ast.Return, ast.Raise, ast.Break, ast.Continue, ast.Yield)) for x in ast.walk(st))

    def check_block(stmts, f):
        for st in stmts:
            if isinstance(st, (ast.FunctionDef, ast.ClassDef)):
                continue
            if tainted(st, f):
                if allowed(st, f):
                    continue
                # a compound statement whose header is clean may hold tainted statements deeper down
                if isinstance(st, (ast.If, ast.While, ast.Try, ast.With, ast.For)):
                    hdr = [st.test] if isinstance(st, (ast.If, ast.While)) else ([st.iter] if isinstance(st, ast.For) else
                                                                                 [i.context_expr for i in st.items] if isinstance(st, ast.With) else [])
                    if any(tainted(h, f) for h in hdr):
                        return False
                    for fld in ('body', 'orelse', 'finalbody'):
                        if not check_block(getattr(st, fld, []) or [], f):
                            return False
                    for h in getattr(st, 'handlers', []) or []:
                        if not check_block(h.body, f):
                            return False
                    continue
                return False
        return True
    return all(check_block(f.node.body, f) for f in fns)


def _is_none_test(test, selfname, attr):
    return isinstance(test, ast.Compare) and len(test.ops) == 1 and isinstance(test.ops[0], ast.Is) \
        and isinstance(test.comparators[0], ast.Constant) and test.comparators[0].value is None \
        and isinstance(test.left, ast.Attribute) and test.left.attr == attr \
        and isinstance(test.left.value, ast.Name) and test.left.value.id == selfname


def _attr_stores(p, cls, attr):
    """(function, assignment node) of every store to <name>.attr in methods of cls."""
    out = []
    for fi in p.functions.values():
        if fi.cls is not cls:
            continue
        for n in ast.walk(fi.node):
            if isinstance(n, (ast.Assign, ast.AugAssign, ast.AnnAssign)):
                tg = n.targets if isinstance(n, ast.Assign) else [n.target]
                for t in tg:
                    for x in ast.walk(t):
                        if isinstance(x, ast.Attribute) and x.attr == attr and isinstance(x.ctx, ast.Store):
                            out.append((fi, n))
    return out


def _all_attr_stores(p, attr):
    out = []
    for fi in p.functions.values():
        sn = fi.params[0] if fi.params and fi.kind in ('method', 'property') else None
        for n in ast.walk(fi.node):
            if isinstance(n, (ast.Assign, ast.AugAssign, ast.AnnAssign)):
                tg = n.targets if isinstance(n, ast.Assign) else [n.target]
                for t in tg:
                    for x in ast.walk(t):
                        if isinstance(x, ast.Attribute) and x.attr == attr and isinstance(x.ctx, ast.Store):
                            out.append((fi, n, x, sn))
    return out


def lazy_init(p, fi, store_node, selfname):
    """Write-once lazy initialisation: `if self.X is None: self.X = E`.  EVERY store to an attribute named X in the
    package is either `self.X = None` in an __init__ or sits under such a test on the same receiver; E does not read X,
    and every field of self that E reads is written only in __init__ (or is itself lazily initialised).  Such a field
    holds None or f(immutable fields): reads are history-independent, and two threads can only store the same value."""
    if selfname is None or fi.cls is None or not isinstance(store_node, ast.Attribute):
        return False
    attr = store_node.attr
    return _lazy_attr(p, attr, 0)


def _lazy_attr(p, attr, depth):
    if depth > 3:
        return False
    stores = _all_attr_stores(p, attr)
    if not stores:
        return False
    for f2, asg, x, sn in stores:
        if sn is None or not (isinstance(x.value, ast.Name) and x.value.id == sn):
            return False
        if f2.name == '__init__':
            if not (isinstance(asg, ast.Assign) and isinstance(asg.value, ast.Constant) and asg.value.value is None):
                return False
            continue
        if isinstance(asg, ast.AugAssign) or asg.value is None:
            return False
        parents = {}
        for n in ast.walk(f2.node):
            for ch in ast.iter_child_nodes(n):
                parents[ch] = n
        prev, cur, ok = asg, parents.get(asg), False
        while cur is not None:
            if isinstance(cur, ast.If) and _is_none_test(cur.test, sn, attr) and any(prev is b for b in cur.body):
                ok = True
                break
            prev, cur = cur, parents.get(cur)
        if not ok:
            return False
        for y in ast.walk(asg.value):
            if isinstance(y, ast.Attribute) and isinstance(y.value, ast.Name) and y.value.id == sn:
                if y.attr == attr:
                    return False
                others = [(f3, a3) for f3, a3, _, _ in _all_attr_stores(p, y.attr) if f3.name != '__init__']
                if others and not _lazy_attr(p, y.attr, depth + 1):
                    return False
    return True


def _private_cache(p, fi, store_node, selfname, history):
    """A store `self.X = ...` outside __init__ is a harmless cache when X is touched only by methods of the class
    hierarchy on their own receiver, the function publishes it with one attribute store per path (no torn state), and
    the semantic history check of that class holds on both back ends."""
    if selfname is None or fi.cls is None or not isinstance(store_node, ast.Attribute):
        return False
    if not (isinstance(store_node.value, ast.Name) and store_node.value.id == selfname):
        return False
    attr = store_node.attr
    family = set(fi.cls.mro()) | set(fi.cls.all_subclasses())
    roots = {c for c in family}
    for f2 in p.functions.values():
        sn = f2.params[0] if f2.params and f2.kind in ('method', 'property') else None
        for n in ast.walk(f2.node):
            hit = None
            if isinstance(n, ast.Attribute) and n.attr == attr:
                hit = n.value
            elif isinstance(n, ast.Call) and isinstance(n.func, ast.Name) and n.func.id in ('getattr', 'setattr', 'hasattr') \
                    and len(n.args) >= 2 and isinstance(n.args[1], ast.Constant) and n.args[1].value == attr:
                hit = n.args[0]
            if hit is None:
                continue
            if f2.cls not in family or not (isinstance(hit, ast.Name) and hit.id == sn):
                return False
    # one store to a self attribute per function (arms of a try / if may each have one)
    stores = [n for n in ast.walk(fi.node) if isinstance(n, ast.Attribute) and isinstance(n.ctx, ast.Store)
              and isinstance(n.value, ast.Name) and n.value.id == selfname]
    if {n.attr for n in stores} != {attr}:
        return False
    quals = {c.qual for c in family}
    relevant = [v for (cq, be), v in history.items() if cq in quals]
    return bool(relevant) and all(relevant)


def _observe(ev, v, facts=None):
    """API-level observation of a result (objects are observed through their API, everything else is itself)."""
    if T.tag(v) == 'phi':
        return T.phi(v[1], _observe(ev, v[2], facts), _observe(ev, v[3], facts))
    if T.tag(v) in ('list', 'tuple'):
        return (v[0], tuple(_observe(ev, x, facts) for x in v[1]))
    if T.tag(v) != 'obj':
        return v
    cls = v[1]
    if cls in (PRV, PUB):
        out = [T.const(cls)]
        if cls == PRV:
            pk, _ = ev.call_function('bip32.PrvKeyNode.private_key', [v], facts=facts)
            b, _ = ev.call_function('keys.PrivateKey.__bytes__', [pk], facts=facts)
            out.append(b)
        out.append(pub_sec(ev, attr_of(ev, v, 'public_key', facts), True, facts))
        for nm in ('chain_code', 'depth', 'index', 'testnet'):
            out.append(attr_of(ev, v, nm, facts))
        for q in ('bip32.PubKeyNode.fingerprint', 'bip32.PubKeyNode.parent_fingerprint'):
            out.append(ev.call_function(q, [v], facts=facts)[0])
        return T.tup(out)
    if cls == PRIVKEY:
        b, _ = ev.call_function('keys.PrivateKey.__bytes__', [v], facts=facts)
        return T.tup([T.const(cls), b, pub_sec(ev, attr_of(ev, v, 'K', facts), True, facts)])
    if cls == PUBKEY:
        return T.tup([T.const(cls), pub_sec(ev, v, True, facts), pub_sec(ev, v, False, facts)])
    return v


def _two_nodes():
    """two public nodes that print the same path (same depth, child number, no parent) but hold different keys"""
    n1 = pub_node()[0]
    f1 = T.obj_fields(n1)
    n2 = node_term(PUB, T.sec(S('P_other', type='point'), T.TRUE), chain=f1['chain_code'], depth=f1['depth'], index=f1['index'],
                   testnet=f1['testnet'])
    return [n1, n2]


ARG_RECIPES = {
    'node': _two_nodes,
    'index': lambda: [S('hix', type='int')],
    'version': lambda: [None, S('ver', type='int')],
    'compressed': lambda: [T.TRUE, T.FALSE],
    'testnet': lambda: [T.TRUE, T.FALSE],
    'addr_type': lambda: [T.const('p2pkh'), T.const('p2wpkh')],
}


def _api_calls(p, clsqual):
    """[(label, qualified function, kwargs)] for the public methods / properties of the class whose parameters the
    recipes can fill; the rest is listed as skipped."""
    ci = p.get_class(clsqual)
    calls, skipped, seen = [], [], set()
    for c in ci.mro():
        for name, fi in c.methods.items():
            if name in seen:
                continue
            seen.add(name)
            if name.startswith('_') and name not in ('__bytes__',):
                continue
            if fi.kind in ('classmethod', 'staticmethod'):
                continue
            if any(isinstance(n_, (ast.Yield, ast.YieldFrom)) for n_ in ast.walk(fi.node)):
                skipped.append(name + ' (generator)')
                continue
            params = fi.params[1:]
            if not all(q in ARG_RECIPES or q in fi.defaults for q in params):
                skipped.append(name)
                continue
            combos = [{}]
            for q in params:
                if q in ARG_RECIPES:
                    vals = ARG_RECIPES[q]()
                    combos = [dict(c0, **({q: v} if v is not None else {})) for c0 in combos for v in vals]
            for kw in combos[:8]:
                lab = '%s(%s)' % (name, ', '.join('%s=%s' % (k, T.show(v)) for k, v in sorted(kw.items())))
                calls.append((lab, fi.qual[len(PKG) + 1:], kw, fi.kind))
    return calls, skipped


_HIST_CACHE = {}


def history_verdict(p, clsqual):
    """(verdict, detail) of the semantic history check for one class family, for callers outside C13 (the purity
    precondition): True = holds on both back ends, False = violated, None = not covered / undecided."""
    key = id(p)
    if key not in _HIST_CACHE:
        from ..report import Context
        sub = Context('C13', 'quick', p, 0)
        res = check_history(sub, 'C13.HISTORY')
        details = {}
        for ob in sub.obligations:
            if ob.verdict == 'VIOLATED' and ob.details:
                details.setdefault(ob.construct, ob.details[0])
            elif ob.verdict == 'UNDECIDED':
                details.setdefault(ob.construct, 'undecided: ' + '; '.join(ob.details)[:200])
        _HIST_CACHE.clear()
        _HIST_CACHE[key] = (res, details, {o.construct: o.verdict for o in sub.obligations})
    res, details, verdicts = _HIST_CACHE[key]
    ci = p.classes.get(clsqual)
    fam = {c.qual for c in ([ci] + list(ci.mro()) + list(ci.all_subclasses()))} if ci is not None else {clsqual}
    rel = [(cq, be, v) for (cq, be), v in res.items() if cq in fam]
    if not rel:
        return None, 'no semantic history check covers %s' % clsqual
    names = {cq.split('.')[-1] for cq, _, _ in rel}
    if any(verdicts.get(n) == 'UNDECIDED' for n in names):
        return None, next((d for n, d in details.items() if n in names), 'undecided')
    if all(v for _, _, v in rel):
        return True, ''
    return False, next((d for n, d in details.items() if n in names), 'history check failed')


def check_history(ctx, rule):
    """Semantic history-freedom: for a symbolic object of each key / node class, every API call evaluated on the object
    as any *state-changing* API call left it must give the same observation as on the fresh object."""
    p = ctx.p
    verdict = {}
    H_ = 2 ** 31
    for be in BACKENDS:
        BWQ = PKG + '.base_wallet.BaseWallet'
        for clsqual, mk in ((PUB, lambda: pub_node()[0]), (PRV, lambda: prv_node('32')[0]),
                            (PUBKEY, lambda: mk_pub(p, be, S('P', type='point'))), (PRIVKEY, lambda: mk_priv(p, be, K_VALID)),
                            (BWQ, lambda: mk_wallet(p, be, pub_node(tagname='w')[0], S('testnet', type='bool')))):
            ci = p.get_class(clsqual)
            with ctx.obligation(rule, clsqual.split('.')[-1], be, '%s:%d' % (ci.module.relpath, ci.node.lineno)) as ob:
                obj = mk()
                calls, skipped = _api_calls(p, clsqual)
                facts = Facts().add(T.not_(T.lt(S('hix', type='int'), T.const(0)))).add(T.lt(S('hix', type='int'), T.const(H_)))
                ob.note('calls: %s; not exercised (parameters without a recipe): %s' % (', '.join(c[0] for c in calls), ', '.join(skipped) or '-'))

                def run_(ev, o, c):
                    lab, q, kw, kind = c
                    if kind == 'property':
                        ev._param_mut = {}
                        fi = p.get_function(q)
                        v, f = ev.call_function(q, [o], facts=facts)
                        pm = getattr(ev, '_param_mut', None) or {}
                        o2 = pm.get(fi.params[0], o) if getattr(ev, '_param_mut_fi', None) is fi else o
                        return v, o2
                    return call_on(ev, o, q, kw, facts)
                ev = Evaluator(p, be)
                ev.step_budget = 3000000
                fresh = {}
                changed = []
                for c in calls:
                    v, o2 = run_(ev, obj, c)
                    fresh[c[0]] = _observe(ev, v, facts)
                    if o2 != obj:
                        changed.append((c, o2))
                ob.require(len(calls) >= 3, 'the class has API calls to exercise', None, found=len(calls))
                ok = True
                for c1, o1 in changed:
                    for c2 in calls:
                        v2, _ = run_(ev, o1, c2)
                        ok &= bool(same_term(ob, _observe(ev, v2, facts), fresh[c2[0]],
                                             '%s after %s gives what it gives on a fresh object' % (c2[0], c1[0]), None))
                verdict[(clsqual, be)] = ok and ob.verdict != 'VIOLATED'
                ob.note('state-changing calls: %s' % (', '.join(c[0][0] for c in changed) or 'none'))
    return verdict


# native functions that modify their first argument in place and return the same object (pysecp256k1 wrapper source:
# `lib.secp256k1_ec_pubkey_tweak_add(ctx, pubkey, tweak32); return pubkey`); the seckey variants copy
INPLACE_EXTERNALS = {'ec_pubkey_tweak_add': 0, 'ec_pubkey_tweak_mul': 0, 'ec_pubkey_negate': 0}


def _root_and_path(e):
    path = []
    while isinstance(e, (ast.Attribute, ast.Subscript)):
        if isinstance(e, ast.Attribute):
            path.append(e.attr)
        e = e.value
    return (e.id if isinstance(e, ast.Name) else None), list(reversed(path)), e


def _returns_fresh(fi):
    """Every return of fi hands out an object built by that very call (a call expression), and fi stores nothing on
    its receiver: two calls give two objects."""
    rets = [n for n in ast.walk(fi.node) if isinstance(n, ast.Return)]
    if not rets:
        return False
    for r in rets:
        if not isinstance(r.value, ast.Call):
            return False
    for n in ast.walk(fi.node):
        if isinstance(n, ast.Attribute) and isinstance(n.ctx, ast.Store):
            return False
    return True


def check_inplace(ctx, rule):
    """An object handed to a native function that modifies it in place must be fresh (built for that call): if it is
    state kept on a node / key / wallet object, every later request on that object sees the modified value."""
    p = ctx.p
    with ctx.obligation(rule, 'arguments of in-place native calls', None, 'btc_hd_wallet/') as ob:
        mutating = {}      # FunctionInfo -> set of parameter indexes it modifies in place
        sites = 0
        for fi in p.functions.values():
            for n in ast.walk(fi.node):
                if isinstance(n, ast.Call) and isinstance(n.func, ast.Name) and n.func.id in INPLACE_EXTERNALS:
                    sites += 1
        changed = True
        rounds = 0
        verdicts = {}
        while changed and rounds < 6:
            changed = False
            rounds += 1
            for fi in p.functions.values():
                for n in ast.walk(fi.node):
                    if not isinstance(n, ast.Call):
                        continue
                    targets = []      # (argument expression that is modified in place, description)
                    if isinstance(n.func, ast.Name) and n.func.id in INPLACE_EXTERNALS:
                        i = INPLACE_EXTERNALS[n.func.id]
                        if i < len(n.args):
                            targets.append((n.args[i], n.func.id))
                    else:
                        for cs in p.calls_from(fi):
                            if cs.node is not n:
                                continue
                            for tgt in cs.targets:
                                for i in mutating.get(tgt, ()):
                                    off = 1 if (tgt.kind in ('method', 'property') and isinstance(n.func, ast.Attribute)) else 0
                                    if off and i == 0:
                                        targets.append((n.func.value, tgt.qual[len(PKG) + 1:]))
                                    elif i - off < len(n.args) and i - off >= 0:
                                        targets.append((n.args[i - off], tgt.qual[len(PKG) + 1:]))
                    for arg, via in targets:
                        where = '%s:%d' % (fi.module.relpath, n.lineno)
                        root, path, base = _root_and_path(arg)
                        key = (where, ast.unparse(arg))
                        if isinstance(base, ast.Call):
                            verdicts[key] = (True, 'fresh object (call result)')
                            continue
                        if root is not None and root in fi.params:
                            # a field of a parameter, or a property of it
                            fresh_prop = False
                            if path and fi.cls is not None and root == fi.params[0]:
                                m = fi.cls.find_method(path[0])
                                if m is not None and m.kind == 'property':
                                    fresh_prop = _returns_fresh(m)
                                    if not fresh_prop:
                                        verdicts[key] = (False, '%s.%s is a property that hands out stored state; %s modifies it in place'
                                                         % (fi.cls.name, path[0], via))
                                        continue
                            if fresh_prop:
                                verdicts[key] = (True, 'fresh object (property %s builds a new object on every access)' % path[0])
                                continue
                            i = fi.params.index(root)
                            if i not in mutating.setdefault(fi, set()):
                                mutating[fi].add(i)
                                changed = True
                            verdicts[key] = (None, '%s modifies its parameter `%s` in place (through %s)' % (fi.qual[len(PKG) + 1:], root, via))
                            continue
                        if root is not None:
                            # local variable: fresh if every binding is a call result and it is not stored anywhere
                            binds = [a for a in ast.walk(fi.node) if isinstance(a, ast.Assign)
                                     and any(isinstance(t, ast.Name) and t.id == root for t in a.targets)]
                            ok = bool(binds) and all(isinstance(a.value, ast.Call) or
                                                     (isinstance(a.value, ast.Attribute) and _prop_fresh(p, fi, a.value)) for a in binds) and not path
                            verdicts[key] = (ok, 'local `%s` %s' % (root, 'bound to a fresh object' if ok else 'may alias stored state'))
                            continue
                        verdicts[key] = (False, 'cannot establish that %s is a fresh object' % ast.unparse(arg))
        for (where, text), (ok, why) in sorted(verdicts.items()):
            if ok is None:
                ob.evaluations += 1
                ob.note('%s: %s' % (where, why))
            else:
                ob.require(ok, '%s is modified in place by the native library but is not a fresh object: %s' % (text, why), where)
        if sites == 0:
            ob.evaluations += 1
            ob.note('no call of an in-place native function in the package')
        ob.saw('btc_hd_wallet/keys.py')


def _prop_fresh(p, fi, attr):
    if fi.cls is None or not isinstance(attr.value, ast.Name) or attr.value.id != fi.params[0]:
        return False
    m = fi.cls.find_method(attr.attr)
    return m is not None and m.kind == 'property' and _returns_fresh(m)


def _iterated_names(p, fi, var):
    """`var` is the target of a for / comprehension over a constant tuple or list of strings (a literal, a class attribute
    `self.X` / `cls.X`, or a module constant): return those strings."""
    iters = []
    for n in ast.walk(fi.node):
        if isinstance(n, ast.comprehension) and any(isinstance(x, ast.Name) and x.id == var for x in ast.walk(n.target)):
            iters.append(n.iter)
        if isinstance(n, ast.For) and any(isinstance(x, ast.Name) and x.id == var for x in ast.walk(n.target)):
            iters.append(n.iter)
    if len(iters) != 1:
        return None
    it = iters[0]
    node = None
    if isinstance(it, (ast.Tuple, ast.List)):
        node = it
    elif isinstance(it, ast.Attribute) and isinstance(it.value, ast.Name) and fi.cls is not None and fi.params and it.value.id == fi.params[0]:
        a = fi.cls.find_attr(it.attr)
        node = a[1] if a else None
    elif isinstance(it, ast.Name):
        nodes = fi.module.assigns.get(it.id)
        node = nodes[-1] if nodes else None
    if isinstance(node, (ast.Tuple, ast.List)) and all(isinstance(e, ast.Constant) and isinstance(e.value, str) for e in node.elts):
        return tuple(e.value for e in node.elts)
    return None


def _table_value_names(p, fi, expr):
    """`expr` is a look-up in a constant table of strings - TABLE[k], TABLE.get(k), TABLE.get(k, 'const') with TABLE a dict
    literal held by a class attribute (`self.X` / `cls.X` / `Class.X`) or a module constant: return the strings it can yield."""
    extra = []
    tab = None
    if isinstance(expr, ast.Subscript):
        tab = expr.value
    elif isinstance(expr, ast.Call) and isinstance(expr.func, ast.Attribute) and expr.func.attr == 'get' and 1 <= len(expr.args) <= 2 \
            and not expr.keywords:
        tab = expr.func.value
        if len(expr.args) == 2:
            if not (isinstance(expr.args[1], ast.Constant) and isinstance(expr.args[1].value, str)):
                return None
            extra = [expr.args[1].value]
        else:
            return None         # .get(k) can yield None: getattr would raise TypeError, but keep this simple and undecided
    node = None
    if isinstance(tab, ast.Attribute) and isinstance(tab.value, ast.Name):
        ci = None
        if fi.cls is not None and (tab.value.id in fi.params[:1] or tab.value.id == fi.cls.name):
            ci = fi.cls
        else:
            ci = next((c for c in p.classes.values() if c.name == tab.value.id), None)
        a = ci.find_attr(tab.attr) if ci is not None else None
        node = a[1] if a else None
    elif isinstance(tab, ast.Name):
        nodes = fi.module.assigns.get(tab.id)
        node = nodes[-1] if nodes else None
    if isinstance(node, ast.Dict) and node.values and all(isinstance(v, ast.Constant) and isinstance(v.value, str) for v in node.values):
        return tuple(v.value for v in node.values) + tuple(extra)
    return None


def _enum_attr_names(p, fi, expr):
    """`expr` is `<var>.<attr>` where <var> is the target of a for / comprehension over an Enum class of the package and <attr>
    is `name`, `value` or a property the enum defines: the strings it yields over the members (evaluated, not executed)."""
    if not (isinstance(expr, ast.Attribute) and isinstance(expr.value, ast.Name)):
        return None
    var, iters = expr.value.id, []
    for n in ast.walk(fi.node):
        if isinstance(n, (ast.comprehension, ast.For)) and any(isinstance(x, ast.Name) and x.id == var for x in ast.walk(n.target)):
            iters.append(n.iter)
    if len(iters) != 1 or not isinstance(iters[0], ast.Name):
        return None
    ci = next((c for c in p.classes.values() if c.name == iters[0].id and c.is_enum), None)
    if ci is None:
        return None
    from ..evalr import Evaluator as _E, Frame as _F, Facts as _Fa
    ev = _E(p, 'ecdsa')
    out = []
    for _n, m in ev._enum_members(ci, 0):
        try:
            v = ev.getattr(m, expr.attr, _F(fi, {}, _Fa(), fi.module, fi.cls, 0), expr)
        except Exception:
            return None
        if not (T.is_const(v) and isinstance(v[1], str)):
            return None
        out.append(v[1])
    return tuple(out)


def _is_cli_namespace(p, fi, name, _depth=0):
    """Is local `name` of fi the argparse namespace: bound from a *parse_args(...) call, or a parameter that every call
    site fills with such a variable?"""
    if _depth > 3:
        return False
    for n in ast.walk(fi.node):
        if isinstance(n, ast.Assign) and isinstance(n.value, ast.Call):
            f = n.value.func
            callee = f.id if isinstance(f, ast.Name) else (f.attr if isinstance(f, ast.Attribute) else '')
            if callee.endswith('parse_args') or callee == 'parse_known_args':
                for t in n.targets:
                    if any(isinstance(x, ast.Name) and x.id == name for x in ast.walk(t)):
                        return True
    if name in fi.params:
        i = fi.params.index(name)
        sites = []
        for f2 in p.functions.values():
            if f2.module is not fi.module:
                continue
            for n in ast.walk(f2.node):
                if isinstance(n, ast.Call) and isinstance(n.func, ast.Name) and n.func.id == fi.name:
                    arg = n.args[i] if i < len(n.args) else next((kw.value for kw in n.keywords if kw.arg == name), None)
                    sites.append((f2, arg))
        return bool(sites) and all(isinstance(a, ast.Name) and _is_cli_namespace(p, f2, a.id, _depth + 1) for f2, a in sites)
    return False


def check_lifetime(ctx, rule):
    """What a derived node answers must be a function of the root and the path - not of which other objects the caller
    happens to keep alive.  The evaluator models a weak reference as `alive ? referent : None` with `alive` an
    environment condition; no API-level observation of a derived node may contain it."""
    p = ctx.p
    for be in BACKENDS:
        for kind, mk in (('prv', lambda: prv_node()[0]), ('pub', lambda: pub_node()[0])):
            q = 'bip32.PrvKeyNode.ckd' if kind == 'prv' else 'bip32.PubKeyNode.ckd'
            fi = p.get_function(q)
            with ctx.obligation(rule, q.split('.', 1)[1], be, fi.where) as ob:
                ev = Evaluator(p, be)
                parent = mk()
                i = S('i', type='int')
                facts = Facts().add(T.not_(T.lt(i, T.const(0)))).add(T.lt(i, T.const(2 ** 31)))
                v, f = ev.call_function(q, [parent], {'index': i}, facts=facts)
                nl = normal_leaves(v)
                ob.require(len(nl) >= 1, 'ckd produces a child', fi.where)
                for cs, child in nl[:2]:
                    fx = Facts(known_at(f, cs))
                    obs = [('str(node)', 'bip32.PubKeyNode.__repr__', {}), ('parent_fingerprint', 'bip32.PubKeyNode.parent_fingerprint', {}),
                           ('extended_public_key', 'bip32.PubKeyNode.extended_public_key', {}), ('is_root()', 'bip32.PubKeyNode.is_root', {})]
                    for lab, mq, kw in obs:
                        if mq not in p.functions and PKG + '.' + mq not in p.functions:
                            continue
                        r, _ = ev.call_function(mq, [child], kw, facts=fx)
                        ob.evaluations += 1
                        env_syms = sorted({x[1] for x in T.walk(r) if T.tag(x) == 'sym' and str(x[1]).startswith('ENV:referent')})
                        ob.require(not env_syms, '%s of a derived node depends on whether another object is still alive (a weak '
                                   'reference to the parent): the same root and path give different answers once the caller '
                                   'drops the ancestors' % lab, fi.where, found=T.show(r, maxdepth=4))


def run(ctx):
    p = ctx.p
    ctx.explanation = (
        'Effect analysis over the call-graph closure of the wallet API (ckd, derive_path, generate_children, by_path, '
        'address_generator, the address / extended-key / serialisation methods, the BIP85 applications, '
        'PaperWallet.generate/json/wasabi_json): every store to non-local state (attribute/subscript assignment, '
        'augmented assignment, del, mutating method call) is classified as (a) field initialisation in __init__, '
        '(b) store on an object constructed in the same function, (c) the bookkeeping append self.children.append(child), '
        '(d) mutation of a local container; anything else is a violation. The bookkeeping list `children` is never read '
        'anywhere (only appended to), `parent` is read only by the path/fingerprint helpers, no global/nonlocal, no '
        'module- or class-level mutable state is mutated, no cache decorators. derive_path is a left fold of ckd and the '
        'address generator\'s only state is its local index. Since no shared state is read and fields are immutable '
        'after construction, every API result is a function of (fields, arguments): order, repetition and thread '
        'interleaving cannot change it.')
    ctx.not_decided = ['re-entrancy of C libraries (libsecp256k1, OpenSSL)', 'semantic transparency of a hypothetical cache '
                       '(any read of bookkeeping state is reported)']
    roots = [p.get_function(q) for q in API_ROOTS]
    closure_ = p.reachable_from(roots)
    ctx.extra['api_closure_functions'] = len(closure_)
    history = check_history(ctx, 'C13.HISTORY')
    with ctx.obligation('C13.WRITES', 'stores in the API closure', None, 'btc_hd_wallet/') as ob:
        cats = {'a': 0, 'b': 0, 'c': 0, 'd': 0}
        for fi in sorted(p.functions.values(), key=lambda f: f.qual):
            key = fi.qual[len(PKG) + 1:]
            for kind, rootname, text, node, local, selfname in _stores(fi):
                where = '%s:%d' % (fi.module.relpath, node.lineno)
                inside = fi in closure_
                if kind == 'store' and fi.name == '__init__' and rootname == selfname and text.count('.') == 1:
                    cats['a'] += 1
                    ob.evaluations += 1
                    continue
                if local:
                    cats['b' if kind == 'store' else 'd'] += 1
                    ob.evaluations += 1
                    continue
                if kind == 'store' and lazy_init(p, fi, node, selfname):
                    cats['e'] = cats.get('e', 0) + 1
                    ob.evaluations += 1
                    ob.note('write-once lazy initialisation of %s in %s (None or a function of fields that only __init__ writes)' % (text, key))
                    continue
                if kind == 'store' and _private_cache(p, fi, node, selfname, history):
                    cats['f'] = cats.get('f', 0) + 1
                    ob.evaluations += 1
                    ob.note('private cache %s in %s: only read and written by methods of its own class on `self`, published by a '
                            'single attribute store, and C13.HISTORY shows every API result independent of it' % (text, key))
                    continue
                if kind == 'mutate' and text.endswith('.children.append'):
                    # the bookkeeping append; harmless wherever it sits because `children` is never read (C13.NOREAD)
                    cats['c'] += 1
                    ob.evaluations += 1
                    continue
                if rootname is not None and rootname == selfname and fi.cls is not None and _ephemeral_class(p, fi.cls):
                    cats['h'] = cats.get('h', 0) + 1
                    ob.evaluations += 1
                    ob.note('%s %s: state of an accumulator object that is made and used up inside one call (every construction '
                            'site of %s uses the new object only as a receiver)' % (key, text, fi.cls.name))
                    continue
                if rootname is not None and rootname != selfname and rootname in fi.params and _call_local_param(p, fi, rootname):
                    cats['g'] = cats.get('g', 0) + 1
                    ob.evaluations += 1
                    ob.note('%s %s: the container is a parameter of a private helper that every call site fills with a fresh '
                            'container living for one API call' % (key, text))
                    continue
                if not inside and key in OUTSIDE:
                    ob.note('outside the closure: %s %s (%s)' % (key, text, OUTSIDE[key]))
                    ob.evaluations += 1
                    continue
                if not inside:
                    ob.note('outside the API closure, not judged: %s %s' % (key, text))
                    ob.evaluations += 1
                    continue
                ob.require(False, '%s %s shared state (%s): a derivation/address/serialisation request changes state that outlives '
                           'the call' % (key, 'mutates' if kind == 'mutate' else 'writes', text), where,
                           expected='only __init__ field initialisation, stores on freshly built objects, children.append in ckd, local containers')
        ob.note('classified stores: %s' % cats)
        ob.saw('btc_hd_wallet/bip32.py')
        if cats['a'] < 20 or cats['c'] < 1:
            ob.undecided('instance floor not met (init stores %d, bookkeeping appends %d)' % (cats['a'], cats['c']))
    with ctx.obligation('C13.NOREAD', 'bookkeeping fields children / parent', None, 'btc_hd_wallet/bip32.py') as ob:
        n_children = 0
        for fi in p.functions.values():
            parents = {}
            for n in ast.walk(fi.node):
                for ch in ast.iter_child_nodes(n):
                    parents[ch] = n
            for n in ast.walk(fi.node):
                if isinstance(n, ast.Attribute) and n.attr == 'children':
                    n_children += 1
                    par = parents.get(n)
                    where = '%s:%d' % (fi.module.relpath, n.lineno)
                    if isinstance(n.ctx, ast.Store):
                        ob.require(fi.name == '__init__', 'the children list is re-bound outside __init__', where)
                        continue
                    ok = isinstance(par, ast.Attribute) and par.attr == 'append' and isinstance(parents.get(par), ast.Call) \
                        and parents.get(par).func is par
                    if not ok and fi.cls is not None and fi.name in ('__len__', '__iter__', '__contains__', '__getitem__', '__reversed__'):
                        # a container view of the derived children is an observer of the bookkeeping, not a derivation result -
                        # provided it cannot leak into one: truth tests on nodes must not go through __len__ (an explicit
                        # __bool__ that answers True), and what the derivation API returns is compared on fresh and used
                        # objects by C13.HISTORY
                        bm = fi.cls.find_method('__bool__')
                        rets = [x for x in ast.walk(bm.node) if isinstance(x, ast.Return)] if bm is not None else []
                        if rets and all(isinstance(r_.value, ast.Constant) and r_.value.value is True for r_ in rets):
                            ob.evaluations += 1
                            ob.note('%s is a container view of the children list (node truthiness is pinned by __bool__)' % fi.qual[len(PKG) + 1:])
                            continue
                    if not ok and fi.cls is not None and not fi.cls.name.endswith('KeyNode') and _bookkeeping_closed(p, fi):
                        ob.evaluations += 1
                        ob.note('%s reads `children` only to maintain the bookkeeping list itself (what is read flows into '
                                'nothing but slices, deletions and removals on a children list)' % fi.qual[len(PKG) + 1:])
                        continue
                    ob.require(ok, '%s reads the bookkeeping list `children` (%s): results could depend on which children were '
                               'derived before (history), which this property forbids relying on; a semantically transparent cache '
                               'cannot be told apart statically and is reported too' % (fi.qual[len(PKG) + 1:], ast.unparse(par) if par is not None else 'children'), where)
                if isinstance(n, ast.Attribute) and n.attr == 'parent' and isinstance(n.ctx, ast.Load) \
                        and not fi.module.name.endswith('__main__'):
                    where = '%s:%d' % (fi.module.relpath, n.lineno)
                    # `parent` is fixed at construction (any later store is reported by C13.WRITES): reading the link is
                    # history-independent; what must not be read through it is the children list (rule above)
                    ob.evaluations += 1
                # getattr-style dynamic access to the bookkeeping fields
                if isinstance(n, ast.Call) and isinstance(n.func, ast.Name) and n.func.id in ('getattr', 'setattr', 'vars') :
                    if n.func.id == 'getattr' and len(n.args) >= 2 and isinstance(n.args[1], ast.Constant) and isinstance(n.args[1].value, str) \
                            and n.args[1].value not in ('children',):
                        ob.evaluations += 1       # a constant attribute name: an ordinary attribute read
                        continue
                    if n.func.id == 'getattr' and len(n.args) >= 2 and isinstance(n.args[1], ast.Name):
                        names_ = _iterated_names(p, fi, n.args[1].id)
                        if names_ is not None and 'children' not in names_:
                            ob.evaluations += 1
                            ob.note('getattr over the constant names %s in %s' % (list(names_), fi.qual[len(PKG) + 1:]))
                            continue
                    if n.func.id == 'getattr' and n.args and isinstance(n.args[0], ast.Name) and _is_cli_namespace(p, fi, n.args[0].id):
                        ob.evaluations += 1
                        ob.note('getattr on the argparse namespace in %s (not a node / wallet object)' % fi.qual[len(PKG) + 1:])
                        continue
                    if n.func.id in ('getattr', 'setattr') and len(n.args) >= 2:
                        names_ = _enum_attr_names(p, fi, n.args[1])
                        if names_ is not None and 'children' not in names_ and 'parent' not in names_:
                            ob.evaluations += 1
                            ob.note('%s over the names %s computed from the members of an Enum in %s' % (n.func.id, list(names_), fi.qual[len(PKG) + 1:]))
                            continue
                    if n.func.id == 'getattr' and len(n.args) >= 2:
                        names_ = _table_value_names(p, fi, n.args[1])
                        if names_ is not None and 'children' not in names_:
                            ob.evaluations += 1
                            ob.note('getattr over the values %s of a constant table in %s' % (list(names_), fi.qual[len(PKG) + 1:]))
                            continue
                        if names_ is not None:
                            ob.require(False, '%s reads the bookkeeping list `children` through getattr over a table (%s)'
                                       % (fi.qual[len(PKG) + 1:], ast.unparse(n)), '%s:%d' % (fi.module.relpath, n.lineno))
                            continue
                    # which attribute is read or written cannot be told from the source: the effect analysis has no answer here
                    # (first version: reported as a violation - a false alarm on the correct PR V2-R1)
                    ob.undecided('%s:%d: dynamic attribute access (%s) defeats the effect analysis'
                                 % (fi.module.relpath, n.lineno, ast.unparse(n)))
        if n_children < 2:
            ob.undecided('the bookkeeping field `children` was not found (%d occurrences; at least its initialisation and one append are expected)' % n_children)
    with ctx.obligation('C13.NOGLOBAL', 'global / cached state', None, 'btc_hd_wallet/') as ob:
        # positive control: the rule must recognise the constructs it forbids
        sample = ast.parse(PLANTED)
        hits = _global_state_hits(sample, {'CACHE'})
        if len(hits) < 4:
            ob.undecided('positive control failed: the global-state rule recognises %d of 4 planted constructs' % len(hits))
        for mi in p.modules.values():
            containers = {nm for nm, nodes in mi.assigns.items()
                          if isinstance(nodes[-1], (ast.List, ast.Dict, ast.Set, ast.ListComp, ast.DictComp, ast.Call))}
            for ci in mi.classes.values():
                containers |= {nm for nm, node in ci.attrs.items() if isinstance(node, (ast.List, ast.Dict, ast.Set))}
            for what, node in _global_state_hits(mi.tree, containers):
                if what.startswith('cache decorator on '):
                    # a memo on a pure function of hashable arguments with immutable results cannot be told from
                    # recomputation (purity.py decides that); anything else shares state between calls
                    from .purity import _transparent_memo
                    fname = what[len('cache decorator on '):]
                    owner = [f for f in p.functions.values() if f.module is mi and f.name == fname and node in f.node.decorator_list]
                    tr = _transparent_memo(p, owner[0], node) if owner else False
                    if tr is True:
                        ob.evaluations += 1
                        ob.note('%s: transparent memo (immutable results of a function of its arguments alone)' % what)
                        continue
                    if tr is None:
                        ob.undecided('%s: %s - whether a stored result can differ from a fresh one is not decided' % (what, ast.unparse(node)[:80]),
                                     '%s:%d' % (mi.relpath, node.lineno))
                        continue
                ob.require(False, '%s: %s' % (what, ast.unparse(node)[:80]), '%s:%d' % (mi.relpath, node.lineno))
            ob.evaluations += 1
            ob.saw(mi.relpath)
    check_inplace(ctx, 'C13.INPLACE')
    C17.check_fold(ctx, 'C13.FOLD')
    check_lifetime(ctx, 'C13.LIFETIME')
    # ---------------------------------------------------------------- the address generator
    fg = p.get_function('base_wallet.BaseWallet.address_generator')
    from ..evalr import _is_generator
    if not _is_generator(fg.node):
        _check_object_generator(ctx, fg)
        return
    with ctx.obligation('C13.GEN', 'BaseWallet.address_generator', None, fg.where) as ob:
        loops_ = [n for n in fg.node.body if isinstance(n, ast.While)]
        if len(loops_) != 1:
            raise AnalysisError('C13.GEN', 'address_generator is expected to contain one while loop')
        loop = loops_[0]
        ob.require(isinstance(loop.test, ast.Constant) and loop.test.value is True, 'the generator never stops by itself', fg.where)
        summ = dict(X.DEFAULT_SUMMARIES)
        for q in ('bip32.PubKeyNode.ckd', 'bip32.PrvKeyNode.ckd'):
            summ[q] = lambda ev_, fi, env, facts: (C17._ckd(env[fi.params[0]], env[fi.params[1]]), facts)
        ev = Evaluator(p, 'ecdsa', summaries=summ)
        w = S('wallet', cls=PKG + '.base_wallet.BaseWallet')
        node = S('node', cls=PRV)
        addr = S('addr_fnc', callable=True)
        pre = fg.node.body[:fg.node.body.index(loop)]
        res, env0, _ = ev.eval_fragment('base_wallet.BaseWallet.address_generator', pre, {fg.params[0]: w, fg.params[1]: node, fg.params[2]: addr})
        idx_names = [nm for nm, v in env0.items() if v == T.const(0)]
        if len(idx_names) != 1:
            raise AnalysisError('C13.GEN', 'cannot identify the generator index variable (%s)' % idx_names)
        ix = S('index', type='int')
        env = dict(env0)
        env[idx_names[0]] = ix
        fr = Frame(fg, env, Facts(), fg.module, fg.cls, 0)
        ev._stack.append('gen')
        res = ev.block(loop.body, fr)
        ev._stack.pop()
        child = C17._ckd(node, ix)
        strchild, _ = ev.call_function('bip32.PubKeyNode.__repr__', [child]) if False else (None, None)
        ob.require(len(fr.yields) == 1, 'one value is yielded per step', fg.where, found=len(fr.yields))
        if fr.yields:
            y = fr.yields[0]
            ok = T.tag(y) == 'tuple' and len(y[1]) == 2 and y[1][1] == T.raw_op('APPLY', addr, child) \
                and T.contains(y[1][0], lambda x: x == child)
            ob.require(ok, 'the step yields (str(child), addr_fnc(child)) for child = node.ckd(index)', fg.where, found=T.show(y, maxdepth=4))
        sent = T.sym('sent', type=None)
        same_term(ob, fr.env.get(idx_names[0]), T.add(ix, T.phi(T.truth(sent), sent, T.const(1))),
                  'the index advances by the value sent to the generator, or by 1', fg.where)
        other = {k_: v_ for k_, v_ in fr.env.items() if k_ in env0 and k_ != idx_names[0] and env0[k_] != v_}
        ob.require(not other, 'no other generator state changes between steps', fg.where, found=sorted(other))
        # default address function
        res, env1, _ = ev.eval_fragment('base_wallet.BaseWallet.address_generator', pre, {fg.params[0]: w, fg.params[1]: node, fg.params[2]: T.NONE})
        ok = any(T.tag(v_) == 'bound' and v_[2].endswith('BaseWallet.p2wpkh_address') for v_ in env1.values())
        ob.require(ok, 'the default address function is p2wpkh_address', fg.where)


def _check_object_generator(ctx, fg):
    """address_generator written as an iterator object of a package class (not a generator function): the iterator protocol
    is evaluated on the object the function returns - next() yields (str(child), addr_fnc(child)) for child = node.ckd(0),
    node.ckd(1), ..., send(n) moves n positions ahead (or 1), and iter() hands back the iterator itself with its position
    (what a generator does; an __iter__ that builds a fresh object restarts the sequence for every for-loop, islice, zip)."""
    p = ctx.p
    with ctx.obligation('C13.GEN', 'BaseWallet.address_generator', None, fg.where) as ob:
        summ = dict(X.DEFAULT_SUMMARIES)
        for q in ('bip32.PubKeyNode.ckd', 'bip32.PrvKeyNode.ckd'):
            summ[q] = lambda ev_, fi, env, facts: (C17._ckd(env[fi.params[0]], env[fi.params[1]]), facts)
        ev = Evaluator(p, 'ecdsa', summaries=summ)
        w = S('wallet', cls=PKG + '.base_wallet.BaseWallet')
        node = S('node', cls=PRV)
        addr = S('addr_fnc', callable=True)
        v, _ = ev.call_function('base_wallet.BaseWallet.address_generator', [w, node, addr])
        objs = distinct_normal_leaves(v)
        if len(objs) != 1 or T.tag(objs[0]) != 'obj' or objs[0][1] not in p.classes:
            ob.undecided('address_generator is neither a generator function nor does it return one object of a package class: %s'
                         % T.show(v, maxdepth=3), fg.where)
            return
        G = objs[0]
        ci = p.classes[G[1]]
        nxt, itr, snd = ci.find_method('__next__'), ci.find_method('__iter__'), ci.find_method('send')
        # collections.abc.Generator / typing.Generator as a base class supply __next__ = send(None) and __iter__ = self;
        # collections.abc.Iterator supplies __iter__ = self
        ext_bases = {b.split('.')[-1] for c_ in ci.mro() for b in c_.base_names}
        abc_gen = 'Generator' in ext_bases and snd is not None
        abc_iter = abc_gen or 'Iterator' in ext_bases
        if (nxt is None and not abc_gen) or (itr is None and not abc_iter):
            ob.require(False, 'the object address_generator returns (%s) is not an iterator: __next__ / __iter__ missing' % ci.name, fg.where)
            return
        key = lambda fi: fi.qual[len(PKG) + 1:]
        if nxt is None:
            ob.note('__next__ comes from collections.abc.Generator: send(None)')

        def do_next(g):
            if nxt is not None:
                return call_on(ev, g, key(nxt))
            return call_on(ev, g, key(snd), {snd.params[1]: T.NONE})

        def step_ok(val, idx, what):
            child = C17._ckd(node, idx)
            def is_child(x):
                if not (T.tag(x) == 'sym' and x[1] == 'CKD'):
                    return False
                of = T.sym_meta(x, 'of')
                return of is not None and of[0] == node and T.hoist(of[1]) == T.hoist(idx)
            for leaf in distinct_normal_leaves(val) or [val]:
                if T.opaques(leaf):
                    ob.undecided('%s: value not computable by the evaluator (%s)' % (what, '; '.join(sorted({o[1] for o in T.opaques(leaf)}))[:200]),
                                 (nxt or snd).where)
                    continue
                ok = T.tag(leaf) == 'tuple' and len(leaf[1]) == 2 and T.is_op(leaf[1][1], 'APPLY') and leaf[1][1][2] == addr \
                    and len(leaf[1][1]) == 4 and is_child(leaf[1][1][3]) and T.contains(leaf[1][0], is_child) \
                    and not T.contains(leaf[1][0], lambda x: T.tag(x) == 'sym' and x[1] == 'CKD' and not is_child(x))
                ob.require(ok, '%s yields (str(child), addr_fnc(child)) for child = node.ckd(%s)' % (what, T.show(idx)), (nxt or snd).where,
                           expected='(str(ckd(%s)), addr_fnc(ckd(%s)))' % (T.show(idx), T.show(idx)), found=T.show(leaf, maxdepth=5))
        v0, G1 = do_next(G)
        step_ok(v0, T.const(0), 'the first next()')
        v1, G2 = do_next(G1)
        step_ok(v1, T.const(1), 'the second next()')
        v2, G3 = do_next(G2)
        step_ok(v2, T.const(2), 'the third next()')
        if snd is not None:
            sent = T.sym('sent', type=None)
            prm = [q for q in snd.params[1:]]
            vs, _ = call_on(ev, G2, key(snd), {prm[0]: sent} if prm else {})
            step_ok(vs, T.add(T.const(1), T.phi(T.truth(sent), sent, T.const(1))), 'send(n) after two steps')
        # iter() of an iterator is the iterator itself, position included
        for lab, g, nextidx in (('a fresh generator', G, 0), ('a generator that has produced two addresses', G2, 2)):
            if itr is None:
                ob.note('__iter__ comes from collections.abc: it returns the iterator itself')
                break
            it, _ = call_on(ev, g, key(itr))
            for leaf in distinct_normal_leaves(it) or [it]:
                if T.tag(leaf) != 'obj':
                    ob.require(False, 'iter() of %s is an iterator object' % lab, itr.where, found=T.show(leaf, maxdepth=3))
                    continue
                vi, _ = do_next(leaf)
                step_ok(vi, T.const(nextidx), 'next(iter(g)) on %s continues where g stands (iter() must not restart or fork the position):' % lab)
        # the default address function
        vd, _ = ev.call_function('base_wallet.BaseWallet.address_generator', [w, node, T.NONE])
        gd = [o_ for o_ in distinct_normal_leaves(vd) if T.tag(o_) == 'obj']
        ok = False
        if len(gd) == 1:
            first, _ = do_next(gd[0])
            want, _ = ev.call_function('base_wallet.BaseWallet.p2wpkh_address', [w, C17._ckd(node, T.const(0))])
            fl = distinct_normal_leaves(first)
            wl = {T.hoist(x) for x in distinct_normal_leaves(want)}
            ok = len(fl) >= 1 and all(T.tag(x) == 'tuple' and len(x[1]) == 2 for x in fl) \
                and {T.hoist(y) for x in fl for y in distinct_normal_leaves(x[1][1])} == wl
        ob.require(ok, 'the default address function is p2wpkh_address (first address of a generator built without one)', fg.where)


def _global_state_hits(tree, containers):
    hits = []
    for n in ast.walk(tree):
        if isinstance(n, ast.Global):         # (`nonlocal` rebinds a local of the enclosing function: call-local state)
            hits.append(('global statement', n))
        if isinstance(n, ast.FunctionDef):
            for d in n.decorator_list:
                txt = ast.unparse(d)
                if 'cache' in txt or 'memo' in txt.lower():
                    hits.append(('cache decorator on %s' % n.name, d))
            mutable_defaults = set()
            args = n.args
            for a, d in zip((args.posonlyargs + args.args)[-len(args.defaults):] if args.defaults else [], args.defaults):
                if isinstance(d, (ast.List, ast.Dict, ast.Set)):
                    mutable_defaults.add(a.arg)
            for x in ast.walk(n):
                if isinstance(x, ast.Call) and isinstance(x.func, ast.Attribute) and x.func.attr in MUTATORS \
                        and isinstance(x.func.value, ast.Name) and x.func.value.id in (mutable_defaults | containers):
                    bound_locally = any(isinstance(y, ast.Assign) and any(isinstance(t, ast.Name) and t.id == x.func.value.id for t in y.targets)
                                        for y in ast.walk(n))
                    if not bound_locally:
                        hits.append(('mutation of module-level / default-argument container %s' % x.func.value.id, x))
                if isinstance(x, (ast.Assign, ast.AugAssign)):
                    for t in (x.targets if isinstance(x, ast.Assign) else [x.target]):
                        if isinstance(t, ast.Subscript) and isinstance(t.value, ast.Name) and t.value.id in containers:
                            bound_locally = any(isinstance(y, ast.Assign) and any(isinstance(tt, ast.Name) and tt.id == t.value.id for tt in y.targets)
                                                for y in ast.walk(n))
                            if not bound_locally:
                                hits.append(('item store into module-level container %s' % t.value.id, x))
                        if isinstance(t, ast.Attribute) and isinstance(t.value, ast.Name) and t.value.id in ('cls',):
                            # a class decorator (a module-level function used only as `@name` on class definitions) runs once,
                            # at import: what it stores on the class is part of the class definition, not request state
                            used_as = [d_ for c_ in ast.walk(tree) if isinstance(c_, ast.ClassDef) for d_ in c_.decorator_list
                                       if isinstance(d_, ast.Name) and d_.id == n.name]
                            other = [y for y in ast.walk(tree) if isinstance(y, ast.Name) and y.id == n.name and isinstance(y.ctx, ast.Load)
                                     and not any(y is d_ for d_ in used_as)]
                            if used_as and not other and n in getattr(tree, 'body', []):
                                continue
                            hits.append(('store to a class attribute', x))
    return hits
