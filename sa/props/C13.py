"""C13 — derivation is a pure function of root and path (effect analysis)."""
from __future__ import annotations

import ast

from .. import terms as T
from ..evalr import Evaluator, Facts, Frame
from .. import externals as X
from .common import *
from . import C17

MUTATORS = {'append', 'extend', 'insert', 'pop', 'remove', 'clear', 'update', 'add', 'sort', 'reverse', 'setdefault',
            'popitem', 'discard', '__setitem__', '__delitem__', 'appendleft'}
API_ROOTS = [
    'bip32.PubKeyNode.ckd', 'bip32.PrvKeyNode.ckd', 'bip32.PubKeyNode.derive_path', 'bip32.PubKeyNode.generate_children',
    'base_wallet.BaseWallet.by_path', 'base_wallet.BaseWallet.address_generator', 'base_wallet.BaseWallet.p2pkh_address',
    'base_wallet.BaseWallet.p2wpkh_address', 'base_wallet.BaseWallet.p2sh_p2wpkh_address', 'base_wallet.BaseWallet.p2wsh_address',
    'base_wallet.BaseWallet.p2sh_p2wsh_address', 'base_wallet.BaseWallet.node_extended_public_key',
    'base_wallet.BaseWallet.node_extended_private_key', 'base_wallet.BaseWallet.node_extended_keys',
    'bip32.PubKeyNode.serialize_public', 'bip32.PrvKeyNode.serialize_private', 'bip32.PubKeyNode.extended_public_key',
    'bip32.PrvKeyNode.extended_private_key', 'bip85.BIP85DeterministicEntropy.bip39_mnemonic', 'bip85.BIP85DeterministicEntropy.wif',
    'bip85.BIP85DeterministicEntropy.xprv', 'bip85.BIP85DeterministicEntropy.hex', 'bip85.BIP85DeterministicEntropy.pwd',
    'paper_wallet.PaperWallet.generate', 'paper_wallet.PaperWallet.json', 'paper_wallet.PaperWallet.wasabi_json',
    # building a wallet on a node is a request too: it must not alter the node it is given ("no request alters the root key")
    'base_wallet.BaseWallet.__init__', 'base_wallet.BaseWallet.from_extended_key', 'base_wallet.BaseWallet.from_mnemonic',
    'base_wallet.BaseWallet.from_bip39_seed_bytes', 'base_wallet.BaseWallet.from_bip39_seed_hex',
    'base_wallet.BaseWallet.from_entropy_hex', 'base_wallet.BaseWallet.from_entropy_bits', 'base_wallet.BaseWallet.new_wallet',
    'bip85.BIP85DeterministicEntropy.__init__', 'bip85.BIP85DeterministicEntropy.from_xprv',
    'bip32.PubKeyNode.parse', 'bip32.PrvKeyNode.master_key',
]
# bookkeeping fields and the only functions allowed to read them
PARENT_READERS = {'__repr__', 'is_master', 'is_root', 'parent_fingerprint', '__init__'}
# writes outside the API closure that are known and harmless for this property (one reason each)
OUTSIDE = {
    'helper.merkle_parent_level': 'mutates its argument list (duplicates the last hash); merkle helpers are not part of the wallet API closure',
}


PLANTED = """
import functools
CACHE = {}
@functools.lru_cache()
def f(x, acc=[]):
    global CACHE
    CACHE[x] = 1
    acc.append(x)
"""


def _local_fresh_names(fn):
    """Names bound in fn to a freshly constructed object or a fresh container (so stores on them are local)."""
    fresh = set()
    for n in ast.walk(fn):
        if isinstance(n, ast.Assign) and len(n.targets) == 1 and isinstance(n.targets[0], ast.Name):
            v = n.value
            if isinstance(v, (ast.List, ast.Dict, ast.Set, ast.ListComp, ast.DictComp, ast.SetComp, ast.Constant, ast.BinOp)):
                fresh.add(n.targets[0].id)
            elif isinstance(v, ast.Call):
                f = v.func
                name = f.id if isinstance(f, ast.Name) else (f.attr if isinstance(f, ast.Attribute) else '')
                # constructor-like calls: cls(...), ClassName(...), alternative constructors on cls
                if name in ('cls', 'list', 'dict', 'set', 'bytearray') or name[:1].isupper() or \
                        (isinstance(f, ast.Attribute) and isinstance(f.value, ast.Name) and f.value.id == 'cls'):
                    fresh.add(n.targets[0].id)
    return fresh


def _stores(fi):
    """Yield (kind, base expression text, attribute, node) for every store to non-local state in fi."""
    fresh = _local_fresh_names(fi.node)
    selfname = fi.params[0] if fi.params and fi.kind in ('method', 'property') else None
    for n in ast.walk(fi.node):
        targets = []
        if isinstance(n, ast.Assign):
            targets = n.targets
        elif isinstance(n, (ast.AugAssign, ast.AnnAssign)):
            targets = [n.target]
        elif isinstance(n, ast.Delete):
            targets = n.targets
        for t in targets:
            for x in ast.walk(t):
                if isinstance(x, (ast.Attribute, ast.Subscript)) and isinstance(x.ctx, (ast.Store, ast.Del)):
                    base = x.value
                    root = base
                    while isinstance(root, (ast.Attribute, ast.Subscript)):
                        root = root.value
                    rootname = root.id if isinstance(root, ast.Name) else None
                    yield ('store', rootname, ast.unparse(x), x, rootname in fresh and isinstance(base, ast.Name), selfname)
        if isinstance(n, ast.Call) and isinstance(n.func, ast.Attribute) and n.func.attr in MUTATORS:
            base = n.func.value
            root = base
            while isinstance(root, (ast.Attribute, ast.Subscript)):
                root = root.value
            rootname = root.id if isinstance(root, ast.Name) else None
            local = isinstance(base, ast.Name) and rootname in fresh
            yield ('mutate', rootname, ast.unparse(n.func), n, local, selfname)


def _is_none_test(test, selfname, attr):
    return isinstance(test, ast.Compare) and len(test.ops) == 1 and isinstance(test.ops[0], ast.Is) \
        and isinstance(test.comparators[0], ast.Constant) and test.comparators[0].value is None \
        and isinstance(test.left, ast.Attribute) and test.left.attr == attr \
        and isinstance(test.left.value, ast.Name) and test.left.value.id == selfname


def _attr_stores(p, cls, attr):
    """(function, assignment node) of every store to <name>.attr in methods of cls."""
    out = []
    for fi in p.functions.values():
        if fi.cls is not cls:
            continue
        for n in ast.walk(fi.node):
            if isinstance(n, (ast.Assign, ast.AugAssign, ast.AnnAssign)):
                tg = n.targets if isinstance(n, ast.Assign) else [n.target]
                for t in tg:
                    for x in ast.walk(t):
                        if isinstance(x, ast.Attribute) and x.attr == attr and isinstance(x.ctx, ast.Store):
                            out.append((fi, n))
    return out


def lazy_init(p, fi, store_node, selfname):
    """Write-once lazy initialisation: `if self.X is None: self.X = E` (every store to X outside __init__ sits under
    such a test in this one function, __init__ stores None, E does not read X, and every field of self that E reads is
    written only in __init__).  Such a field holds None or f(immutable fields): reads are history-independent, and two
    threads can only store the same value."""
    if selfname is None or fi.cls is None or not isinstance(store_node, ast.Attribute):
        return False
    if not (isinstance(store_node.value, ast.Name) and store_node.value.id == selfname):
        return False
    attr = store_node.attr
    parents = {}
    for n in ast.walk(fi.node):
        for ch in ast.iter_child_nodes(n):
            parents[ch] = n

    def guarded(n):
        prev = n
        cur = parents.get(n)
        while cur is not None:
            if isinstance(cur, ast.If) and _is_none_test(cur.test, selfname, attr) and any(prev is b or prev in list(ast.walk(b)) for b in cur.body):
                return True
            prev, cur = cur, parents.get(cur)
        return False
    for f2, asg in _attr_stores(p, fi.cls, attr):
        if f2.name == '__init__':
            if not (isinstance(asg, ast.Assign) and isinstance(asg.value, ast.Constant) and asg.value.value is None):
                return False
            continue
        if f2 is not fi or not guarded(asg):
            return False
        val = asg.value if isinstance(asg, (ast.Assign, ast.AnnAssign)) else None
        if val is None or isinstance(asg, ast.AugAssign):
            return False
        for x in ast.walk(val):
            if isinstance(x, ast.Attribute) and isinstance(x.value, ast.Name) and x.value.id == selfname:
                if x.attr == attr:
                    return False
                if any(f3.name != '__init__' for f3, _ in _attr_stores(p, fi.cls, x.attr)):
                    return False
    # the field must not be stored from other classes / functions through another name
    for f3 in p.functions.values():
        if f3.cls is fi.cls:
            continue
        for n in ast.walk(f3.node):
            if isinstance(n, ast.Attribute) and n.attr == attr and isinstance(n.ctx, ast.Store):
                return False
    return True


def run(ctx):
    p = ctx.p
    ctx.explanation = (
        'Effect analysis over the call-graph closure of the wallet API (ckd, derive_path, generate_children, by_path, '
        'address_generator, the address / extended-key / serialisation methods, the BIP85 applications, '
        'PaperWallet.generate/json/wasabi_json): every store to non-local state (attribute/subscript assignment, '
        'augmented assignment, del, mutating method call) is classified as (a) field initialisation in __init__, '
        '(b) store on an object constructed in the same function, (c) the bookkeeping append self.children.append(child), '
        '(d) mutation of a local container; anything else is a violation. The bookkeeping list `children` is never read '
        'anywhere (only appended to), `parent` is read only by the path/fingerprint helpers, no global/nonlocal, no '
        'module- or class-level mutable state is mutated, no cache decorators. derive_path is a left fold of ckd and the '
        'address generator\'s only state is its local index. Since no shared state is read and fields are immutable '
        'after construction, every API result is a function of (fields, arguments): order, repetition and thread '
        'interleaving cannot change it.')
    ctx.not_decided = ['re-entrancy of C libraries (libsecp256k1, OpenSSL)', 'semantic transparency of a hypothetical cache '
                       '(any read of bookkeeping state is reported)']
    roots = [p.get_function(q) for q in API_ROOTS]
    closure_ = p.reachable_from(roots)
    ctx.extra['api_closure_functions'] = len(closure_)
    with ctx.obligation('C13.WRITES', 'stores in the API closure', None, 'btc_hd_wallet/') as ob:
        cats = {'a': 0, 'b': 0, 'c': 0, 'd': 0}
        for fi in sorted(p.functions.values(), key=lambda f: f.qual):
            key = fi.qual[len(PKG) + 1:]
            for kind, rootname, text, node, local, selfname in _stores(fi):
                where = '%s:%d' % (fi.module.relpath, node.lineno)
                inside = fi in closure_
                if kind == 'store' and fi.name == '__init__' and rootname == selfname and text.count('.') == 1:
                    cats['a'] += 1
                    ob.evaluations += 1
                    continue
                if local:
                    cats['b' if kind == 'store' else 'd'] += 1
                    ob.evaluations += 1
                    continue
                if kind == 'store' and lazy_init(p, fi, node, selfname):
                    cats['e'] = cats.get('e', 0) + 1
                    ob.evaluations += 1
                    ob.note('write-once lazy initialisation of %s in %s (None or a function of fields that only __init__ writes)' % (text, key))
                    continue
                if kind == 'mutate' and text.endswith('.children.append'):
                    # the bookkeeping append; harmless wherever it sits because `children` is never read (C13.NOREAD)
                    cats['c'] += 1
                    ob.evaluations += 1
                    continue
                if not inside and key in OUTSIDE:
                    ob.note('outside the closure: %s %s (%s)' % (key, text, OUTSIDE[key]))
                    ob.evaluations += 1
                    continue
                if not inside:
                    ob.note('outside the API closure, not judged: %s %s' % (key, text))
                    ob.evaluations += 1
                    continue
                ob.require(False, '%s %s shared state (%s): a derivation/address/serialisation request changes state that outlives '
                           'the call' % (key, 'mutates' if kind == 'mutate' else 'writes', text), where,
                           expected='only __init__ field initialisation, stores on freshly built objects, children.append in ckd, local containers')
        ob.note('classified stores: %s' % cats)
        ob.saw('btc_hd_wallet/bip32.py')
        if cats['a'] < 20 or cats['c'] < 1:
            ob.undecided('instance floor not met (init stores %d, bookkeeping appends %d)' % (cats['a'], cats['c']))
    with ctx.obligation('C13.NOREAD', 'bookkeeping fields children / parent', None, 'btc_hd_wallet/bip32.py') as ob:
        n_children = 0
        for fi in p.functions.values():
            parents = {}
            for n in ast.walk(fi.node):
                for ch in ast.iter_child_nodes(n):
                    parents[ch] = n
            for n in ast.walk(fi.node):
                if isinstance(n, ast.Attribute) and n.attr == 'children':
                    n_children += 1
                    par = parents.get(n)
                    where = '%s:%d' % (fi.module.relpath, n.lineno)
                    if isinstance(n.ctx, ast.Store):
                        ob.require(fi.name == '__init__', 'the children list is re-bound outside __init__', where)
                        continue
                    ok = isinstance(par, ast.Attribute) and par.attr == 'append' and isinstance(parents.get(par), ast.Call) \
                        and parents.get(par).func is par
                    ob.require(ok, '%s reads the bookkeeping list `children` (%s): results could depend on which children were '
                               'derived before (history), which this property forbids relying on; a semantically transparent cache '
                               'cannot be told apart statically and is reported too' % (fi.qual[len(PKG) + 1:], ast.unparse(par) if par is not None else 'children'), where)
                if isinstance(n, ast.Attribute) and n.attr == 'parent' and isinstance(n.ctx, ast.Load) \
                        and not fi.module.name.endswith('__main__'):
                    where = '%s:%d' % (fi.module.relpath, n.lineno)
                    ob.require(fi.name in PARENT_READERS or (fi.cls is not None and fi.cls.name == 'Path'),
                               '%s reads node.parent (allowed only in the path-printing and fingerprint helpers)' % fi.qual[len(PKG) + 1:], where)
                # getattr-style dynamic access to the bookkeeping fields
                if isinstance(n, ast.Call) and isinstance(n.func, ast.Name) and n.func.id in ('getattr', 'setattr', 'vars') :
                    ob.require(False, 'dynamic attribute access (%s) defeats the effect analysis' % ast.unparse(n), '%s:%d' % (fi.module.relpath, n.lineno))
        if n_children < 2:
            ob.undecided('the bookkeeping field `children` was not found (%d occurrences; at least its initialisation and one append are expected)' % n_children)
    with ctx.obligation('C13.NOGLOBAL', 'global / cached state', None, 'btc_hd_wallet/') as ob:
        # positive control: the rule must recognise the constructs it forbids
        sample = ast.parse(PLANTED)
        hits = _global_state_hits(sample, {'CACHE'})
        if len(hits) < 4:
            ob.undecided('positive control failed: the global-state rule recognises %d of 4 planted constructs' % len(hits))
        for mi in p.modules.values():
            containers = {nm for nm, nodes in mi.assigns.items()
                          if isinstance(nodes[-1], (ast.List, ast.Dict, ast.Set, ast.ListComp, ast.DictComp, ast.Call))}
            for ci in mi.classes.values():
                containers |= {nm for nm, node in ci.attrs.items() if isinstance(node, (ast.List, ast.Dict, ast.Set))}
            for what, node in _global_state_hits(mi.tree, containers):
                ob.require(False, '%s: %s' % (what, ast.unparse(node)[:80]), '%s:%d' % (mi.relpath, node.lineno))
            ob.evaluations += 1
            ob.saw(mi.relpath)
    C17.check_fold(ctx, 'C13.FOLD')
    # ---------------------------------------------------------------- the address generator
    fg = p.get_function('base_wallet.BaseWallet.address_generator')
    with ctx.obligation('C13.GEN', 'BaseWallet.address_generator', None, fg.where) as ob:
        loops_ = [n for n in fg.node.body if isinstance(n, ast.While)]
        if len(loops_) != 1:
            raise AnalysisError('C13.GEN', 'address_generator is expected to contain one while loop')
        loop = loops_[0]
        ob.require(isinstance(loop.test, ast.Constant) and loop.test.value is True, 'the generator never stops by itself', fg.where)
        summ = dict(X.DEFAULT_SUMMARIES)
        for q in ('bip32.PubKeyNode.ckd', 'bip32.PrvKeyNode.ckd'):
            summ[q] = lambda ev_, fi, env, facts: (C17._ckd(env[fi.params[0]], env[fi.params[1]]), facts)
        ev = Evaluator(p, 'ecdsa', summaries=summ)
        w = S('wallet', cls=PKG + '.base_wallet.BaseWallet')
        node = S('node', cls=PRV)
        addr = S('addr_fnc', callable=True)
        pre = fg.node.body[:fg.node.body.index(loop)]
        res, env0, _ = ev.eval_fragment('base_wallet.BaseWallet.address_generator', pre, {fg.params[0]: w, fg.params[1]: node, fg.params[2]: addr})
        idx_names = [nm for nm, v in env0.items() if v == T.const(0)]
        if len(idx_names) != 1:
            raise AnalysisError('C13.GEN', 'cannot identify the generator index variable (%s)' % idx_names)
        ix = S('index', type='int')
        env = dict(env0)
        env[idx_names[0]] = ix
        fr = Frame(fg, env, Facts(), fg.module, fg.cls, 0)
        ev._stack.append('gen')
        res = ev.block(loop.body, fr)
        ev._stack.pop()
        child = C17._ckd(node, ix)
        strchild, _ = ev.call_function('bip32.PubKeyNode.__repr__', [child]) if False else (None, None)
        ob.require(len(fr.yields) == 1, 'one value is yielded per step', fg.where, found=len(fr.yields))
        if fr.yields:
            y = fr.yields[0]
            ok = T.tag(y) == 'tuple' and len(y[1]) == 2 and y[1][1] == T.raw_op('APPLY', addr, child) \
                and T.contains(y[1][0], lambda x: x == child)
            ob.require(ok, 'the step yields (str(child), addr_fnc(child)) for child = node.ckd(index)', fg.where, found=T.show(y, maxdepth=4))
        sent = T.sym('sent', type=None)
        same_term(ob, fr.env.get(idx_names[0]), T.add(ix, T.phi(T.truth(sent), sent, T.const(1))),
                  'the index advances by the value sent to the generator, or by 1', fg.where)
        other = {k_: v_ for k_, v_ in fr.env.items() if k_ in env0 and k_ != idx_names[0] and env0[k_] != v_}
        ob.require(not other, 'no other generator state changes between steps', fg.where, found=sorted(other))
        # default address function
        res, env1, _ = ev.eval_fragment('base_wallet.BaseWallet.address_generator', pre, {fg.params[0]: w, fg.params[1]: node, fg.params[2]: T.NONE})
        ok = any(T.tag(v_) == 'bound' and v_[2].endswith('BaseWallet.p2wpkh_address') for v_ in env1.values())
        ob.require(ok, 'the default address function is p2wpkh_address', fg.where)


def _global_state_hits(tree, containers):
    hits = []
    for n in ast.walk(tree):
        if isinstance(n, (ast.Global, ast.Nonlocal)):
            hits.append(('global/nonlocal statement', n))
        if isinstance(n, ast.FunctionDef):
            for d in n.decorator_list:
                txt = ast.unparse(d)
                if 'cache' in txt or 'memo' in txt.lower():
                    hits.append(('cache decorator on %s' % n.name, d))
            mutable_defaults = set()
            args = n.args
            for a, d in zip((args.posonlyargs + args.args)[-len(args.defaults):] if args.defaults else [], args.defaults):
                if isinstance(d, (ast.List, ast.Dict, ast.Set)):
                    mutable_defaults.add(a.arg)
            for x in ast.walk(n):
                if isinstance(x, ast.Call) and isinstance(x.func, ast.Attribute) and x.func.attr in MUTATORS \
                        and isinstance(x.func.value, ast.Name) and x.func.value.id in (mutable_defaults | containers):
                    bound_locally = any(isinstance(y, ast.Assign) and any(isinstance(t, ast.Name) and t.id == x.func.value.id for t in y.targets)
                                        for y in ast.walk(n))
                    if not bound_locally:
                        hits.append(('mutation of module-level / default-argument container %s' % x.func.value.id, x))
                if isinstance(x, (ast.Assign, ast.AugAssign)):
                    for t in (x.targets if isinstance(x, ast.Assign) else [x.target]):
                        if isinstance(t, ast.Subscript) and isinstance(t.value, ast.Name) and t.value.id in containers:
                            bound_locally = any(isinstance(y, ast.Assign) and any(isinstance(tt, ast.Name) and tt.id == t.value.id for tt in y.targets)
                                                for y in ast.walk(n))
                            if not bound_locally:
                                hits.append(('item store into module-level container %s' % t.value.id, x))
                        if isinstance(t, ast.Attribute) and isinstance(t.value, ast.Name) and t.value.id in ('cls',):
                            hits.append(('store to a class attribute', x))
    return hits
