"""C05 — addresses are the standard encoding of the right script on the right network; HASH160; RIPEMD-160 structure."""
from __future__ import annotations

import ast

from .. import terms as T
from ..evalr import Evaluator, Facts, Frame
from .. import externals as X
from ..spec import bip32 as SP
from ..spec import ripemd as R
from .common import *

BW = PKG + '.base_wallet.BaseWallet'
SCRIPT = PKG + '.script.Script'
LITTLE = T.const('little')


def wallet_obj(cls, master, testnet):
    """wallet over the node, built by the class's own constructor (whatever fields it has today)"""
    from . import common as _c
    if _c.PROGRAM is not None:
        return mk_wallet(_c.PROGRAM, 'ecdsa', master, testnet, cls=cls)
    return T.obj(cls, dict(master=master, testnet=testnet, mnemonic=T.NONE, password=T.NONE, bip85=T.NONE))


def bech32(hrp, ver, prog):
    return T.raw_op('BECH32', T.const(hrp), T.const(ver), prog)


def expected_addresses(P, tn):
    """Specification terms of the five address kinds for public point P on network tn (bool)."""
    secc = T.sec(P, T.TRUE)
    h = SP.hash160(secc)
    p2pkh_pfx, p2sh_pfx, hrp = (b'\x6f', b'\xc4', 'tb') if tn else (b'\x00', b'\x05', 'bc')
    redeem_wpkh = T.cat(T.const(b'\x00\x14'), h)
    ws = T.cat(T.const(b'\x51\x21'), secc, T.const(b'\x51\xae'))
    wsh = T.raw_op('SHA256', ws)
    redeem_wsh = T.cat(T.const(b'\x00\x20'), wsh)
    return {
        'p2pkh_address': SP.b58check(T.cat(T.const(p2pkh_pfx), h)),
        'p2wpkh_address': bech32(hrp, 0, h),
        'p2sh_p2wpkh_address': SP.b58check(T.cat(T.const(p2sh_pfx), SP.hash160(redeem_wpkh))),
        'p2wsh_address': bech32(hrp, 0, wsh),
        'p2sh_p2wsh_address': SP.b58check(T.cat(T.const(p2sh_pfx), SP.hash160(redeem_wsh))),
    }


def check_addresses(ctx, rule='C05.ADDR'):
    p = ctx.p
    for be in BACKENDS:
        for kind in ('prv32', 'prv33', 'pub'):
            if kind == 'pub':
                node, P = pub_node()
            else:
                node, k = prv_node(kind[3:])
                P = T.pt(k)
            for tn in (False, True):
                cfg = '%s/%s/%s' % (be, kind, 'testnet' if tn else 'mainnet')
                w = wallet_obj(BW, node, T.const(tn))
                exp = expected_addresses(P, tn)
                for meth, e in exp.items():
                    fi = p.get_function('base_wallet.BaseWallet.' + meth)
                    with ctx.obligation(rule, 'BaseWallet.' + meth, cfg, fi.where) as ob:
                        ev = Evaluator(p, be)
                        v, f = ev.call_function('base_wallet.BaseWallet.' + meth, [w, node])
                        same_term(ob, v, e, '%s of a node' % meth, fi.where)


def run(ctx):
    p = ctx.p
    ctx.explanation = (
        'R-TERM: the five BaseWallet address methods and PublicKey.address are abstractly evaluated with the public '
        'point as a free symbol, per back end, node kind and network; the result must be the specification term '
        '(Base58Check(prefix || HASH160(..)) / Bech32(hrp, 0, program) of the standard script, obtained by evaluating '
        'the repository\'s own raw_serialize on the fixed-shape command list). Prefix/hrp cells are decided by partial '
        'evaluation over testnet in {True, False}. hash160/hash256/sha256 must be the named compositions; ripemd160 is '
        'only called from hash160. RIPEMD-160 is decided structurally: tables against their generating permutations, '
        'K constants against integer roots, f-functions by truth tables, each of the 80 rounds and the final '
        'combination as value terms, padding/length/block schedule for every message length 0..191.')
    ctx.not_decided = ['SHA-256 (hashlib) and the Bech32/Base58 digit loops on values (C10, C11)',
                       '32-bit modular arithmetic of the rounds on concrete values (structure and tables are decided, execution is not)']
    # ---------------------------------------------------------------- helper prefixes
    with ctx.obligation('C05.PREFIX', 'helper.h160_to_*_address', None, p.get_function('helper.h160_to_p2pkh_address').where) as ob:
        ev = Evaluator(p, 'ecdsa')
        h = S('h', type='bytes', len=20)
        h32 = S('h32', type='bytes', len=32)
        for tn in (False, True):
            cells = [('helper.h160_to_p2pkh_address', h, SP.b58check(T.cat(T.const(b'\x6f' if tn else b'\x00'), h))),
                     ('helper.h160_to_p2sh_address', h, SP.b58check(T.cat(T.const(b'\xc4' if tn else b'\x05'), h))),
                     ('helper.h160_to_p2wpkh_address', h, bech32('tb' if tn else 'bc', 0, h)),
                     ('helper.h256_to_p2wsh_address', h32, bech32('tb' if tn else 'bc', 0, h32))]
            for q, arg, exp in cells:
                v, f = ev.call_function(q, [arg], {'testnet': T.const(tn)})
                same_term(ob, v, exp, '%s(testnet=%s)' % (q.split('.')[-1], tn), p.get_function(q).where)
        for q, arg in (('helper.h160_to_p2pkh_address', h), ('helper.h160_to_p2sh_address', h),
                       ('helper.h160_to_p2wpkh_address', h), ('helper.h256_to_p2wsh_address', h32)):
            v, f = ev.call_function(q, [arg])
            v2, _ = ev.call_function(q, [arg], {'testnet': T.FALSE})
            same_term(ob, v, v2, '%s defaults to mainnet' % q.split('.')[-1], p.get_function(q).where)
    # the network flag is used for its truth value (today: `x if testnet else y`): any true flag selects testnet, any false
    # one mainnet - also a flag that is not literally True / False (1, "1", ...)
    with ctx.obligation('C05.FLAG', 'network flag as a truth value', None, p.get_function('helper.h160_to_p2pkh_address').where) as ob:
        ev = Evaluator(p, 'ecdsa')
        h = S('h', type='bytes', len=20)
        h32 = S('h32', type='bytes', len=32)
        flag = S('flag')                 # no declared type
        tv = T.truth(flag)
        for q, arg, t_, m_ in (('helper.h160_to_p2pkh_address', h, SP.b58check(T.cat(T.const(b'\x6f'), h)), SP.b58check(T.cat(T.const(b'\x00'), h))),
                               ('helper.h160_to_p2sh_address', h, SP.b58check(T.cat(T.const(b'\xc4'), h)), SP.b58check(T.cat(T.const(b'\x05'), h))),
                               ('helper.h160_to_p2wpkh_address', h, bech32('tb', 0, h), bech32('bc', 0, h)),
                               ('helper.h256_to_p2wsh_address', h32, bech32('tb', 0, h32), bech32('bc', 0, h32))):
            v, f = ev.call_function(q, [arg], {'testnet': flag})
            same_term(ob, v, T.phi(tv, t_, m_), '%s selects the network by the truth value of the flag' % q.split('.')[-1],
                      p.get_function(q).where)
        kk = S('kb', type='bytes', len=32)
        pk = mk_priv(p, 'ecdsa', kk)
        v, f = ev.call_function('keys.PrivateKey.wif', [pk], {'testnet': flag}, facts=Facts(closure([T.raw_op('VALID_SK', kk)])))
        same_term(ob, v, T.phi(tv, SP.b58check(T.cat(T.const(b'\xef'), kk, T.const(b'\x01'))), SP.b58check(T.cat(T.const(b'\x80'), kk, T.const(b'\x01')))),
                  'PrivateKey.wif selects the network by the truth value of the flag', p.get_function('keys.PrivateKey.wif').where)
    check_addresses(ctx)
    # ---------------------------------------------------------------- PublicKey.address / h160
    fa = p.get_function('keys.PublicKey.address')
    for be in BACKENDS:
        with ctx.obligation('C05.PUBADDR', 'PublicKey.address', be, fa.where) as ob:
            ev = Evaluator(p, be)
            P = S('P', type='point')
            pk = mk_pub(p, be, P)
            for comp in (True, False):
                hh = SP.hash160(T.sec(P, T.const(comp)))
                v, _ = ev.call_function('keys.PublicKey.h160', [pk], {'compressed': T.const(comp)})
                same_term(ob, v, hh, 'h160(compressed=%s)' % comp, fa.where)
                for tn in (True, False):
                    v, _ = ev.call_function('keys.PublicKey.address', [pk], {'compressed': T.const(comp), 'testnet': T.const(tn),
                                                                             'addr_type': T.const('p2pkh')})
                    same_term(ob, v, SP.b58check(T.cat(T.const(b'\x6f' if tn else b'\x00'), hh)),
                              'address(p2pkh, compressed=%s, testnet=%s)' % (comp, tn), fa.where)
                    v, _ = ev.call_function('keys.PublicKey.address', [pk], {'compressed': T.const(comp), 'testnet': T.const(tn),
                                                                             'addr_type': T.const('p2wpkh')})
                    same_term(ob, v, bech32('tb' if tn else 'bc', 0, hh), 'address(p2wpkh, compressed=%s, testnet=%s)' % (comp, tn), fa.where)
            v, _ = ev.call_function('keys.PublicKey.address', [pk], {'addr_type': T.const('p2sh')})
            ob.require(all(T.tag(x) == 'raise' for _, x in leaves(v)), 'an unsupported address type is refused', fa.where)
            calls = []
            for comp in (True, False):
                calls.append(('h160(compressed=%s)' % comp, 'keys.PublicKey.h160', {'compressed': T.const(comp)}))
                calls.append(('sec(compressed=%s)' % comp, 'keys.PublicKey.sec', {'compressed': T.const(comp)}))
                for at in ('p2pkh', 'p2wpkh'):
                    calls.append(('address(%s, compressed=%s)' % (at, comp), 'keys.PublicKey.address',
                                  {'compressed': T.const(comp), 'addr_type': T.const(at)}))
            check_history_free(ob, ev, pk, calls, 'PublicKey', fa.where)
            # defaults, for a key object however it was obtained (constructor, 33- or 65-byte SEC, WIF of either flavour):
            # the witness program / HASH160 commit to the COMPRESSED key unless the caller asks otherwise
            enc33, enc65 = S('enc33', type='bytes', len=33), S('enc65', type='bytes', len=65)
            kb = S('kb', type='bytes', len=32)
            sources = [('PublicKey(point)', mk_pub(p, be, P), P)]
            for nm, enc in (('PublicKey.parse(33-byte SEC)', enc33), ('PublicKey.parse(65-byte SEC)', enc65)):
                pv, _ = ev.call_function('keys.PublicKey.parse', [T.clsref(PUBKEY), enc])
                for leaf in distinct_normal_leaves(pv):
                    sources.append((nm, leaf, T.parse_pt(enc)))
            kv, kf = ev.construct('keys.PrivateKey', [kb])
            for cs, leaf in normal_leaves(kv):
                sources.append(('PrivateKey(k).K', attr_of(ev, leaf, 'K', Facts(known_at(kf, cs))), T.pt(kb)))
            summ = dict(X.DEFAULT_SUMMARIES)
            for comp, n in ((True, 34), (False, 33)):
                D = S('decoded', type='bytes', len=n)
                summ['helper.decode_base58_checksum'] = lambda ev_, fi, env, facts, D=D: (D, facts)
                e2 = Evaluator(p, be, summaries=dict(summ))
                wf = S('wif_str', type='str')
                c0 = T.FALSE
                for ch in ('K', 'L', 'c'):
                    c0 = T.or_(c0, T.eq(T.const(ch), T.getitem(wf, T.const(0))))
                wv, wfacts = e2.call_function('keys.PrivateKey.from_wif', [T.clsref(PKG + '.keys.PrivateKey'), wf],
                                              facts=Facts().add(c0 if comp else T.not_(c0)))
                for cs, leaf in normal_leaves(wv):
                    sources.append(('PrivateKey.from_wif(%scompressed WIF).K' % ('' if comp else 'un'),
                                    attr_of(e2, leaf, 'K', Facts(known_at(wfacts, cs))), T.pt(T.slice_(D, T.const(1), T.const(33)))))
            ob.require(len(sources) >= 6, 'key objects from every source were obtained', fa.where, found=len(sources))
            for nm, key, pt in sources:
                hh = SP.hash160(T.sec(pt, T.TRUE))
                v, _ = ev.call_function('keys.PublicKey.h160', [key])
                same_term(ob, v, hh, 'h160() of %s defaults to the compressed encoding' % nm, fa.where)
                v, _ = ev.call_function('keys.PublicKey.address', [key])
                same_term(ob, v, bech32('bc', 0, hh), 'address() of %s defaults to mainnet P2WPKH of the compressed key' % nm, fa.where)
                for tn in (True, False):
                    v, _ = ev.call_function('keys.PublicKey.address', [key], {'testnet': T.const(tn), 'addr_type': T.const('p2wpkh')})
                    same_term(ob, v, bech32('tb' if tn else 'bc', 0, hh), 'address(p2wpkh, testnet=%s) of %s commits to the compressed key' % (tn, nm), fa.where)
                    v, _ = ev.call_function('keys.PublicKey.address', [key], {'testnet': T.const(tn), 'addr_type': T.const('p2pkh')})
                    same_term(ob, v, SP.b58check(T.cat(T.const(b'\x6f' if tn else b'\x00'), hh)),
                              'address(p2pkh, testnet=%s) of %s defaults to the compressed key' % (tn, nm), fa.where)
    # ---------------------------------------------------------------- script builders
    with ctx.obligation('C05.SCRIPT', 'script builders', None, p.get_function('script.p2pkh_script').where) as ob:
        ev = Evaluator(p, 'ecdsa')
        h, h32 = S('h', type='bytes', len=20), S('h32', type='bytes', len=32)
        for q, arg, raw in (('script.p2pkh_script', h, T.cat(T.const(b'\x76\xa9\x14'), h, T.const(b'\x88\xac'))),
                            ('script.p2sh_script', h, T.cat(T.const(b'\xa9\x14'), h, T.const(b'\x87'))),
                            ('script.p2wpkh_script', h, T.cat(T.const(b'\x00\x14'), h)),
                            ('script.p2wsh_script', h32, T.cat(T.const(b'\x00\x20'), h32))):
            sc, _ = ev.call_function(q, [arg])
            v, _ = ev.call_function('script.Script.raw_serialize', [sc])
            same_term(ob, v, raw, '%s serialises to the standard scriptPubKey template' % q.split('.')[-1], p.get_function(q).where)
    # ---------------------------------------------------------------- hash helpers and who-may-call
    fh = p.get_function('helper.hash160')
    with ctx.obligation('C05.H160', 'helper.hash160/hash256/sha256', None, fh.where) as ob:
        ev = Evaluator(p, 'ecdsa')
        a = S('a', type='bytes')
        for q, exp in (('helper.hash160', SP.hash160(a)), ('helper.hash256', SP.hash256(a)), ('helper.sha256', T.raw_op('SHA256', a))):
            v, _ = ev.call_function(q, [a])
            same_term(ob, v, exp, q.split('.')[-1], p.get_function(q).where)
        rm = p.get_function('ripemd.ripemd160')
        callers = p.callers_of(rm)
        # (who calls the bundled implementation is not part of the property: hash160's value term above is; whether it is
        # reached through the bundled code - decided below - or through OpenSSL's RIPEMD-160 - trusted - is noted)
        ob.note('callers of the bundled ripemd160: %s' % sorted({(cs.caller.qual[len(PKG) + 1:] if cs.caller is not None else '<module level>')
                                                                  for cs in callers}))
        ob.evaluations += 1
    # the row builders pair each address with the key it belongs to - also when the nodes arrive as a one-shot iterable
    from .C06 import check_rows_onepass
    check_rows_onepass(ctx, 'C05.ONEPASS(=C06)')
    _ripemd(ctx)


# ======================================================================================= RIPEMD-160
def _ripemd(ctx):
    p = ctx.p
    mi = p.get_module('ripemd')
    ev = Evaluator(p, 'ecdsa')
    with ctx.obligation('C05.RMD-TABLES', 'ripemd tables', None, mi.relpath) as ob:
        for name, spec in (('ML', R.ml()), ('MR', R.mr()), ('RL', R.rl()), ('RR', R.rr()), ('KL', R.kl()), ('KR', R.kr())):
            v = ev.module_const('ripemd', name)
            same_term(ob, v, T.lst([T.const(x) for x in spec]), 'table %s equals its generating structure '
                      '(rho/pi permutations, shift table, integer roots)' % name, mi.relpath)
    # representation-independent step check (any loop nest, inlined f / rotation): always run
    from .rmd import check_compress_generic
    # the helper-function form of the rounds (C05.RMD-F / ROL / ROUND below) applies when fi and rol exist AND compress is
    # one loop over range(80) that calls them; any other shape is decided by the generic check alone
    def _helper_form():
        if 'fi' not in mi.functions or 'rol' not in mi.functions:
            return False
        fc_ = p.get_function('ripemd.compress')
        loops__ = [n for n in fc_.node.body if isinstance(n, ast.For)]
        e0_ = Evaluator(p, 'ecdsa')
        from ..evalr import _fixed_items
        eighty = []
        for n in loops__:
            try:
                its = _fixed_items(e0_.expr(n.iter, Frame(fc_, {}, Facts(), fc_.module, None, 0)))
            except Exception:
                its = None
            if its is not None and len(its) == 80 and all(T.is_const(x) for x in its) and not any(
                    isinstance(b, (ast.For, ast.While)) for b in n.body):
                eighty.append(n)
        if len(eighty) != 1:
            return False
        called = {c.func.id for c in ast.walk(eighty[0]) if isinstance(c, ast.Call) and isinstance(c.func, ast.Name)}
        reach = {f.name for f in p.reachable_from([fc_])}
        return {'fi', 'rol'} <= (called | reach)
    helper_form = _helper_form()
    check_compress_generic(ctx, 'C05.RMD-STEPS', lenient=helper_form)
    if not helper_form:
        # the helper-function form of the rounds is not there: C05.RMD-STEPS above is the whole round check
        _ripemd_pad(ctx)
        return
    ffi = p.get_function('ripemd.fi')
    with ctx.obligation('C05.RMD-F', 'ripemd.fi', None, ffi.where) as ob:
        ok_ops = (ast.BitAnd, ast.BitOr, ast.BitXor, ast.Invert)
        for n in ast.walk(ffi.node):
            if isinstance(n, ast.BinOp) and not isinstance(n.op, ok_ops):
                ob.undecided('fi uses a non-bitwise operator (%s); truth tables no longer decide it' % type(n.op).__name__, ffi.where)
            if isinstance(n, ast.UnaryOp) and not isinstance(n.op, ok_ops + (ast.Not,)):
                ob.undecided('fi uses a non-bitwise unary operator', ffi.where)
        for i in range(5):
            for bits in range(8):
                x, y, z = [(R.M32 if bits >> s & 1 else 0) for s in (2, 1, 0)]
                v, _ = ev.call_function('ripemd.fi', [T.const(x), T.const(y), T.const(z), T.const(i)])
                got = v[1] & R.M32 if T.is_const(v) and isinstance(v[1], int) else None
                ob.require(got == R.f(i, x, y, z), 'truth table of f%d at (x,y,z) bits %s' % (i + 1, format(bits, '03b')), ffi.where,
                           expected=hex(R.f(i, x, y, z)), found=T.show(v))
    frol = p.get_function('ripemd.rol')
    with ctx.obligation('C05.RMD-ROL', 'ripemd.rol', None, frol.where) as ob:
        for n in ast.walk(frol.node):
            if isinstance(n, ast.BinOp) and not isinstance(n.op, (ast.BitAnd, ast.BitOr, ast.LShift, ast.RShift, ast.Sub)):
                ob.undecided('rol uses an operator outside <<, >>, &, |: basis-vector reasoning does not apply', frol.where)
        for i in sorted(set(R.rl() + R.rr() + [10])):
            for b in range(0, 40):
                v, _ = ev.call_function('ripemd.rol', [T.const(1 << b), T.const(i)])
                exp = (1 << ((b + i) % 32)) if b < 32 else 0
                ob.require(T.is_const(v) and v[1] == exp, 'rol(bit %d, %d)' % (b, i), frol.where, expected=hex(exp), found=T.show(v))
    # ---- rounds
    fc = p.get_function('ripemd.compress')
    loops_ = [n for n in fc.node.body if isinstance(n, ast.For)]
    with ctx.obligation('C05.RMD-ROUND', 'ripemd.compress rounds', None, fc.where) as ob:
        if len(loops_) > 1:
            # the round loop is the one over 80 values (a loop that builds the 16 message words belongs to the prologue)
            from ..evalr import _fixed_items
            e0 = Evaluator(p, 'ecdsa')
            keep = []
            for n in loops_:
                its = _fixed_items(e0.expr(n.iter, Frame(fc, {}, Facts(), fc.module, None, 0)))
                if its is not None and len(its) == 80:
                    keep.append(n)
            loops_ = keep
        if len(loops_) != 1:
            raise AnalysisError('C05.RMD-ROUND', 'compress is expected to contain exactly one round loop')
        loop = loops_[0]
        summ = dict(X.DEFAULT_SUMMARIES)
        summ['ripemd.fi'] = lambda ev_, fi, env, facts: (T.raw_op('F', *[env[q] for q in fi.params]), facts)
        summ['ripemd.rol'] = lambda ev_, fi, env, facts: (T.raw_op('ROL', *[env[q] for q in fi.params]), facts)
        T.INT_OPS.update({'F', 'ROL', 'COMPRESS'})
        e2 = Evaluator(p, 'ecdsa', summaries=summ)
        # iteration count
        fr = Frame(fc, {}, Facts(), fc.module, None, 0)
        it = e2.expr(loop.iter, fr)
        same_term(ob, it, T.raw_op('RANGE', T.const(80)), 'the compression function runs 80 rounds', fc.where)
        # prologue: message words and the two lines start from the chaining value
        hs = [S('h%d' % i, type='int') for i in range(5)]
        block = S('block', type='bytes', len=64)
        pre = fc.node.body[:fc.node.body.index(loop)]
        res, env0, _ = e2.eval_fragment('ripemd.compress', pre, dict(zip(fc.params, hs + [block])))
        # the two lines of state: whatever variables the round loop carries (ten scalars today; two 5-tuples or lists work
        # the same way).  A slot is (variable, position or None); every slot starts as one of h0..h4, each h twice.
        from ..refcmp import _written, _exposed, _reads_outside
        carried = [n_ for n_ in _written(loop.body) if n_ != getattr(loop.target, 'id', None)
                   and (n_ in _exposed(loop.body, {getattr(loop.target, 'id', None)}) or n_ in _reads_outside(fc.node, loop))]
        slots = []
        for nm in carried:
            val = env0.get(nm)
            if val in hs:
                slots.append((nm, None, hs.index(val)))
            elif val is not None and T.tag(val) in ('tuple', 'list') and all(x in hs for x in val[1]):
                for i_, x in enumerate(val[1]):
                    slots.append((nm, i_, hs.index(x)))
        names5 = {}
        for sl in slots:
            names5.setdefault(sl[2], []).append(sl)
        xs = [nm for nm, val in env0.items() if T.tag(val) == 'list' and len(val[1]) == 16]
        if not xs:
            xs = [nm for nm, val in env0.items() if T.tag(val) == 'tuple' and len(val[1]) == 16]
        if any(len(names5.get(i, [])) != 2 for i in range(5)) or len(xs) != 1:
            raise AnalysisError('C05.RMD-ROUND', 'cannot identify the two lines of state variables / the message words')

        def bind(env, line_slots, syms):
            for (nm, pos, _h), sy in zip(line_slots, syms):
                if pos is None:
                    env[nm] = sy
                else:
                    cur = env.get(nm)
                    kind = T.tag(env0[nm])
                    items = list(cur[1]) if cur is not None and T.tag(cur) == kind else [None] * len(env0[nm][1])
                    items[pos] = sy
                    env[nm] = (kind, tuple(items))

        def read(env, line_slots):
            out = []
            for nm, pos, _h in line_slots:
                v_ = env.get(nm)
                if pos is not None:
                    v_ = v_[1][pos] if v_ is not None and T.tag(v_) in ('tuple', 'list') and pos < len(v_[1]) else None
                out.append(v_)
            return out
        xw = env0[xs[0]]
        for i in range(16):
            same_term(ob, xw[1][i], T.int_(T.slice_(block, T.const(4 * i), T.const(4 * i + 4)), LITTLE),
                      'message word %d is little-endian bytes %d..%d' % (i, 4 * i, 4 * i + 3), fc.where)
        # which of the two names per position is the left line: decided by round 0 (left uses ML/KL/RL)
        X_ = [S('X%d' % i, type='int') for i in range(16)]
        L = [S('%sL' % c, type='int') for c in 'abcde']
        Rr = [S('%sR' % c, type='int') for c in 'abcde']
        ML_, MR_, RL_, RR_, KL_, KR_ = R.ml(), R.mr(), R.rl(), R.rr(), R.kl(), R.kr()

        def spec_round(st, j, left):
            a, b, c, d, e = st
            rnd = j >> 4
            fidx = rnd if left else 4 - rnd
            m = (ML_ if left else MR_)[j]
            kk = (KL_ if left else KR_)[rnd]
            sh = (RL_ if left else RR_)[j]
            t = T.add(T.raw_op('ROL', T.add(T.add(T.add(a, T.raw_op('F', b, c, d, T.const(fidx))), X_[m]), T.const(kk)), T.const(sh)), e)
            return [e, t, b, T.raw_op('ROL', c, T.const(10)), d]
        # try both assignments of names to lines; exactly one must satisfy all 80 rounds
        import itertools
        assignments = []
        first = [names5[i] for i in range(5)]
        # the left line is the set of names that round 0 combines with X[ML[0]] = X0 using shift RL[0]
        leftnames = rightnames = None
        for cand in itertools.product(*[(0, 1)] * 5):
            ln = [first[i][cand[i]] for i in range(5)]
            rn = [first[i][1 - cand[i]] for i in range(5)]
            env = {xs[0]: T.lst(X_)}
            bind(env, ln, L)
            bind(env, rn, Rr)
            env[loop.target.id] = T.const(0)
            res, env1, _ = e2.eval_fragment('ripemd.compress', loop.body, env)
            if read(env1, ln) == spec_round(L, 0, True) and read(env1, rn) == spec_round(Rr, 0, False):
                leftnames, rightnames = ln, rn
                break
        if leftnames is None:
            ob.require(False, 'round 0 does not match the RIPEMD-160 step for any assignment of the state variables to the two lines',
                       fc.where)
        else:
            for j in range(80):
                env = {xs[0]: T.lst(X_), loop.target.id: T.const(j)}
                bind(env, leftnames, L)
                bind(env, rightnames, Rr)
                res, env1, _ = e2.eval_fragment('ripemd.compress', loop.body, env)
                for side, names, st, left in (('left', leftnames, L, True), ('right', rightnames, Rr, False)):
                    exp = spec_round(st, j, left)
                    for (nm, pos, _h), g, e in zip(names, read(env1, names), exp):
                        same_term(ob, g, e, 'round %d, %s line, variable %s%s' % (j, side, nm, '' if pos is None else '[%d]' % pos),
                                  '%s:%d' % (fc.module.relpath, loop.lineno))
            # final combination
            post = fc.node.body[fc.node.body.index(loop) + 1:]
            env = dict(zip(fc.params, hs + [block]))
            bind(env, leftnames, L)
            bind(env, rightnames, Rr)
            res, _, _ = e2.eval_fragment('ripemd.compress', post, env)
            al, bl, cl, dl, el = L
            ar, br, cr, dr, er = Rr
            exp = T.tup([T.add(T.add(hs[1], cl), dr), T.add(T.add(hs[2], dl), er), T.add(T.add(hs[3], el), ar),
                         T.add(T.add(hs[4], al), br), T.add(T.add(hs[0], bl), cr)])
            same_term(ob, res, exp, 'final combination of chaining value and the two lines', fc.where)
    _ripemd_pad(ctx)
    # the Base58Check addresses are standard only if the Base58 writer is (a mainnet P2PKH payload starts with the zero
    # version byte, and one hash in 256 continues with another: seed C05-M counts the leading zeros wrongly) - C10's
    # obligations on the writer are part of this property
    from . import C10
    sub10 = ctx.__class__('C05', ctx.tier, ctx.p, ctx.seed)
    C10.run(sub10)
    for o in sub10.obligations:
        if (o.rule in ('C10.LOOPS', 'C10.ONEFORONE', 'C10.RUN') and 'encode_base58' in o.construct) or o.rule in ('C10.WRITER', 'C10.TOTAL'):
            o.rule = 'C05.B58-%s(=C10)' % o.rule.split('.')[1]
            ctx.obligations.append(o)


def _ripemd_pad(ctx):
    p = ctx.p
    # ---- padding, length, block schedule, output
    fr_ = p.get_function('ripemd.ripemd160')
    with ctx.obligation('C05.RMD-PAD', 'ripemd.ripemd160', None, fr_.where) as ob:
        summ = dict(X.DEFAULT_SUMMARIES)
        del summ['ripemd.ripemd160']

        def compress_sum(ev_, fi, env, facts):
            args = [env[q] for q in fi.params]
            return T.tup([T.raw_op('COMPRESS', T.const(i), *args) for i in range(5)]), facts
        summ['ripemd.compress'] = compress_sum
        e3 = Evaluator(p, 'ecdsa', summaries=summ)
        for Ln in range(0, 192):
            data = S('data', type='bytes', len=Ln)
            v, _ = e3.call_function('ripemd.ripemd160', [data])
            # specification: pad to a multiple of 64 with 0x80, zeros, 8-byte little-endian bit length
            z = (55 - Ln) % 64
            msg = T.cat(data, T.const(b'\x80' + b'\x00' * z + (8 * Ln).to_bytes(8, 'little')))
            n = T.length_of(msg)
            if n is None or n % 64:
                raise AnalysisError('C05.RMD-PAD', 'spec padding broken')
            st = [T.const(x) for x in R.INIT]
            for b in range(n // 64):
                blk = T.slice_(msg, T.const(64 * b), T.const(64 * b + 64))
                st = [T.raw_op('COMPRESS', T.const(i), *(st + [blk])) for i in range(5)]
            exp = T.cat(*[T.ser(T.bitand(h, T.const(R.M32)), T.const(4), LITTLE) for h in st])
            same_term(ob, v, exp, 'message length %d: padding, length field, block schedule and little-endian output' % Ln, fr_.where)
