"""C10 — Base58Check: acceptance soundness, who-may-call, alphabet."""
from __future__ import annotations

import ast

from .. import terms as T
from ..evalr import Evaluator
from .. import externals as X
from ..spec import bip32 as SP
from ..spec import base58 as B58
from .common import *
from .common import _split


def run(ctx):
    p = ctx.p
    ctx.explanation = (
        'decode_base58_checksum is abstractly evaluated with the raw decoder summarised as B58DEC(s): its only '
        'non-raising exit must be guarded by first4(SHA256(SHA256(b[:-4]))) == b[-4:] and must return the same b[:-4] '
        'that was hashed; the writer must append the same 4-byte prefix of the same double hash; every consumer of '
        'checksummed text goes through the checksummed decoder and the bare decoder has no other caller (call graph); '
        'the alphabet constant equals the published one and the character lookup raises on foreign characters.')
    ctx.not_decided = ['losslessness / leading-zero mapping / inverse-ness of the Base58 digit loops as arithmetic on '
                       'values (see C10.LOOPS for the loop-idiom part)']
    fd = p.get_function('helper.decode_base58_checksum')
    s = S('s', type='str')
    with ctx.obligation('C10.GUARD', 'helper.decode_base58_checksum', None, fd.where) as ob:
        ev = Evaluator(p, 'ecdsa')
        v, f = ev.call_function('helper.decode_base58_checksum', [s])
        nb = T.raw_op('B58DEC', s)
        body = T.slice_(nb, T.const(0), T.const(-4))
        chk = T.slice_(nb, T.const(-4), T.NONE)
        good = T.eq(T.slice_(SP.hash256(body), T.const(0), T.const(4)), chk)
        nl = normal_leaves(v)
        ob.require(len(nl) >= 1, 'the decoder can return a payload', fd.where)
        for cs, leaf in nl:
            known = known_at(f, cs)
            ob.require(good in known, 'a payload is returned without the 4-byte double-SHA256 checksum having been compared '
                       '(or the comparison does not raise)', fd.where, expected=T.show(good, maxdepth=6),
                       found=sorted(T.show(x, maxdepth=4) for x in known)[:4])
            same_term(ob, leaf, body, 'the returned payload is the decoded bytes without the last four (the bytes that were hashed)',
                      fd.where)
        ob.require(any(T.tag(x) == 'raise' for _, x in leaves(v)), 'a wrong checksum raises', fd.where)
        ob.require('helper.decode_base58' in {c for _, c in ev.calls}, 'decoding goes through decode_base58', fd.where)
    fe = p.get_function('helper.encode_base58_checksum')
    with ctx.obligation('C10.WRITER', 'helper.encode_base58_checksum', None, fe.where) as ob:
        ev = Evaluator(p, 'ecdsa')
        a = S('a', type='bytes')
        v, _ = ev.call_function('helper.encode_base58_checksum', [a])
        same_term(ob, v, SP.b58check(a), 'encoder appends first4(hash256(data)) and Base58-encodes', fe.where)
        v, _ = ev.call_function('helper.hash256', [a])
        same_term(ob, v, SP.hash256(a), 'hash256 is double SHA-256', fe.where)
    # ---------------------------------------------------------------- who may call
    fdb = p.get_function('helper.decode_base58')
    with ctx.obligation('C10.WHO', 'helper.decode_base58 callers', None, fdb.where) as ob:
        callers = p.callers_of(fdb)
        for cs in callers:
            ok = cs.caller is not None and cs.caller.qual.endswith('helper.decode_base58_checksum')
            ob.require(ok, 'the bare (unchecksummed) Base58 decoder is called outside decode_base58_checksum', cs.where,
                       found=repr(cs))
        ob.require(len(callers) >= 1, 'decode_base58_checksum calls the raw decoder', fdb.where)
        consumers = [('keys.PrivateKey.from_wif', fd), ('bip32.PubKeyNode.parse', fd), ('helper.b58decode_addr', fd)]
        for q, target in consumers:
            fi = p.get_function(q)
            reach = p.reachable_from([fi])
            ob.require(target in reach, '%s does not decode through decode_base58_checksum' % q, fi.where)
            ob.require(fdb not in {t for f_ in reach if f_ is not target and f_ not in p.reachable_from([target])
                                   for cs in p.calls_from(f_) for t in cs.targets},
                       '%s reaches the bare Base58 decoder without the checksum' % q, fi.where)
    # ---------------------------------------------------------------- alphabet and raising lookup
    # "for every non-empty byte string ... for every string over the alphabet": nothing on the way may cut the input to a
    # fixed size.  `zip(input, TABLE)` with a table of fixed length silently drops whatever lies beyond it.
    with ctx.obligation('C10.TOTAL', 'Base58 functions consume their whole input', None, 'btc_hd_wallet/helper.py') as ob:
        from ..evalr import _fixed_items
        roots = [p.get_function('helper.' + q) for q in ('encode_base58', 'decode_base58', 'encode_base58_checksum', 'decode_base58_checksum')]
        evm = Evaluator(p, 'ecdsa')
        n_fn = 0
        for fi in p.reachable_from(roots):
            if not fi.module.name.endswith('helper'):
                continue
            n_fn += 1
            for n in ast.walk(fi.node):
                if isinstance(n, ast.Call) and isinstance(n.func, ast.Name) and n.func.id == 'zip' and len(n.args) >= 2:
                    fixed, free = [], []
                    for a in n.args:
                        items = None
                        if isinstance(a, ast.Name) and a.id in fi.module.assigns:
                            items = _fixed_items(evm.module_const('helper', a.id))
                        elif isinstance(a, (ast.Tuple, ast.List, ast.Constant)):
                            items = True
                        elif isinstance(a, ast.Call) and isinstance(a.func, ast.Name) and a.func.id == 'range' and \
                                all(isinstance(x, ast.Constant) for x in a.args):
                            items = True
                        (fixed if items is not None else free).append(ast.unparse(a))
                    ob.require(not (fixed and free), 'zip(%s) pairs the data with a table of fixed length: elements beyond it are '
                               'silently dropped (long inputs decode / encode as their truncation)' % ', '.join(fixed + free),
                               '%s:%d' % (fi.module.relpath, n.lineno))
            ob.evaluations += 1
        ob.saw('btc_hd_wallet/helper.py')
        if n_fn < 4:
            ob.undecided('the Base58 functions were not found in helper (%d)' % n_fn)
    # "leading zero bytes map one-for-one to leading '1' characters ... exact inverse": neither coder may answer with one
    # fixed value for an unbounded family of inputs.  Independent of how the function is written: a non-raising exit that
    # returns a constant is allowed only on a path whose conditions pin the input itself (empty input).
    from .. import refcmp as _rc
    for fn in ('decode_base58', 'encode_base58'):
        fi_ = p.get_function('helper.' + fn)
        with ctx.obligation('C10.ONEFORONE', 'helper.' + fn, None, fi_.where) as ob:
            _f, recs, _sig = _rc.describe(p, 'helper', fn, 'ecdsa', shared=(), param_types=_rc.param_types_of(fi_))
            psym = T.sym('$' + fi_.params[0], type=_rc.param_types_of(fi_)[0]) if _rc.param_types_of(fi_)[0] else T.sym('$' + fi_.params[0])

            def pins_input(c):
                # a condition that restricts the parameter itself to finitely many values: it is empty / equals a constant
                for x in _split(c):
                    y = x[2] if T.is_op(x, 'NOT') else x
                    if T.is_op(y, 'BOOL') and y[2] == psym and T.is_op(x, 'NOT'):
                        return True
                    if T.is_op(x, 'EQ') and psym in x[2:] and any(T.is_const(z) for z in x[2:]):
                        return True
                    if T.is_op(x, 'EQ') and T.len_(psym) in x[2:] and any(T.is_const(z) for z in x[2:]):
                        return True
                    if T.is_op(y, 'BOOL') and y[2] == T.len_(psym) and T.is_op(x, 'NOT'):
                        return True
                return False
            exits = [r for r in recs if r[0] == 'seq' and r[1] != ('fall',)]
            ob.require(bool(exits), '%s has a returning segment' % fn, fi_.where)

            def walk_recs(rs):
                for r in rs:
                    if r[0] == 'seq':
                        yield r[1]
                    else:
                        yield from walk_recs(r[3])
                        yield from walk_recs(r[5])
            for val in walk_recs(recs):
                if val == ('fall',):
                    continue
                for cs, leaf in leaves(val):
                    ob.evaluations += 1
                    if T.tag(leaf) == 'raise' or leaf == ('fall',) or not T.is_const(leaf) or not isinstance(leaf[1], (bytes, str)):
                        continue
                    ob.require(any(pins_input(c) for c in cs), '%s returns the constant %s for every input on a path that does not '
                               'depend on the input\'s length or content (%s): an unbounded family of inputs - e.g. every run of '
                               'zero bytes / of \'1\' characters - gets one answer, so leading zeros are not mapped one-for-one and '
                               'the coder is not invertible' % (fn, repr(leaf[1]), ' and '.join(T.show(c, maxdepth=3) for c in cs) or 'always'),
                               fi_.where)
    # "leading zero bytes map one-for-one to leading '1' characters": the run that is written as repeated '1' / zero bytes
    # must be able to grow with the input - a repetition count that is bounded by a constant whatever the input (a truth
    # value, `len(x) - len(x.removeprefix(p))`: removeprefix strips ONE occurrence) maps longer runs onto shorter ones
    def _bound(c, depth=0):
        if depth > 12:
            return None
        if T.is_const(c) and isinstance(c[1], (int, bool)):
            return int(c[1])
        if T.type_of(c) == 'bool':
            return 1
        if T.tag(c) == 'phi':
            a_, b_ = _bound(c[2], depth + 1), _bound(c[3], depth + 1)
            if T.tag(c[2]) == 'raise':
                return b_
            if T.tag(c[3]) == 'raise':
                return a_
            return None if a_ is None or b_ is None else max(a_, b_)
        # len(x) - len(x.removeprefix(p))  /  len(x) - len(x.removesuffix(p))
        parts = list(c[2:]) if T.is_op(c, 'ADD') else None
        if parts and len(parts) == 2:
            for u, w in ((parts[0], parts[1]), (parts[1], parts[0])):
                if T.is_op(u, 'LEN') and T.is_op(w, 'MUL') and T.const(-1) in w[2:]:
                    inner = [z for z in w[2:] if z != T.const(-1)]
                    if len(inner) == 1 and T.is_op(inner[0], 'LEN') and T.is_op(inner[0][2]) and inner[0][2][1] in ('REMOVEPREFIX', 'REMOVESUFFIX') \
                            and inner[0][2][2] == u[2]:
                        pl = T.length_of(inner[0][2][3])
                        return pl
        if T.is_op(c, 'SUB') and T.is_op(c[2], 'LEN') and T.is_op(c[3], 'LEN') and T.is_op(c[3][2]) \
                and c[3][2][1] in ('REMOVEPREFIX', 'REMOVESUFFIX') and c[3][2][2] == c[2][2]:
            return T.length_of(c[3][2][3])
        return None
    for fn in ('encode_base58', 'decode_base58'):
        fi_ = p.get_function('helper.' + fn)
        with ctx.obligation('C10.RUN', 'helper.' + fn, None, fi_.where) as ob:
            _f, recs, _sig = _rc.describe(p, 'helper', fn, 'ecdsa', shared=(), param_types=_rc.param_types_of(fi_))
            reps = []

            def collect(x):
                if isinstance(x, dict):
                    x = tuple(x.values())
                if isinstance(x, (tuple, list)):
                    if T.is_op(x, 'REPB') and T.is_const(x[2]) and x[2][1] in ('1', b'\x00'):
                        reps.append(x)
                    for y in x:
                        collect(y)
            collect(recs)
            ob.evaluations += 1
            for r in reps:
                bnd = _bound(r[3])
                ob.require(bnd is None, '%s writes the run of %s with a repetition count that never exceeds %s, whatever the input: '
                           'longer runs of leading zero bytes / \'1\' characters are not mapped one-for-one' % (fn, repr(r[2][1]), bnd),
                           fi_.where, found=T.show(r[3], maxdepth=5))
            if not reps:
                ob.note('%s: no repeated %s found in its value terms (run written another way)' % (fn, "'1' / zero byte"))
    with ctx.obligation('C10.ALPHA', 'helper.BASE58_ALPHABET', None, 'btc_hd_wallet/helper.py') as ob:
        ev = Evaluator(p, 'ecdsa')
        a = ev.module_const('helper', 'BASE58_ALPHABET')
        same_term(ob, a, T.const(B58.ALPHABET), 'Base58 alphabet', 'btc_hd_wallet/helper.py')
        # a character outside the alphabet is refused: the body of every loop that walks the input string is evaluated
        # with the character symbolic and known to differ from each of the 58 letters - every path must raise
        # (`ALPHABET.index(c)` itself raises for such a character)
        walked = fdb.params[0]
        loops_ = []
        for n in ast.walk(fdb.node):
            if isinstance(n, ast.For):
                it = n.iter
                if isinstance(it, ast.Call) and isinstance(it.func, ast.Name) and it.func.id == 'enumerate' and it.args:
                    it = it.args[0]
                if isinstance(it, ast.Name) and it.id == walked:
                    loops_.append(n)
        if not loops_:
            ob.undecided('decode_base58 has no loop that walks its input string character by character; the refusal of foreign '
                         'characters cannot be located', fdb.where)
        refusing = 0
        for lp in loops_:
            ev2 = Evaluator(p, 'ecdsa')
            sx = S('s', type='str')
            pre_stmts = []
            for st in fdb.node.body:
                if st is lp or any(x is lp for x in ast.walk(st)):
                    break
                pre_stmts.append(st)
            try:
                _, env0, f0 = ev2.eval_fragment('helper.decode_base58', pre_stmts, {walked: sx})
            except Exception:
                env0, f0 = {walked: sx}, Facts()
            c = S('c', type='str', len=1)
            env = dict(env0)
            for nm in {x.id for x in ast.walk(lp) if isinstance(x, ast.Name) and isinstance(x.ctx, ast.Store)}:
                if nm in env and T.is_const(env[nm]) and isinstance(env[nm][1], int) and not isinstance(env[nm][1], bool):
                    env[nm] = S('carried_' + nm, type='int')      # loop-carried numbers: any value
            tgt = lp.target
            if isinstance(tgt, ast.Tuple) and len(tgt.elts) == 2 and all(isinstance(x, ast.Name) for x in tgt.elts):
                env[tgt.elts[0].id] = S('position', type='int')
                env[tgt.elts[1].id] = c
            elif isinstance(tgt, ast.Name):
                env[tgt.id] = c
            else:
                ob.undecided('loop target of the character loop not understood: %s' % ast.unparse(tgt), fdb.where)
                continue
            facts = Facts()
            for ch in B58.ALPHABET:
                facts = facts.add(T.not_(T.eq(c, T.const(ch))))
            res, env2, f2 = ev2.eval_fragment('helper.decode_base58', lp.body, env, facts)

            def refuses(leaf):
                return T.tag(leaf) == 'raise'
            if res is FALL:
                lv = []
            else:
                # alternatives the assumption excludes (the letters of a table look-up) do not count
                lv = [x for _, x in leaves(res, (), set(facts))]
            falls = res is FALL or any(x is FALL or x == FALL for x in lv)
            uses_index = any(T.contains(v_, lambda x: T.is_op(x) and x[1] in ('INDEX', 'METHOD') and T.contains(x, lambda y: y == c))
                             for v_ in list(env2.values()) if v_ is not None)
            if not falls and lv and all(refuses(x) for x in lv):
                refusing += 1
            elif uses_index:
                refusing += 1         # str.index raises ValueError for a character that is not there
            else:
                # this loop lets a foreign character through; acceptable only if another loop over the same string refuses it
                ob.note('loop at line %d does not refuse a character outside the alphabet by itself' % lp.lineno)
        if loops_:
            ob.require(refusing >= 1, 'decode_base58 refuses a character outside the Base58 alphabet (evaluated with the character '
                       'symbolic and different from all 58 letters: every path through the digit loop must raise)', fdb.where)
    fba = p.get_function('helper.b58decode_addr')
    with ctx.obligation('C10.ADDR', 'helper.b58decode_addr', None, fba.where) as ob:
        summ = dict(X.DEFAULT_SUMMARIES)
        pay = S('payload', type='bytes')
        summ['helper.decode_base58_checksum'] = lambda ev_, fi, env, facts: (T.raw_op('CHK', env[fi.params[0]]), facts)
        T.BYTES_OPS.add('CHK')
        ev = Evaluator(p, 'ecdsa', summaries=summ)
        v, _ = ev.call_function('helper.b58decode_addr', [s])
        same_term(ob, v, T.slice_(T.raw_op('CHK', s), T.const(1), T.NONE), 'b58decode_addr is the checksummed payload without its version byte', fba.where)
    from . import loops
    loops.check_base58(ctx)


def thorough(ctx):
    """C10.REFPAIR: the specification side is validated, not only trusted - the reference pair (sa/spec/ref/.../helper.py, the
    algorithm the repository's functions are compared with by C10.LOOPS; the hand proof in DESIGN.md says it is mutually
    inverse) is executed exhaustively on every byte string of length 1..2, every string over the alphabet of length 1..2,
    all-zero / all-'1' inputs up to length 64 and 20 000 pseudo-random inputs (seeded by VERIF_SEED), and against the
    published Bitcoin Core vectors.  Only the reference transcription is executed here, never the repository."""
    import os, random
    refp = os.path.join(os.path.dirname(os.path.dirname(os.path.abspath(__file__))), 'spec', 'ref', 'btc_hd_wallet', 'helper.py')
    with ctx.obligation('C10.REFPAIR', 'reference Base58 pair (specification side)', None, 'sa/spec/ref/btc_hd_wallet/helper.py') as ob:
        ns = {}
        exec(compile(open(refp).read(), refp, 'exec'), ns)
        enc, dec, A = ns['encode_base58'], ns['decode_base58'], ns['BASE58_ALPHABET']
        bad = []
        n = 0

        def chk_b(b):
            nonlocal n
            n += 1
            if dec(enc(b)) != b and len(bad) < 5:
                bad.append(('bytes', b.hex()))

        def chk_s(t):
            nonlocal n
            n += 1
            if enc(dec(t)) != t and len(bad) < 5:
                bad.append(('text', t))
        for a in range(256):
            chk_b(bytes([a]))
            for b_ in range(256):
                chk_b(bytes([a, b_]))
        for c1 in A:
            chk_s(c1)
            for c2 in A:
                chk_s(c1 + c2)
        for k in range(1, 65):
            chk_b(b'\x00' * k)
            chk_s('1' * k)
            chk_b(b'\x00' * k + b'\x01')
            chk_s('1' * k + 'z')
        rnd = random.Random(ctx.seed)
        for _ in range(20000):
            L = rnd.randrange(1, 90)
            z = rnd.choice((0, 0, 0, 1, 2, 5))
            chk_b(b'\x00' * z + bytes(rnd.randrange(256) for _ in range(L)))
            chk_s('1' * z + ''.join(rnd.choice(A) for _ in range(L)))
        vectors = [('', ''), ('61', '2g'), ('626262', 'a3gV'), ('636363', 'aPEr'), ('73696d706c792061206c6f6e6720737472696e67', '2cFupjhnEsSn59qHXstmK2ffpLv2'),
                   ('00eb15231dfceb60925886b67d065299925915aeb172c06647', '1NS17iag9jJgTHD1VXjvLCEnZuQ3rJDE9L'), ('516b6fcd0f', 'ABnLTmg'),
                   ('bf4f89001e670274dd', '3SEo3LWLoPntC'), ('572e4794', '3EFU7m'), ('ecac89cad93923c02321', 'EJDM8drfXA6uyA'),
                   ('10c8511e', 'Rt5zm'), ('00000000000000000000', '1111111111')]
        for hx, txt in vectors:
            n += 1
            if enc(bytes.fromhex(hx)) != txt or (txt and dec(txt) != bytes.fromhex(hx)):
                bad.append(('vector', hx, txt))
        ob.evaluations += n
        ob.saw('sa/spec/ref/btc_hd_wallet/helper.py')
        ob.require(not bad, 'the reference Base58 pair is mutually inverse on every input tried and reproduces the published vectors',
                   'sa/spec/ref/btc_hd_wallet/helper.py', found=bad)
        ob.note('%d inputs: all byte strings and alphabet strings of length 1..2, zero / one runs up to 64, 40 000 pseudo-random, 12 published vectors' % n)
