"""C18 — invalid children are reported, never returned (R-GUARD per back end)."""
from __future__ import annotations

from .. import terms as T
from ..evalr import Evaluator
from .common import *

N = T.CURVE_N
ZERO = T.const(0)


def _need_sk_valid(ob, known, key, what, where, notes):
    i = T.int_(key, BIG)
    ob.require(T.lt(i, N) in known,
               '%s: no guard or validating call establishes parse256(key) < n before the value is produced%s'
               % (what, notes), where, expected='fact %s on every non-raising path' % T.show(T.lt(i, N), maxdepth=4),
               found='facts: %s' % sorted(T.show(x, maxdepth=3) for x in known)[:8])
    ob.require(T.not_(T.eq(ZERO, i)) in known,
               '%s: no guard or validating call establishes key != 0 before the value is produced%s' % (what, notes),
               where, expected='fact %s' % T.show(T.not_(T.eq(ZERO, i)), maxdepth=4),
               found='facts: %s' % sorted(T.show(x, maxdepth=3) for x in known)[:8])


def _exception_object(p, leaf):
    """An instance of an exception class (of the package or of the library) handed out as a value."""
    if T.tag(leaf) == 'obj':
        ci = p.classes.get(leaf[1])
        if ci is not None:
            names = {b.split('.')[-1] for c_ in ci.mro() for b in c_.base_names} | {c_.name for c_ in ci.mro()}
            return any(n.endswith(('Error', 'Exception', 'Warning')) or n == 'BaseException' for n in names)
    if T.is_op(leaf, 'EXC') or (T.is_op(leaf, 'EXTCALL') and len(leaf) > 2 and T.is_const(leaf[2])
                                  and str(leaf[2][1]).endswith(('Error', 'Exception'))):
        return True
    return False


def run(ctx):
    p = ctx.p
    ctx.explanation = (
        'R-GUARD on the abstract value of master_key / PrvKeyNode.ckd / PubKeyNode.ckd / bip85.correct_key / '
        'bip85.wif / bip85.xprv, per crypto back end: on every non-raising leaf of the result term the must-facts '
        '(guards whose other arm raises, plus raises-unless contracts of validating library calls) must contain '
        'IL < n and key != 0 (point != infinity on the public side), with the guard subject being the same term '
        'that becomes the key.')
    ctx.not_decided = ['that libsecp256k1 / ecdsa honour their documented raises-unless contracts']
    for be in BACKENDS:
        # ------------------------------------------------------------------ master_key
        fi = p.get_function('bip32.PrvKeyNode.master_key')
        with ctx.obligation('C18.MASTER', 'PrvKeyNode.master_key', be, fi.where) as ob:
            ev = Evaluator(p, be)
            v, f = ev.call_function('bip32.PrvKeyNode.master_key', [T.clsref(PRV), S('seed', type='bytes'),
                                                                    S('testnet', type='bool')])
            nl = normal_leaves(v)
            if not nl:
                ob.undecided('master_key has no non-raising exit', fi.where)
            notes = ''.join(' [note: %s]' % d for d in discarded_exceptions(fi))
            for conds, leaf in nl:
                if _exception_object(p, leaf):
                    ob.require(False, 'master_key hands an exception object back as a value (built and returned, not raised)' + notes,
                               fi.where, expected='raise', found=T.show(leaf, maxdepth=2))
                    continue
                if T.tag(leaf) != 'obj':
                    ob.undecided('master_key returns a value that is not a constructed node: %s' % T.show(leaf, maxdepth=3))
                    continue
                key = T.obj_fields(leaf)['key']
                require_no_opaque(ob, key, 'master key')
                _need_sk_valid(ob, known_at(f, conds), key, 'master_key', fi.where, notes)
        # ------------------------------------------------------------------ PrvKeyNode.ckd
        fi = p.get_function('bip32.PrvKeyNode.ckd')
        for layout in ('32', '33'):
            with ctx.obligation('C18.CKDPRIV', 'PrvKeyNode.ckd', '%s/key%s' % (be, layout), fi.where) as ob:
                ev = Evaluator(p, be)
                node, k = prv_node(layout)
                v, f = ev.call_function('bip32.PrvKeyNode.ckd', [node, S('i', type='int')])
                nl = normal_leaves(v)
                if not nl:
                    ob.undecided('ckd has no non-raising exit', fi.where)
                notes = ''.join(' [note: %s]' % d for d in discarded_exceptions(fi))
                for conds, leaf in nl:
                    if _exception_object(p, leaf):
                        ob.require(False, 'PrvKeyNode.ckd hands an exception object back as if it were the child (built and returned, '
                                   'not raised)' + notes, fi.where, expected='raise', found=T.show(leaf, maxdepth=2))
                        continue
                    if T.tag(leaf) != 'obj':
                        ob.undecided('ckd returns a value that is not a constructed node')
                        continue
                    key = T.obj_fields(leaf)['key']
                    require_no_opaque(ob, key, 'child key')
                    ils = find_sub(key, is_hmac_left)
                    if not ils:
                        ob.undecided('child key does not contain the left HMAC half: %s' % T.show(key, maxdepth=4))
                        continue
                    known = known_at(f, conds)
                    for il in ils:
                        ob.require(T.lt(T.int_(il, BIG), N) in known,
                                   'PrvKeyNode.ckd: parse256(IL) >= n is not refused before the child is returned'
                                   + notes, fi.where,
                                   expected='fact LT(INT(IL), n) (guard whose arm raises, or a validating call)',
                                   found='facts: %s' % sorted(T.show(x, maxdepth=3) for x in known)[:8])
                    ob.require(T.not_(T.eq(ZERO, T.int_(key, BIG))) in known,
                               'PrvKeyNode.ckd: child key == 0 is not refused before the child is returned' + notes,
                               fi.where, expected='fact NOT(EQ(0, k_i))',
                               found='facts: %s' % sorted(T.show(x, maxdepth=3) for x in known)[:8])
        # ------------------------------------------------------------------ PubKeyNode.ckd
        fi = p.get_function('bip32.PubKeyNode.ckd')
        with ctx.obligation('C18.CKDPUB', 'PubKeyNode.ckd', be, fi.where) as ob:
            ev = Evaluator(p, be)
            node, P = pub_node()
            v, f = ev.call_function('bip32.PubKeyNode.ckd', [node, S('i', type='int')])
            nl = normal_leaves(v)
            if not nl:
                ob.undecided('ckd has no non-raising exit', fi.where)
            notes = ''.join(' [note: %s]' % d for d in discarded_exceptions(fi))
            for conds, leaf in nl:
                if _exception_object(p, leaf):
                    ob.require(False, 'PubKeyNode.ckd hands an exception object back as if it were the child (built and returned, '
                               'not raised): the invalid case is not reported' + notes, fi.where,
                               expected='raise', found=T.show(leaf, maxdepth=2))
                    continue
                if T.tag(leaf) != 'obj':
                    ob.undecided('ckd returns a value that is not a constructed node')
                    continue
                key = T.obj_fields(leaf)['key']
                require_no_opaque(ob, key, 'child key')
                ils = find_sub(key, is_hmac_left)
                if not ils:
                    ob.undecided('child key does not contain the left HMAC half: %s' % T.show(key, maxdepth=4))
                    continue
                known = known_at(f, conds)
                for il in ils:
                    ob.require(T.lt(T.int_(il, BIG), N) in known,
                               'PubKeyNode.ckd: parse256(IL) >= n is not refused before the child is returned' + notes,
                               fi.where, expected='fact LT(INT(IL), n)',
                               found='facts: %s' % sorted(T.show(x, maxdepth=3) for x in known)[:8])
                pt = T.parse_pt(key)
                ob.require(T.not_(T.eq(pt, T.INFINITY)) in known,
                           'PubKeyNode.ckd: point at infinity is not refused before the child is returned' + notes,
                           fi.where, expected='fact NOT(EQ(K_i, INFINITY))',
                           found='facts: %s' % sorted(T.show(x, maxdepth=3) for x in known)[:8])
        # ------------------------------------------------------------------ bip85.correct_key
        fi = p.get_function('bip85.BIP85DeterministicEntropy.correct_key')
        with ctx.obligation('C18.CORRECTKEY', 'BIP85DeterministicEntropy.correct_key', be, fi.where) as ob:
            ev = Evaluator(p, be)
            kb = S('key_bytes', type='bytes', len=32)
            v, f = ev.call_function('bip85.BIP85DeterministicEntropy.correct_key', [kb])
            nl = normal_leaves(v)
            if not nl:
                ob.undecided('correct_key has no non-raising exit')
            notes = ''.join(' [note: %s]' % d for d in discarded_exceptions(fi))
            for conds, leaf in nl:
                _need_sk_valid(ob, known_at(f, conds), kb, 'correct_key', fi.where, notes)
        # ------------------------------------------------------------------ bip85.wif / xprv
        for fn, lo, hi in (('wif', 1, 33), ('xprv', 46, 78)):
            fi = p.get_function('bip85.BIP85DeterministicEntropy.' + fn)
            with ctx.obligation('C18.BIP85', 'BIP85DeterministicEntropy.' + fn, be, fi.where) as ob:
                ev = Evaluator(p, be)
                m, k = master_prv()
                b = T.obj(PKG + '.bip85.BIP85DeterministicEntropy', dict(master_node=m, testnet=S('testnet', type='bool')))
                v, f = ev.call_function('bip85.BIP85DeterministicEntropy.' + fn, [b], {'index': T.const(0)})
                nl = normal_leaves(v)
                if not nl:
                    ob.undecided('%s has no non-raising exit' % fn)
                for conds, leaf in nl:
                    if not (T.is_op(leaf, 'B58ENC')):
                        ob.undecided('%s does not return a Base58 string: %s' % (fn, T.show(leaf, maxdepth=3)))
                        continue
                    payload = leaf[2]
                    key = T.slice_(payload, T.const(lo), T.const(hi))
                    if T.length_of(key) != 32 or T.opaques(key):
                        ob.undecided('cannot locate the 32-byte secret inside the %s payload: %s'
                                     % (fn, T.show(payload, maxdepth=3)))
                        continue
                    _need_sk_valid(ob, known_at(f, conds), key, 'bip85.%s' % fn, fi.where, '')
    # bulk derivation must not bypass what ckd refuses or computes (hardened refusal, invalid-key refusals)
    from .C01 import check_bulk
    check_bulk(ctx, 'C18.BULK(=C01)', kinds=('prv', 'pub'))
    check_swallow(ctx, 'C18.SWALLOW')


# ======================================================================================= error discipline (R-ERR)
SWALLOW_PLANTED = """
import contextlib
class CM:
    def __enter__(self): return self
    def __exit__(self, a, b, c): return 1
def f(n):
    try:
        return n.ckd(1)
    finally:
        return n
def g(n):
    for i in range(3):
        try:
            n.ckd(i)
        finally:
            break
def h(n):
    with contextlib.suppress(Exception):
        return n.ckd(1)
def k(n):
    try:
        return n.ckd(1)
    except Exception:
        return None
"""


def _finally_jumps(fn):
    """return / break / continue statements inside a `finally:` block (they discard an exception in flight)"""
    out = []
    for t in ast.walk(fn):
        if isinstance(t, ast.Try) and t.finalbody:
            stack = [(s, 0) for s in t.finalbody]
            while stack:
                n, loops = stack.pop()
                if isinstance(n, (ast.FunctionDef, ast.AsyncFunctionDef, ast.Lambda, ast.ClassDef)):
                    continue
                if isinstance(n, ast.Return):
                    out.append(('return', n))
                elif isinstance(n, (ast.Break, ast.Continue)) and loops == 0:
                    out.append((type(n).__name__.lower(), n))
                inner = loops + (1 if isinstance(n, (ast.For, ast.While, ast.AsyncFor)) else 0)
                for c in ast.iter_child_nodes(n):
                    stack.append((c, inner))
    return out


_BROAD = {'Exception', 'BaseException', 'InvalidKeyError', 'RuntimeError', 'ValueError'}


def _names_in(expr):
    if expr is None:
        return {'<bare>'}
    out = set()
    for n in ast.walk(expr):
        if isinstance(n, ast.Name):
            out.add(n.id)
        elif isinstance(n, ast.Attribute):
            out.add(n.attr)
    return out


def _suppressions(fn):
    """(kind, node, detail): with-items that are contextlib.suppress(<broad>); handlers for a broad type with no raise"""
    out = []
    for n in ast.walk(fn):
        if isinstance(n, (ast.With, ast.AsyncWith)):
            for it in n.items:
                c = it.context_expr
                if isinstance(c, ast.Call) and (ast.unparse(c.func) in ('suppress', 'contextlib.suppress')):
                    caught = set()
                    for a in c.args:
                        caught |= _names_in(a)
                    if caught & _BROAD:
                        out.append(('suppress', n, sorted(caught & _BROAD)))
        if isinstance(n, ast.Try):
            for h in n.handlers:
                caught = _names_in(h.type)
                if not (caught & (_BROAD | {'<bare>'})):
                    continue
                if any(isinstance(x, ast.Raise) for s in h.body for x in ast.walk(s)):
                    continue
                out.append(('handler', h, sorted(caught & (_BROAD | {'<bare>'}))))
    return out


def check_swallow(ctx, rule):
    """Invalid children are *reported*: between a refusing `raise` in the derivation code and the caller there must be
    nothing that can discard an exception in flight - a `return`/`break`/`continue` inside `finally`, a context manager of
    the package whose `__exit__` can return a true value, `contextlib.suppress` of a matching type, or a handler for such a
    type that does not re-raise around a call that derives."""
    p = ctx.p
    from .C13 import API_ROOTS
    roots = [p.get_function(q) for q in API_ROOTS if (PKG + '.' + q) in p.functions or q in p.functions]
    closure_ = set(p.reachable_from(roots)) | set(roots)
    derivers = {f for f in p.functions.values() if f.name in ('ckd', 'derive_path', 'generate_children', 'master_key', 'by_path')}
    reach_deriv = {}

    def derives(fi):
        if fi not in reach_deriv:
            reach_deriv[fi] = bool((set(p.reachable_from([fi])) | {fi}) & derivers)
        return reach_deriv[fi]
    with ctx.obligation(rule, 'exception-discarding constructs in the derivation closure', None, 'btc_hd_wallet/') as ob:
        ctrl = ast.parse(SWALLOW_PLANTED)
        n_ctrl = sum(len(_finally_jumps(f)) + len(_suppressions(f)) for f in ctrl.body if isinstance(f, ast.FunctionDef))
        if n_ctrl < 4:
            ob.undecided('positive control failed: %d of 4 planted constructs recognised' % n_ctrl)
        ob.saw('%d functions in the closure' % len(closure_))
        for fi in sorted(closure_, key=lambda f: f.qual):
            ob.evaluations += 1
            key = fi.qual[len(PKG) + 1:]
            if not derives(fi):
                continue
            for kind, n in _finally_jumps(fi.node):
                ob.require(False, '%s: `%s` inside `finally` discards an exception in flight (an invalid child or a refused index is '
                           'then not reported: the caller gets a value instead)' % (key, kind), '%s:%d' % (fi.module.relpath, n.lineno))
            for kind, n, detail in _suppressions(fi.node):
                if kind == 'suppress':
                    ob.require(False, '%s: contextlib.suppress(%s) around derivation discards the refusal' % (key, ', '.join(detail)),
                               '%s:%d' % (fi.module.relpath, n.lineno))
                else:
                    # a handler that does not re-raise: only a problem when the guarded body derives
                    tr = next(t for t in ast.walk(fi.node) if isinstance(t, ast.Try) and n in t.handlers)
                    inside = {id(x) for s in tr.body for x in ast.walk(s)}
                    callees = set()
                    for cs in p.calls_from(fi):
                        if id(cs.node) in inside:
                            callees |= {t for t in cs.targets if hasattr(t, 'qual') and hasattr(t, 'node') and isinstance(t.node, ast.FunctionDef)}
                    if any(derives(c) for c in callees):
                        ob.require(False, '%s: a handler for %s around a deriving call does not re-raise: the refusal is swallowed'
                                   % (key, ', '.join(detail)), '%s:%d' % (fi.module.relpath, n.lineno))
            # context managers of the package: __exit__ must not be able to return a true value
            for n in ast.walk(fi.node):
                if not isinstance(n, (ast.With, ast.AsyncWith)):
                    continue
                for it in n.items:
                    c = it.context_expr
                    if not (isinstance(c, ast.Call) and isinstance(c.func, (ast.Name, ast.Attribute))):
                        continue
                    r = p.resolve_name(fi.module, c.func.id) if isinstance(c.func, ast.Name) else None
                    if r is None or not hasattr(r, 'find_method'):
                        continue
                    ex = r.find_method('__exit__')
                    if ex is None:
                        continue
                    ev = Evaluator(p, 'ecdsa')
                    me = S('cm', cls=r.qual)
                    args = [me, T.clsref(PKG + '.bip32.InvalidKeyError'), S('exc_value'), S('traceback')]
                    v, _ = ev.call_function(ex.qual[len(PKG) + 1:], args[:len(ex.params)])
                    for leaf in distinct_normal_leaves(v):
                        falsy = leaf in (T.NONE, T.FALSE) or (T.is_const(leaf) and not leaf[1])
                        ob.require(falsy, '%s: the block runs under %s, whose __exit__ can return a true value (%s): Python then '
                                   'discards the exception raised inside the block' % (key, r.name, T.show(leaf, maxdepth=3)),
                                   '%s:%d' % (fi.module.relpath, n.lineno))
