"""C18 — invalid children are reported, never returned (R-GUARD per back end)."""
from __future__ import annotations

from .. import terms as T
from ..evalr import Evaluator
from .common import *

N = T.CURVE_N
ZERO = T.const(0)


def _need_sk_valid(ob, known, key, what, where, notes):
    i = T.int_(key, BIG)
    ob.require(T.lt(i, N) in known,
               '%s: no guard or validating call establishes parse256(key) < n before the value is produced%s'
               % (what, notes), where, expected='fact %s on every non-raising path' % T.show(T.lt(i, N), maxdepth=4),
               found='facts: %s' % sorted(T.show(x, maxdepth=3) for x in known)[:8])
    ob.require(T.not_(T.eq(ZERO, i)) in known,
               '%s: no guard or validating call establishes key != 0 before the value is produced%s' % (what, notes),
               where, expected='fact %s' % T.show(T.not_(T.eq(ZERO, i)), maxdepth=4),
               found='facts: %s' % sorted(T.show(x, maxdepth=3) for x in known)[:8])


def run(ctx):
    p = ctx.p
    ctx.explanation = (
        'R-GUARD on the abstract value of master_key / PrvKeyNode.ckd / PubKeyNode.ckd / bip85.correct_key / '
        'bip85.wif / bip85.xprv, per crypto back end: on every non-raising leaf of the result term the must-facts '
        '(guards whose other arm raises, plus raises-unless contracts of validating library calls) must contain '
        'IL < n and key != 0 (point != infinity on the public side), with the guard subject being the same term '
        'that becomes the key.')
    ctx.not_decided = ['that libsecp256k1 / ecdsa honour their documented raises-unless contracts']
    for be in BACKENDS:
        # ------------------------------------------------------------------ master_key
        fi = p.get_function('bip32.PrvKeyNode.master_key')
        with ctx.obligation('C18.MASTER', 'PrvKeyNode.master_key', be, fi.where) as ob:
            ev = Evaluator(p, be)
            v, f = ev.call_function('bip32.PrvKeyNode.master_key', [T.clsref(PRV), S('seed', type='bytes'),
                                                                    S('testnet', type='bool')])
            nl = normal_leaves(v)
            if not nl:
                ob.undecided('master_key has no non-raising exit', fi.where)
            notes = ''.join(' [note: %s]' % d for d in discarded_exceptions(fi))
            for conds, leaf in nl:
                if T.tag(leaf) != 'obj':
                    ob.undecided('master_key returns a value that is not a constructed node: %s' % T.show(leaf, maxdepth=3))
                    continue
                key = T.obj_fields(leaf)['key']
                require_no_opaque(ob, key, 'master key')
                _need_sk_valid(ob, known_at(f, conds), key, 'master_key', fi.where, notes)
        # ------------------------------------------------------------------ PrvKeyNode.ckd
        fi = p.get_function('bip32.PrvKeyNode.ckd')
        for layout in ('32', '33'):
            with ctx.obligation('C18.CKDPRIV', 'PrvKeyNode.ckd', '%s/key%s' % (be, layout), fi.where) as ob:
                ev = Evaluator(p, be)
                node, k = prv_node(layout)
                v, f = ev.call_function('bip32.PrvKeyNode.ckd', [node, S('i', type='int')])
                nl = normal_leaves(v)
                if not nl:
                    ob.undecided('ckd has no non-raising exit', fi.where)
                notes = ''.join(' [note: %s]' % d for d in discarded_exceptions(fi))
                for conds, leaf in nl:
                    if T.tag(leaf) != 'obj':
                        ob.undecided('ckd returns a value that is not a constructed node')
                        continue
                    key = T.obj_fields(leaf)['key']
                    require_no_opaque(ob, key, 'child key')
                    ils = find_sub(key, is_hmac_left)
                    if not ils:
                        ob.undecided('child key does not contain the left HMAC half: %s' % T.show(key, maxdepth=4))
                        continue
                    known = known_at(f, conds)
                    for il in ils:
                        ob.require(T.lt(T.int_(il, BIG), N) in known,
                                   'PrvKeyNode.ckd: parse256(IL) >= n is not refused before the child is returned'
                                   + notes, fi.where,
                                   expected='fact LT(INT(IL), n) (guard whose arm raises, or a validating call)',
                                   found='facts: %s' % sorted(T.show(x, maxdepth=3) for x in known)[:8])
                    ob.require(T.not_(T.eq(ZERO, T.int_(key, BIG))) in known,
                               'PrvKeyNode.ckd: child key == 0 is not refused before the child is returned' + notes,
                               fi.where, expected='fact NOT(EQ(0, k_i))',
                               found='facts: %s' % sorted(T.show(x, maxdepth=3) for x in known)[:8])
        # ------------------------------------------------------------------ PubKeyNode.ckd
        fi = p.get_function('bip32.PubKeyNode.ckd')
        with ctx.obligation('C18.CKDPUB', 'PubKeyNode.ckd', be, fi.where) as ob:
            ev = Evaluator(p, be)
            node, P = pub_node()
            v, f = ev.call_function('bip32.PubKeyNode.ckd', [node, S('i', type='int')])
            nl = normal_leaves(v)
            if not nl:
                ob.undecided('ckd has no non-raising exit', fi.where)
            notes = ''.join(' [note: %s]' % d for d in discarded_exceptions(fi))
            for conds, leaf in nl:
                if T.tag(leaf) != 'obj':
                    ob.undecided('ckd returns a value that is not a constructed node')
                    continue
                key = T.obj_fields(leaf)['key']
                require_no_opaque(ob, key, 'child key')
                ils = find_sub(key, is_hmac_left)
                if not ils:
                    ob.undecided('child key does not contain the left HMAC half: %s' % T.show(key, maxdepth=4))
                    continue
                known = known_at(f, conds)
                for il in ils:
                    ob.require(T.lt(T.int_(il, BIG), N) in known,
                               'PubKeyNode.ckd: parse256(IL) >= n is not refused before the child is returned' + notes,
                               fi.where, expected='fact LT(INT(IL), n)',
                               found='facts: %s' % sorted(T.show(x, maxdepth=3) for x in known)[:8])
                pt = T.parse_pt(key)
                ob.require(T.not_(T.eq(pt, T.INFINITY)) in known,
                           'PubKeyNode.ckd: point at infinity is not refused before the child is returned' + notes,
                           fi.where, expected='fact NOT(EQ(K_i, INFINITY))',
                           found='facts: %s' % sorted(T.show(x, maxdepth=3) for x in known)[:8])
        # ------------------------------------------------------------------ bip85.correct_key
        fi = p.get_function('bip85.BIP85DeterministicEntropy.correct_key')
        with ctx.obligation('C18.CORRECTKEY', 'BIP85DeterministicEntropy.correct_key', be, fi.where) as ob:
            ev = Evaluator(p, be)
            kb = S('key_bytes', type='bytes', len=32)
            v, f = ev.call_function('bip85.BIP85DeterministicEntropy.correct_key', [kb])
            nl = normal_leaves(v)
            if not nl:
                ob.undecided('correct_key has no non-raising exit')
            notes = ''.join(' [note: %s]' % d for d in discarded_exceptions(fi))
            for conds, leaf in nl:
                _need_sk_valid(ob, known_at(f, conds), kb, 'correct_key', fi.where, notes)
        # ------------------------------------------------------------------ bip85.wif / xprv
        for fn, lo, hi in (('wif', 1, 33), ('xprv', 46, 78)):
            fi = p.get_function('bip85.BIP85DeterministicEntropy.' + fn)
            with ctx.obligation('C18.BIP85', 'BIP85DeterministicEntropy.' + fn, be, fi.where) as ob:
                ev = Evaluator(p, be)
                m, k = master_prv()
                b = T.obj(PKG + '.bip85.BIP85DeterministicEntropy', dict(master_node=m, testnet=S('testnet', type='bool')))
                v, f = ev.call_function('bip85.BIP85DeterministicEntropy.' + fn, [b], {'index': T.const(0)})
                nl = normal_leaves(v)
                if not nl:
                    ob.undecided('%s has no non-raising exit' % fn)
                for conds, leaf in nl:
                    if not (T.is_op(leaf, 'B58ENC')):
                        ob.undecided('%s does not return a Base58 string: %s' % (fn, T.show(leaf, maxdepth=3)))
                        continue
                    payload = leaf[2]
                    key = T.slice_(payload, T.const(lo), T.const(hi))
                    if T.length_of(key) != 32 or T.opaques(key):
                        ob.undecided('cannot locate the 32-byte secret inside the %s payload: %s'
                                     % (fn, T.show(payload, maxdepth=3)))
                        continue
                    _need_sk_valid(ob, known_at(f, conds), key, 'bip85.%s' % fn, fi.where, '')
    # bulk derivation must not bypass what ckd refuses or computes (hardened refusal, invalid-key refusals)
    from .C01 import check_bulk
    check_bulk(ctx, 'C18.BULK(=C01)', kinds=('prv', 'pub'))
