"""C04 — mnemonic sentences encode entropy losslessly (structural clauses)."""
from __future__ import annotations

import ast
import hashlib

from .. import terms as T
from ..evalr import Evaluator, Facts
from .. import externals as X
from .common import *

ENGLISH_SHA256 = '2f5eed53a4727b4bf8880d8f3f199efc90e58503646d9ff8eff3a2ed3b24dbda'   # BIP39 english.txt
PAIRS = ((12, 128), (15, 160), (18, 192), (21, 224), (24, 256))


def spec_sentence(E, nbytes, WL):
    bits = 8 * nbytes
    cs = bits // 32
    ent = T.int_(E, BIG)
    h = T.int_(T.raw_op('SHA256', E), BIG)

    def binstr(x):
        return T.slice_(T.raw_op('BIN', x), T.const(2), T.NONE)
    checksum = T.slice_(T.raw_op('ZFILL', binstr(h), T.const(256)), T.const(0), T.const(cs))
    ec = T.raw_op('ZFILL', T.cat(binstr(ent), checksum), T.const(bits + cs))
    chunks = T.raw_op('REFINDALL', T.const('.' * 11), ec)
    each = T.sym('each0')
    # (comprehensions over comprehensions are composed by the evaluator: one MAP over the 11-bit chunks)
    words = T.raw_op('MAP', each, T.getitem(WL, T.raw_op('INTCAST', each, T.const(2))), chunks, T.TRUE, T.const('list'))
    return T.raw_op('JOIN', T.const(' '), words)


VOCAB = {'BIN', 'ZFILL', 'SLICE', 'CAT', 'REFINDALL', 'INTCAST', 'MAP', 'GETITEM', 'JOIN', 'INT', 'SHA256', 'HEX', 'FROMHEX',
         'LEN', 'MUL'}


def run(ctx):
    p = ctx.p
    ctx.explanation = (
        'Structural clauses of BIP39 encoding: the embedded word list literal is parsed (not imported) and must have '
        '2048 sorted unique entries whose newline-joined SHA-256 is the published digest of english.txt; '
        'mnemonic_from_entropy\'s sentence must be dominated by a membership guard entropy_bits in {128,...,256} whose '
        'subject is derived from the decoded bytes (not from the hex text); the size tables fold to the BIP39 pairs and '
        '(ENT + ENT/32)/11 = words through the repository\'s own checksum_length/mnemonic_sentence_length; for each '
        'legal size the straight-line bit-string assembly must be the specification term (left-pad of the digest to '
        '256, ENT/32-bit prefix, left-pad of the concatenation to ENT+CS, 11-bit split, base-2 index, list lookup, '
        'single-space join); from_entropy_hex and BIP85 reach sentences only through mnemonic_from_entropy.')
    ctx.not_decided = ['that the straight-line bit-string operations compute the intended bits on concrete values is argued '
                       'from the specification term, not executed; decoding direction is not implemented by the library']
    mi = p.get_module('bip39_wordlist')
    with ctx.obligation('C04.LIST', 'bip39_wordlist.word_list', None, mi.relpath) as ob:
        nodes = mi.assigns.get('word_list')
        if not nodes:
            raise AnalysisError('C04.LIST', 'word_list literal not found')
        try:
            words = ast.literal_eval(nodes[-1])
        except Exception as e:
            raise AnalysisError('C04.LIST', 'word_list is not a literal: %s' % e)
        ob.require(isinstance(words, list) and len(words) == 2048, 'the list has 2048 words', mi.relpath,
                   found=len(words) if isinstance(words, list) else type(words).__name__)
        ob.require(all(isinstance(w, str) for w in words) and len(set(words)) == len(words), 'words are unique strings', mi.relpath)
        ob.require(list(words) == sorted(words), 'words are in the official (sorted) order', mi.relpath)
        dig = hashlib.sha256(('\n'.join(words) + '\n').encode()).hexdigest()
        ob.require(dig == ENGLISH_SHA256, 'the word list differs from the official BIP39 English list (digest of the newline-joined '
                   'list)', mi.relpath, expected=ENGLISH_SHA256, found=dig)
    ev = Evaluator(p, 'ecdsa')
    WL = ev.module_const('bip39_wordlist', 'word_list')
    fme = p.get_function('bip39.mnemonic_from_entropy')
    with ctx.obligation('C04.SIZE', 'bip39.mnemonic_from_entropy', None, fme.where) as ob:
        e = S('entropy', type='str')
        v, f = ev.call_function('bip39.mnemonic_from_entropy', [e])
        nl = normal_leaves(v)
        ob.require(len(nl) >= 1, 'a sentence can be produced', fme.where)
        nbytes = T.len_(X.fromhex(e))
        for cs, leaf in nl:
            known = known_at(f, cs)
            ok = False
            textual = False
            for k in known:
                if not T.is_op(k, 'OR'):
                    continue
                subj, consts = set(), set()
                for d in k[2:]:
                    if T.is_op(d, 'EQ') and T.is_const(d[2]):
                        consts.add(d[2][1])
                        subj.add(d[3])
                if len(subj) != 1:
                    continue
                sb = next(iter(subj))
                if (sb == T.mul(T.const(8), nbytes) and consts == {128, 160, 192, 224, 256}) or \
                        (sb == nbytes and consts == {16, 20, 24, 28, 32}):
                    ok = True
                elif T.contains(sb, lambda x: x == T.len_(e)):
                    textual = True
            if not ok and not textual:
                # the guard may be written in a form that leaves no disjunctive fact (a table look-up that raises, a helper
                # that translates KeyError): decided semantically - with the decoded size known to be none of the five,
                # every path must refuse
                facts_no = Facts()
                for b_ in (128, 160, 192, 224, 256):
                    facts_no = facts_no.add(T.not_(T.eq(T.const(b_), T.mul(T.const(8), nbytes)))).add(T.not_(T.eq(T.const(b_ // 8), nbytes)))
                v_no, _ = Evaluator(p, 'ecdsa').call_function('bip39.mnemonic_from_entropy', [e], facts=facts_no)
                lv = [x for _, x in leaves(v_no, (), set(facts_no))]
                if lv and all(T.tag(x) == 'raise' for x in lv):
                    ok = True
                    ob.note('size guard decided semantically: with the decoded size outside the five sizes every path raises')
                else:
                    # a function that normalises its text first (white space, 0x prefix) measures the bytes of the
                    # normalised text: decided on canonical hex text HEX(b), where normalisation is the identity
                    Eb = S('E', type='bytes')
                    nb2 = T.len_(Eb)
                    facts2 = Facts()
                    for b_ in (128, 160, 192, 224, 256):
                        facts2 = facts2.add(T.not_(T.eq(T.const(b_), T.mul(T.const(8), nb2)))).add(T.not_(T.eq(T.const(b_ // 8), nb2)))
                    v2, _ = Evaluator(p, 'ecdsa').call_function('bip39.mnemonic_from_entropy', [T.raw_op('HEX', Eb)], facts=facts2)
                    lv2 = [x for _, x in leaves(v2, (), set(facts2))]
                    if lv2 and all(T.tag(x) == 'raise' for x in lv2):
                        ok = True
                        ob.note('size guard decided on canonical hex text: with a decoded size outside the five sizes every path raises')
            ob.require(ok, 'a sentence is produced without the entropy size having been checked against {128,160,192,224,256} bits'
                       + (' (the only size guard is computed from the hex text, which bytes.fromhex does not map 1:1 to bytes)'
                          if textual else '') + ': 17 bytes give 12 words with 8 entropy bits dropped, "00 "*16 gives 18 words',
                       fme.where, expected='guard-raise on len(decoded bytes)*8 in CORRECT_ENTROPY_BITS dominating the sentence',
                       found=sorted(T.show(k, maxdepth=3) for k in known)[:5])
    with ctx.obligation('C04.TABLES', 'bip39 size tables', None, 'btc_hd_wallet/bip39.py') as ob:
        def as_list(v):
            # the tables are sequences of sizes: a tuple (or a constant tuple) holds the same sizes as a list
            if T.tag(v) == 'tuple':
                return T.lst(list(v[1]))
            if T.is_const(v) and isinstance(v[1], tuple):
                return T.lst([T.const(x) for x in v[1]])
            return v
        same_term(ob, as_list(ev.module_const('bip39', 'CORRECT_ENTROPY_BITS')), T.lst([T.const(b) for _, b in PAIRS]), 'CORRECT_ENTROPY_BITS',
                  'btc_hd_wallet/bip39.py')
        same_term(ob, as_list(ev.module_const('bip39', 'CORRECT_MNEMONIC_LENGTH')), T.lst([T.const(w) for w, _ in PAIRS]),
                  'CORRECT_MNEMONIC_LENGTH', 'btc_hd_wallet/bip39.py')
        same_term(ob, ev.module_const('bip39', 'MNEMONIC_LENGTH_TO_ENTROPY_BITS'),
                  T.dct([(T.const(w), T.const(b)) for w, b in PAIRS]), 'MNEMONIC_LENGTH_TO_ENTROPY_BITS', 'btc_hd_wallet/bip39.py')
        for w, b in PAIRS:
            v, _ = ev.call_function('bip39.checksum_length', [T.const(b)])
            same_term(ob, v, T.const(b // 32), 'checksum_length(%d)' % b, p.get_function('bip39.checksum_length').where)
            v, _ = ev.call_function('bip39.mnemonic_sentence_length', [T.const(b)])
            same_term(ob, v, T.const(w), 'mnemonic_sentence_length(%d)' % b, p.get_function('bip39.mnemonic_sentence_length').where)
            v, _ = ev.call_function('bip39.correct_entropy_bits_value', [T.const(b)])
            ob.require(not any(T.tag(x) == 'raise' for _, x in leaves(v)), '%d bits is accepted' % b, 'btc_hd_wallet/bip39.py')
        x = S('bits', type='int')
        facts = Facts()
        for _, b in PAIRS:
            facts = facts.add(T.not_(T.eq(T.const(b), x)))
        v, _ = ev.call_function('bip39.correct_entropy_bits_value', [x], facts=facts)
        ob.require(all(T.tag(l) == 'raise' for _, l in leaves(v)), 'any other bit count is refused by correct_entropy_bits_value',
                   'btc_hd_wallet/bip39.py')
        ob.require(T.tag(WL) == 'list' and len(WL[1]) == 2 ** 11, 'word list length is 2^11 (one word per 11-bit index)', mi.relpath)
    for w, b in PAIRS:
        with ctx.obligation('C04.PAD', 'bip39.mnemonic_from_entropy', 'ENT=%d' % b, fme.where) as ob:
            E = S('E', type='bytes', len=b // 8)
            v, f = ev.call_function('bip39.mnemonic_from_entropy', [T.raw_op('HEX', E)])
            nl = normal_leaves(v)
            ob.require(len(nl) >= 1, '%d-bit entropy yields a sentence' % b, fme.where)
            from .. import bits as BV
            for cs, leaf in nl:
                # both sides in bit-field normal form: which bits of which integer make up each 11-bit index, whether
                # they were selected on strings of '0'/'1' or with shifts and masks
                same_term(ob, BV.normalize(leaf), BV.normalize(spec_sentence(E, b // 8, WL)),
                          'bit assembly of a %d-bit entropy (%d words): index i = bits [11i, 11i+11) of entropy || first ENT/32 bits of SHA-256'
                          % (b, w), fme.where, vocab=VOCAB | {'BVINT'})
    # the wallet entry point hands the caller's hex text to the encoder unchanged and keeps the sentence it got
    ffe = p.get_function('base_wallet.BaseWallet.from_entropy_hex')
    with ctx.obligation('C04.PASS', 'BaseWallet.from_entropy_hex', None, ffe.where) as ob:
        summ = dict(X.DEFAULT_SUMMARIES)
        summ['bip39.mnemonic_from_entropy'] = lambda ev_, fi, env, facts: (T.raw_op('MNEMONIC', env[fi.params[0]]), facts)
        T.STR_OPS.add('MNEMONIC')
        for cls in ('base_wallet.BaseWallet', 'paper_wallet.PaperWallet'):
            e2 = Evaluator(p, 'ecdsa', summaries=summ)
            hx = S('entropy_hex', type='str')
            v, f = e2.call_function('base_wallet.BaseWallet.from_entropy_hex', [T.clsref(PKG + '.' + cls), hx, S('password', type='str'),
                                                                                S('testnet', type='bool')])
            for leaf in distinct_normal_leaves(v):
                mn = T.obj_fields(leaf).get('mnemonic') if T.tag(leaf) == 'obj' else None
                same_term(ob, mn, T.raw_op('MNEMONIC', hx), '%s.from_entropy_hex(h).mnemonic is mnemonic_from_entropy(h) for the caller\'s h, '
                          'unchanged' % cls.split('.')[-1], ffe.where)
    # the random path refuses every bit count outside the five sizes as well (shared with C08.AMOUNT)
    fbits = p.get_function('bip39.mnemonic_from_entropy_bits')
    with ctx.obligation('C04.BITS', 'bip39.mnemonic_from_entropy_bits', None, fbits.where) as ob:
        x = S('bits', type='int')
        facts = Facts()
        for _, b in PAIRS:
            facts = facts.add(T.not_(T.eq(T.const(b), x)))
        v, _ = ev.call_function('bip39.mnemonic_from_entropy_bits', [x], facts=facts)
        ob.require(all(T.tag(l) == 'raise' for l in distinct_leaves(v)),
                   'mnemonic_from_entropy_bits produces a sentence for a bit count outside {128,160,192,224,256} (e.g. 135 bits are '
                   'silently floored to 16 bytes)', fbits.where, found=T.show(v, maxdepth=3))
    with ctx.obligation('C04.CALLERS', 'sentence producers', None, fme.where) as ob:
        for q in ('base_wallet.BaseWallet.from_entropy_hex', 'bip85.BIP85DeterministicEntropy.bip39_mnemonic',
                  'bip39.mnemonic_from_entropy_bits'):
            fi = p.get_function(q)
            ob.require(any(fme in cs.targets for cs in p.calls_from(fi)), '%s does not build its sentence through mnemonic_from_entropy' % q,
                       fi.where)
        users = {cs.caller.qual for cs in p.build_callgraph() if cs.caller is not None and
                 isinstance(cs.node.func, ast.Name) and False}
        # the word list is turned into sentences only by mnemonic_from_entropy: no function that the sentence-generating
        # entry points can reach (outside bip39) touches the list or a table derived from it.  (Other uses - e.g. a CLI
        # validator that looks words up - are not sentence generation and are outside this property.)
        roots = [p.get_function(q) for q in ('base_wallet.BaseWallet.from_entropy_hex', 'base_wallet.BaseWallet.from_entropy_bits',
                                             'base_wallet.BaseWallet.new_wallet', 'bip85.BIP85DeterministicEntropy.bip39_mnemonic',
                                             'bip39.mnemonic_from_entropy_bits', 'bip39.mnemonic_from_entropy')]
        reach = p.reachable_from(roots)
        for m in p.modules.values():
            if m.name.endswith('bip39') or m.name.endswith('bip39_wordlist'):
                continue
            if 'word_list' not in m.imports:
                ob.evaluations += 1
                continue
            derived = {'word_list'}
            for nm, nodes in m.assigns.items():
                if any(isinstance(x, ast.Name) and x.id in derived for nd in nodes for x in ast.walk(nd)):
                    derived.add(nm)
            for fi in p.functions.values():
                if fi.module is not m:
                    continue
                uses = any(isinstance(x, ast.Name) and x.id in derived for x in ast.walk(fi.node))
                ob.require(not (uses and fi in reach),
                           '%s is reachable from the sentence-generating entry points and uses the word list directly '
                           '(sentences must be built by mnemonic_from_entropy only)' % fi.qual[len(PKG) + 1:], fi.where)
