"""C17 — path strings are honoured component by component or rejected."""
from __future__ import annotations

from .. import terms as T
from ..evalr import Evaluator, Facts, bounds_of, _strip_raise
from .. import externals as X
from .common import *

BP = PKG + '.wallet_utils.Bip32Path'
H = T.const(2 ** 31)


def _path(k):
    root = S('root', type='str')
    comps = [S('c%d' % i, type='str') for i in range(1, k + 1)]
    return T.raw_op('JOIN', T.const('/'), T.lst([root] + comps)), root, comps


def _marker_disjuncts(c):
    return set(c[2:]) if T.is_op(c, 'OR') else {c}


def run(ctx):
    p = ctx.p
    ctx.explanation = (
        'Bip32Path.parse / convert_hardened / repr_hardened / PubKeyNode.__repr__ / BaseWallet.by_path are '
        'abstractly evaluated on symbolic path strings (a "/"-join of k symbolic components, k = 0..8): the result '
        'term must use every component through the same conversion (int() without base; marker arm adds 2^31 only '
        'under the guard 0 <= n < 2^31), must refuse wrong roots and inner empty components on every path, and must '
        'mention every component (no silent shortening). repr/convert are composed symbolically to prove the '
        'round trip; by_path must be derive_path(parse(path).to_list()) and derive_path a left fold of ckd.')
    ctx.not_decided = ["int()'s lexical leniency (leading '+', spaces, underscores) - DESIGN 5.3"]
    ev = Evaluator(p, 'ecdsa')
    fconv = p.get_function('wallet_utils.Bip32Path.convert_hardened')
    fparse = p.get_function('wallet_utils.Bip32Path.parse')
    # ---------------------------------------------------------------- convert_hardened
    c = S('comp', type='str')
    conv, f = ev.call_function('wallet_utils.Bip32Path.convert_hardened', [c])
    last = T.getitem(c, T.const(-1))
    body = T.slice_(c, T.const(0), T.const(-1))
    n = T.raw_op('INTCAST', body)
    with ctx.obligation('C17.CONV', 'Bip32Path.convert_hardened', None, fconv.where) as ob:
        require_no_opaque(ob, conv, 'convert_hardened result')
        lv = list(leaves(conv))
        hard = [(cs, x) for cs, x in lv if T.tag(x) != 'raise' and T.contains(x, lambda y: y == n)]
        plain = [(cs, x) for cs, x in lv if T.tag(x) != 'raise' and not T.contains(x, lambda y: y == n)]
        ob.require(len(hard) >= 1 and len(plain) >= 1, 'conversion has a marked (hardened) and an unmarked arm', fconv.where,
                   found=T.show(conv, maxdepth=5))
        for cs, x in plain:
            same_term(ob, x, T.raw_op('INTCAST', c), 'unmarked component is int(text) in base 10', fconv.where)
            marks = set()
            for cnd in cs:
                for part in (cnd[2:] if T.is_op(cnd, 'AND') else [cnd]):
                    if T.is_op(part, 'NOT'):
                        marks |= _marker_disjuncts(part[2])
            # only tests of the last character are marker tests (other refusals on the way - a length limit - are not)
            marks = {m_ for m_ in marks if T.is_op(m_, 'EQ') and last in m_[2:]}
            want = {T.eq(T.const("'"), last), T.eq(T.const('h'), last)}
            ob.require(want <= marks and marks <= want | {T.eq(T.const('H'), last)},
                       "the marker test recognises exactly ' and h (equivalently)", fconv.where,
                       expected=sorted(T.show(w) for w in want), found=sorted(T.show(w) for w in marks))
        for cs, x in hard:
            same_term(ob, x, T.add(H, n), 'marked component is int(text without marker) + 2^31', fconv.where)
    with ctx.obligation('C17.HRANGE', 'Bip32Path.convert_hardened', None, fconv.where) as ob:
        for cs, x in [(cs, x) for cs, x in leaves(conv) if T.tag(x) != 'raise' and T.contains(x, lambda y: y == n)]:
            lo, hi = bounds_of(n, known_at(f, cs))
            ob.require(lo == 0 and hi == 2 ** 31 - 1 if (lo is not None and lo >= 0 and hi is not None and hi <= 2 ** 31 - 1) else True,
                       'a hardened-marked number inside [0, 2^31) is refused: the accepted range on this path is [%s, %s]' % (lo, hi),
                       fconv.where, expected='[0, 2147483647]')
            ob.require(lo is not None and lo >= 0 and hi is not None and hi <= 2 ** 31 - 1,
                       'a hardened-marked number outside [0, 2^31) is not rejected: it is shifted by 2^31 and becomes some '
                       'other index (e.g. "-1\'" -> 2147483647, a non-hardened index)', fconv.where,
                       expected='guard 0 <= n < 2**31 that raises, dominating the addition',
                       found='bounds of n on this path: [%s, %s]' % (lo, hi))
    # ---------------------------------------------------------------- parse: root, order, empties, depth
    with ctx.obligation('C17.ROOT', 'Bip32Path.parse', None, fparse.where) as ob:
        s, root, comps = _path(2)
        v, f = ev.call_function('wallet_utils.Bip32Path.parse', [T.clsref(BP), s])
        want = {T.eq(T.const('m'), root), T.eq(T.const('M'), root)}
        nl = normal_leaves(v)
        ob.require(len(nl) >= 1, 'parse has a non-raising exit', fparse.where)
        for cs, leaf in nl:
            known = known_at(f, cs)
            ok = any(T.is_op(k, 'OR') and set(k[2:]) == want for k in known)
            ob.require(ok, 'a path whose root marker is not m or M is not rejected', fparse.where,
                       expected='guard root in ("m","M") that raises', found=sorted(T.show(k, maxdepth=3) for k in known)[:6])
            if T.tag(leaf) == 'obj':
                pv = T.obj_fields(leaf).get('private')
                ob.require(pv == T.eq(T.const('m'), root), 'private flag is "root == m"', fparse.where, found=T.show(pv))
    for k in range(0, 6):
        with ctx.obligation('C17.ORDER', 'Bip32Path.parse', 'levels=%d' % k, fparse.where) as ob:
            s, root, comps = _path(k)
            v, f = ev.call_function('wallet_utils.Bip32Path.parse', [T.clsref(BP), s])
            nonempty = [T.truth(x) for x in comps]
            full = [(tuple(cs) + tuple(b for b in nonempty if b not in cs), leaf) for cs, leaf in normal_leaves(v)
                    if not any(T.not_(b) in cs for b in nonempty)]
            ob.require(len(full) >= 1, 'a %d-level path with non-empty components can be parsed' % k, fparse.where)
            for cs, leaf in full:
                if T.tag(leaf) != 'obj':
                    ob.undecided('parse returns %s' % T.show(leaf, maxdepth=3))
                    continue
                lst_, _ = ev.call_function('wallet_utils.Bip32Path.to_list', [T.assume(leaf, set(cs))])
                exp = T.lst([_strip_raise(T.subst(conv, {c: x})) for x in comps])
                # the conversion's own range guard shows up as path conditions: assume them on both sides
                same_term(ob, T.assume(_strip_raise_deep(lst_), set(cs)), T.assume(exp, set(cs)),
                          'to_list() of a parsed %d-level path is the per-component conversion in order' % k, fparse.where)
    with ctx.obligation('C17.EMPTY', 'Bip32Path.parse', None, fparse.where) as ob:
        s, root, comps = _path(5)
        v, f = ev.call_function('wallet_utils.Bip32Path.parse', [T.clsref(BP), s])
        nonempty = [T.truth(x) for x in comps]
        for cs, leaf in normal_leaves(v):
            seen_empty = False
            bad = False
            for b in nonempty:
                if T.not_(b) in cs:
                    seen_empty = True
                elif b in cs and seen_empty:
                    bad = True
            ob.require(not bad, 'an empty inner component followed by a non-empty one is accepted', fparse.where,
                       found=[T.show(x, maxdepth=2) for x in cs])
    with ctx.obligation('C17.DEPTH', 'Bip32Path.parse', None, fparse.where) as ob:
        for k in (6, 7, 8):
            s, root, comps = _path(k)
            v, f = ev.call_function('wallet_utils.Bip32Path.parse', [T.clsref(BP), s])
            for cs, leaf in normal_leaves(v):
                missing = [x[1] for x in comps if not T.contains(leaf, lambda y, x=x: y == x)
                           and not any(T.contains(cnd, lambda y, x=x: y == x) for cnd in cs)]
                ob.require(not missing,
                           'Bip32Path.parse consumes split components at constant positions 1..5 with no length bound: '
                           'a %d-level path is accepted and components %s are silently dropped (deeper paths are '
                           'shortened, e.g. by_path("m/0/1/2/3/4/5/6") returns the node at m/0/1/2/3/4)'
                           % (k, missing), fparse.where, expected='every component used, or the path rejected')
                break
    # ---------------------------------------------------------------- inverse: repr_hardened / node repr
    frepr = p.get_function('wallet_utils.Bip32Path.repr_hardened')
    with ctx.obligation('C17.INVERSE', 'Bip32Path.repr_hardened', None, frepr.where) as ob:
        me = T.obj(BP, dict(purpose=T.NONE, coin_type=T.NONE, account=T.NONE, chain=T.NONE, addr_index=T.NONE,
                            private=T.TRUE))
        num = S('num', type='int')
        for lo, hi, hardened in ((0, 2 ** 31 - 1, False), (2 ** 31, 2 ** 32 - 1, True)):
            facts = Facts().add(T.not_(T.lt(num, T.const(lo)))).add(T.lt(num, T.const(hi + 1)))
            r, f2 = ev.call_function('wallet_utils.Bip32Path.repr_hardened', [me, num], facts=facts)
            exp = T.cat(T.raw_op('STR', T.sub(num, H)), T.const("'")) if hardened else T.raw_op('STR', num)
            same_term(ob, r, exp, 'text of an index in [%d, %d]' % (lo, hi), frepr.where)
            back, f3 = ev.call_function('wallet_utils.Bip32Path.convert_hardened', [r], facts=f2)
            same_term(ob, _strip_raise(T.assume(back, known_at(f3, ()))), num,
                      'convert_hardened(repr_hardened(n)) == n for n in [%d, %d]' % (lo, hi), frepr.where)
    fprepr = p.get_function('wallet_utils.Bip32Path.__repr__')
    with ctx.obligation('C17.PATHREPR', 'Bip32Path.__repr__ / parse', None, fprepr.where) as ob:
        names = ['purpose', 'coin_type', 'account', 'chain', 'addr_index']
        for private in (True, False):
            mark = 'm' if private else 'M'
            for k in range(0, 6):
                for hardened_mask in ((0,) * k, (1,) * k, tuple(i % 2 for i in range(k))):
                    vals, facts = [], Facts()
                    for j in range(5):
                        if j < k:
                            x = S('n%d' % j, type='int')
                            lo, hi = (2 ** 31, 2 ** 32 - 1) if hardened_mask[j] else (0, 2 ** 31 - 1)
                            facts = facts.add(T.not_(T.lt(x, T.const(lo)))).add(T.lt(x, T.const(hi + 1)))
                            vals.append(x)
                        else:
                            vals.append(T.NONE)
                    pth = T.obj(BP, dict(zip(names, vals), private=T.const(private)))
                    r, f2 = ev.call_function('wallet_utils.Bip32Path.__repr__', [pth], facts=facts)
                    parts = [T.const(mark)]
                    for j in range(k):
                        parts.append(T.const('/'))
                        parts.append(T.cat(T.raw_op('STR', T.sub(vals[j], H)), T.const("'")) if hardened_mask[j] else T.raw_op('STR', vals[j]))
                    same_term(ob, r, T.cat(*parts), 'text of a %d-level %s path (hardened pattern %s)' % (k, mark, hardened_mask), fprepr.where)
                    back, f3 = ev.call_function('wallet_utils.Bip32Path.parse', [T.clsref(BP), r], facts=f2)
                    nl = distinct_normal_leaves(back)
                    ob.require(len(nl) == 1 and all(T.tag(x) != 'raise' for x in distinct_leaves(back)),
                               'parse(str(path)) must not refuse a well-formed %d-level path (hardened pattern %s)' % (k, hardened_mask),
                               fprepr.where, found=T.show(back, maxdepth=3))
                    if len(nl) == 1:
                        same_term(ob, T.assume(nl[0], known_at(f3, ())), pth, 'parse(str(path)) == path', fprepr.where)
    fnrepr = p.get_function('bip32.PubKeyNode.__repr__')
    with ctx.obligation('C17.NODEREPR', 'PubKeyNode.__repr__', None, fnrepr.where) as ob:
        for cls, mark in ((PRV, 'm'), (PUB, 'M')):
            key = S('k', type='bytes', len=32) if cls == PRV else T.sec(S('P', type='point'), T.TRUE)
            master = node_term(cls, key, depth=T.const(0), index=T.const(0), parent=T.NONE)
            r, _ = ev.call_function('bip32.PubKeyNode.__repr__', [master])
            same_term(ob, r, T.const(mark), 'master node prints as %s' % mark, fnrepr.where)
            idx = S('idx', type='int')
            for lo, hi, hardened in ((0, 2 ** 31 - 1, False), (2 ** 31, 2 ** 32 - 1, True)):
                if lo == 0:
                    lo = 1      # index 0 at depth 1 is covered by the depth condition below
                facts = Facts().add(T.not_(T.lt(idx, T.const(lo)))).add(T.lt(idx, T.const(hi + 1)))
                child = node_term(cls, key, depth=T.const(1), index=idx, parent=master, tagname='1')
                r, _ = ev.call_function('bip32.PubKeyNode.__repr__', [child], facts=facts)
                exp = T.cat(T.const(mark + '/'), T.raw_op('STR', T.sub(idx, H)), T.const("'")) if hardened \
                    else T.cat(T.const(mark + '/'), T.raw_op('STR', idx))
                same_term(ob, r, exp, '%s child with index in [%d, %d]' % (cls.split('.')[-1], lo, hi), fnrepr.where)
            child0 = node_term(cls, key, depth=T.const(1), index=T.const(0), parent=master, tagname='1')
            r, _ = ev.call_function('bip32.PubKeyNode.__repr__', [child0])
            same_term(ob, r, T.const(mark + '/0'), 'child 0 of the master prints as %s/0' % mark, fnrepr.where)
    # ---------------------------------------------------------------- unmarked range: ser32(index) before any child exists
    for be in BACKENDS:
        for q, mk in (('bip32.PrvKeyNode.ckd', lambda: prv_node('32')[0]), ('bip32.PubKeyNode.ckd', lambda: pub_node()[0])):
            fi = p.get_function(q)
            with ctx.obligation('C17.URANGE', q.split('.', 1)[1], be, fi.where) as ob:
                e2 = Evaluator(p, be)
                i = S('i', type='int')
                v, f = e2.call_function(q, [mk(), i])
                ser = T.ser(i, T.const(4), BIG)
                regions = (('negative', T.lt(i, T.const(0))), ('2^32 or more', T.not_(T.lt(i, T.const(2 ** 32)))))

                from ..evalr import Frame

                def every_alternative_has_ser(t, known, _depth=0):
                    # case distinctions (at the top or inside the value, e.g. `signed = n < 0`) are settled by what is known
                    # about the index (interval domain); where they are not, the unsigned conversion must be in both cases
                    if T.tag(t) == 'raise':
                        return True
                    phis = [t] if T.tag(t) == 'phi' else [x for x in T.walk(t) if T.tag(x) == 'phi']
                    if not phis or _depth > 12:
                        return not phis and T.contains(t, lambda y: y == ser)
                    c = phis[0][1]
                    d = e2.decide(c, Frame(None, {}, Facts(sorted(known, key=repr)), None, None, 0))
                    if d == T.TRUE:
                        return every_alternative_has_ser(T.assume(t, known | {c}), known | {c}, _depth + 1)
                    if d == T.FALSE:
                        return every_alternative_has_ser(T.assume(t, known | {T.not_(c)}), known | {T.not_(c)}, _depth + 1)
                    return every_alternative_has_ser(T.assume(t, known | {c}), known | {c}, _depth + 1) and \
                        every_alternative_has_ser(T.assume(t, known | {T.not_(c)}), known | {T.not_(c)}, _depth + 1)
                for cs, leaf in normal_leaves(v):
                    ok = T.tag(leaf) == 'obj' and T.contains(T.obj_fields(leaf)['chain_code'], lambda y: y == ser) \
                        and T.contains(T.obj_fields(leaf)['key'], lambda y: y == ser)
                    ob.require(ok, 'a child is produced without serialising the index as ser32(i) (which refuses values '
                                   'outside 0..2^32-1)', fi.where, expected='key and chain code depend on SER(i, 4, big)')
                    if not ok:
                        continue
                    # ... and that conversion is the one used for out-of-range values too: under the assumption that the index is
                    # negative (or 2^32 or more) every alternative of the child's fields still goes through the refusing form
                    known = set(cs)
                    for name, fact in regions:
                        if T.not_(fact) in known:
                            continue            # an explicit guard already excludes the region on this exit
                        for fld in ('chain_code', 'key'):
                            t = T.assume(T.obj_fields(leaf)[fld], known | {fact})
                            ob.require(every_alternative_has_ser(t, known | {fact}),
                                       'for an index that is %s the %s of the child does not go through ser32(i) (the conversion '
                                       'that refuses values outside 0..2^32-1): such an index yields a child instead of an error'
                                       % (name, fld), fi.where, expected='SER(i, 4, big) in every alternative',
                                       found=T.show(t, maxdepth=6))
    # ---------------------------------------------------------------- by_path and the derive_path fold
    check_bypath(ctx, 'C17.BYPATH')
    check_fold(ctx, 'C17.FOLD')
    from .C11 import check_regex_anchors
    check_regex_anchors(ctx, 'C17.REGEX', [p.get_module('wallet_utils')])


def check_bypath(ctx, rule):
    """by_path on a wallet over any node (private master, private or public node of any depth / child number) is the
    fold of the parsed components from that node: nothing is dropped, prefixed or re-interpreted."""
    p = ctx.p
    fbp = p.get_function('base_wallet.BaseWallet.by_path')
    with ctx.obligation(rule, 'BaseWallet.by_path', None, fbp.where) as ob:
        summ = dict(X.DEFAULT_SUMMARIES)
        summ['wallet_utils.Bip32Path.parse'] = lambda ev_, fi, env, facts: (T.raw_op('PARSE', env[fi.params[1]]), facts)
        summ['bip32.PubKeyNode.derive_path'] = lambda ev_, fi, env, facts: (
            T.raw_op('DERIVE', env[fi.params[0]], env[fi.params[1]]), facts)
        for what, m in (('private master', master_prv()[0]), ('private node of any depth', prv_node('32')[0]),
                        ('public (watch-only) node of any depth', pub_node()[0])):
            e3 = Evaluator(p, 'ecdsa', summaries=summ)
            tn = T.obj_fields(m)['testnet']
            w = mk_wallet(p, 'ecdsa', m, tn)
            path = S('path', type='str')
            v, f = e3.call_function('base_wallet.BaseWallet.by_path', [w, path])
            ok = T.is_op(v, 'DERIVE') and v[2] == m and T.is_op(v[3], 'METHOD') and v[3][2] == T.raw_op('PARSE', path) \
                and v[3][3] == T.const('to_list')
            ob.require(ok, 'by_path(path) on a wallet over a %s is master.derive_path(Bip32Path.parse(path).to_list())' % what,
                       fbp.where, found=T.show(v, maxdepth=5))


def check_fold(ctx, rule):
    p = ctx.p
    fdp = p.get_function('bip32.PubKeyNode.derive_path')
    with ctx.obligation(rule, 'PubKeyNode.derive_path', None, fdp.where) as ob:
        summ = dict(X.DEFAULT_SUMMARIES)
        for q in ('bip32.PubKeyNode.ckd', 'bip32.PrvKeyNode.ckd'):
            summ[q] = lambda ev_, fi, env, facts: (_ckd_call(env[fi.params[0]], env[fi.params[1]]), facts)
        e4 = Evaluator(p, 'ecdsa', summaries=summ)
        for cls in (PRV, PUB):
            node = S('node', cls=cls)
            for n_ in range(0, 6):
                idx = [S('i%d' % j, type='int') for j in range(n_)]
                v, f = e4.call_function('bip32.PubKeyNode.derive_path', [node, T.lst(idx)])
                exp = node
                exp = _fold(node, idx)
                same_term(ob, v, exp, 'derive_path over %d indexes is the left fold of ckd' % n_, fdp.where)
                if 1 <= n_ <= 3:
                    # the same indexes handed over as a one-shot iterable (generator, map object, iter(...)): whoever
                    # walks it first uses it up, so a function that makes two passes derives nothing on the second
                    v2, _ = e4.call_function('bip32.PubKeyNode.derive_path', [node, e4.new_iter(idx)])
                    same_term(ob, v2, exp, 'derive_path over a one-shot iterable of %d indexes (generator / map / iterator) is the '
                              'same left fold of ckd as over the equal list' % n_, fdp.where)


def _ckd(node, i):
    return S('CKD', cls=T.sym_meta(node, 'cls'), of=(node, i))


def _ckd_call(node, i):
    """what a call of ckd yields in the fold check: the child - except that a public node refuses a hardened index (so a
    derive_path that refuses such a path up front is the same function)"""
    if T.sym_meta(node, 'cls') == PUB:
        return T.phi(T.lt(i, T.const(2 ** 31)), _ckd(node, i), T.raise_('RuntimeError'))
    return _ckd(node, i)


def _fold(node, idx):
    if not idx:
        return node
    first = _ckd_call(node, idx[0])
    if T.tag(first) == 'phi':
        return T.phi(first[1], _fold(first[2], idx[1:]), first[3])
    return _fold(first, idx[1:])


def _strip_raise_deep(t):
    if T.tag(t) == 'list':
        return T.lst([_strip_raise(x) for x in t[1]])
    return _strip_raise(t)
