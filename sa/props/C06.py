"""C06 — paper-wallet records are mutually consistent and follow BIP44/49/84."""
from __future__ import annotations

import ast

from .. import terms as T
from ..evalr import Evaluator, Facts, _strip_raise
from ..spec import bip32 as SP
from ..spec import slip132
from ..spec import base58 as B58
from .common import *
from .C05 import expected_addresses
from .C15 import paper_wallet, flatten, generate_shape

H = 2 ** 31
PURPOSES = (('BIP44', 44, 'p2pkh_address'), ('BIP49', 49, 'p2sh_p2wpkh_address'), ('BIP84', 84, 'p2wpkh_address'))


def hardened(k, c, ix):
    I = SP.hmac512(c, T.cat(T.const(b'\x00'), k, SP.ser32(ix)))
    return T.sk_add(T.slice_(I, T.const(0), T.const(32)), k), T.slice_(I, T.const(32), T.const(64))


def normal(k, c, ix):
    I = SP.hmac512(c, T.cat(T.sec(T.pt(k), T.TRUE), SP.ser32(ix)))
    return T.sk_add(T.slice_(I, T.const(0), T.const(32)), k), T.slice_(I, T.const(32), T.const(64))


def index_text(ix):
    return T.phi(T.lt(ix, T.const(H)), T.raw_op('STR', ix), T.cat(T.raw_op('STR', T.sub(ix, T.const(H))), T.const("'")))


def spec_record(k, c, purpose, tn, acct, addr_kind):
    """Specification of one BIPxx record of generate() for master (k, c) on network tn."""
    coin = 1 if tn else 0
    k1, c1 = hardened(k, c, T.const(purpose + H))
    k2, c2 = hardened(k1, c1, T.const(coin + H))
    k3, c3 = hardened(k2, c2, T.add(T.const(H), acct))
    path = T.cat(T.const("m/%d'/%d'/" % (purpose, coin)), T.raw_op('STR', acct), T.const("'"))
    net = 'test' if tn else 'main'
    bip = 'BIP%d' % purpose
    fp2 = SP.fingerprint_of_point(T.pt(k2))

    def xkey(ver, keydata):
        return SP.b58check(SP.serialize(T.const(ver), T.const(3), fp2, T.add(T.const(H), acct), c3, keydata))
    pub = xkey(slip132.TABLE[('PUB', net, bip)], T.sec(T.pt(k3), T.TRUE))
    prv = xkey(slip132.TABLE[('PRV', net, bip)], T.cat(T.const(b'\x00'), k3))
    k4, c4 = normal(k3, c3, T.const(0))
    i = T.sym('each0', type='int')
    k5, c5 = SP.ckd_priv(k4, c4, i)
    row = [T.cat(path, T.const('/0/'), index_text(i)),
           expected_addresses(T.pt(k5), tn)[addr_kind],
           T.raw_op('HEX', T.sec(T.pt(k5), T.TRUE)),
           SP.b58check(T.cat(T.const(b'\xef' if tn else b'\x80'), k5, T.const(b'\x01')))]
    return {'path': path, 'pub': pub, 'prv': prv, 'row': row}


def check_generate(ctx, rule='C06.RECORD', network_only=False):
    p = ctx.p
    fgen = p.get_function('paper_wallet.PaperWallet.generate')
    for be in BACKENDS:
        for tn in (False, True):
            cfg = '%s/%s' % (be, 'testnet' if tn else 'mainnet')
            with ctx.obligation(rule, 'PaperWallet.generate', cfg, fgen.where) as ob:
                ev, w, secrets, full, facts = generate_shape(p, be, 'prv', T.const(tn))
                fl = dict(flatten(full))
                k = secrets[0]
                c = T.obj_fields(T.obj_fields(w)['master'])['chain_code']
                acct, iv = S('account', type='int'), S('interval', type='list')
                known = known_at(facts, ())
                for name, purpose, addr_kind in PURPOSES:
                    spec = spec_record(k, c, purpose, tn, acct, addr_kind)
                    base = "['%s']" % name
                    where = p.get_function('paper_wallet.PaperWallet.bip%d' % purpose).where
                    for key in ('path', 'pub', 'prv'):
                        got = fl.get("%s['account_extended_keys']['%s']" % (base, key))
                        same_term(ob, T.assume(got, known) if got is not None else None, spec[key],
                                  '%s account %s (m/%d\'/%d\'/account\', SLIP-132 %s version)' % (name, key, purpose, 1 if tn else 0, name), where)
                    for col, what in enumerate(('path text', 'address (%s)' % addr_kind, 'SEC hex of the compressed key', 'WIF')):
                        got = fl.get("%s['groups'][*][%d]" % (base, col))
                        if got is None:
                            # the rows are there but not in a shape this analysis can take apart (not: a wrong value)
                            grp_ = fl.get("%s['groups']" % base)
                            ob.undecided('%s rows are built in a form the evaluator cannot take apart into columns (%s); column %d '
                                         'not compared' % (name, T.show(grp_, maxdepth=3) if grp_ is not None else 'no groups entry', col), where)
                            continue
                        same_term(ob, T.assume(got, known) if got is not None else None, spec['row'][col],
                                  '%s row column %d: %s of the key at m/%d\'/coin\'/account\'/0/i' % (name, col, what, purpose), where)
                    ob.require("%s['groups'][*][4]" % base not in fl, '%s rows have exactly four columns' % name, where)
                    grp = T.getitem(T.getitem(full, T.const(name)), T.const('groups'))
                    grp = _strip_raise(grp)
                    ok = T.is_op(grp, 'MAP') and grp[4] == T.raw_op('RANGE_STAR', iv)
                    ob.require(ok, '%s: one row per index of range(*interval), in order' % name, where,
                               found=T.show(grp[4], maxdepth=3) if T.is_op(grp, 'MAP') else T.show(grp, maxdepth=2))
                if network_only:
                    continue
                same_term(ob, fl.get("['MASTER']['mnemonic']"), secrets[1], 'master block echoes the mnemonic', fgen.where)
                same_term(ob, fl.get("['MASTER']['password']"), secrets[2], 'master block echoes the passphrase', fgen.where)
                ob.require(set(a[1] for a, _ in full[1]) == {'MASTER', 'BIP85', 'BIP44', 'BIP49', 'BIP84'}, 'top-level keys', fgen.where)
                for pth, t in fl.items():
                    ty = T.type_of(_strip_raise(t))
                    ob.require(ty in ('str', 'none'), 'leaf %s is not a JSON string/null (type %s): the JSON rendering would not round-trip'
                               % (pth, ty), fgen.where)


def check_node_versions(ctx, rule):
    """node_extended_public/private_key pick the SLIP-132 version from (purpose of the node's path, key type, the
    WALLET's network) - never from the coin type or anything else in the path."""
    p = ctx.p
    fdet = p.get_function('base_wallet.BaseWallet.determine_node_version_int')
    BW = PKG + '.base_wallet.BaseWallet'
    for be in BACKENDS:
        with ctx.obligation(rule, 'BaseWallet.node_extended_public_key/private_key', be, fdet.where) as ob:
            ev = Evaluator(p, be)
            ev.step_budget = 2000000
            for tn in (False, True):
                m, k = master_prv(testnet=T.const(tn))
                w = mk_wallet(p, be, m, T.const(tn), cls=BW)
                for purpose in (44, 49, 84, 86, 7):
                    for coin in (0, 1):
                        path = [purpose + H, coin + H, 5 + H]
                        node, _ = ev.call_function('bip32.PubKeyNode.derive_path', [m, T.lst([T.const(x) for x in path])])
                        nodes = distinct_normal_leaves(node)
                        if len(nodes) != 1:
                            ob.undecided('derive_path gave %d results' % len(nodes))
                            continue
                        net = 'test' if tn else 'main'
                        for kt, meth in (('PUB', 'node_extended_public_key'), ('PRV', 'node_extended_private_key')):
                            v, _ = ev.call_function('base_wallet.BaseWallet.' + meth, [w, nodes[0]])
                            if purpose in (44, 49, 84):
                                allowed = {slip132.TABLE[(kt, net, 'BIP%d' % purpose)]}
                                what = 'version 0x%08X (%s)' % (min(allowed), slip132.LABELS[min(allowed)])
                            else:
                                # a purpose without a SLIP-132 flavour of its own: any registered version of this key type
                                # on this network (today: the BIP32 x/t pair) - never the other network's, never the other type's
                                allowed = {slip132.TABLE[(kt, net, b)] for b in ('BIP44', 'BIP49', 'BIP84')}
                                what = 'a %s version of the %s network (%s)' % (
                                    'public' if kt == 'PUB' else 'private', 'test' if tn else 'main',
                                    '/'.join(sorted(slip132.LABELS[a] for a in allowed)))
                            ok = False
                            leaf = None
                            for leaf in distinct_normal_leaves(v):
                                ok = T.is_op(leaf, 'B58ENC') and T.slice_(leaf[2], T.const(0), T.const(4)) in {
                                    T.const(a.to_bytes(4, 'big')) for a in allowed}
                            ob.require(ok, "%s of the node at m/%d'/%d'/5' on a %s wallet must carry %s" % (
                                meth, purpose, coin, 'testnet' if tn else 'mainnet', what), fdet.where,
                                found=T.show(T.slice_(leaf[2], T.const(0), T.const(4))) if T.is_op(leaf, 'B58ENC') else T.show(v, maxdepth=3))


def run(ctx):
    p = ctx.p
    ctx.explanation = (
        'R-TERM on the whole of PaperWallet.generate(): evaluated on a symbolic wallet (master key, account, interval '
        'free; both networks, both back ends), each BIP44/49/84 record must equal the specification record: account '
        'path m/purpose\'/coin\'/account\' (coin by network), extended keys of the node at that path in the purpose\'s '
        'SLIP-132 version, and rows = MAP over range(*interval) of [path text, address of the purpose\'s kind, SEC hex, '
        'compressed WIF on the wallet network] all of the SAME key k(m/.../0/i). R-SIBLING: bip44/49/84 are equal modulo '
        '(purpose, group method). Version labels are cross-checked against their integers by Base58 interval '
        'arithmetic. json()/wasabi_json() terms; output leaves are JSON-compatible.')
    ctx.not_decided = ['json.dumps/loads round-trip itself (trusted)', 'primitive correctness on values']
    check_generate(ctx)
    check_node_versions(ctx, 'C06.NODEVERSION')
    # "for every seed ... the master block echoes the mnemonic and passphrase used": the rows are those of the seed of
    # exactly that (mnemonic, passphrase) pair - the seed/master/constructor obligations of C03 are part of C06 too
    from . import C03
    sub = ctx.__class__('C06', ctx.tier, ctx.p, ctx.seed)
    C03.run(sub)
    for o in sub.obligations:
        if o.rule in ('C03.PBKDF2', 'C03.MASTER', 'C03.CTOR'):
            o.rule = 'C06.SEED(=%s)' % o.rule
            ctx.obligations.append(o)
    # ---------------------------------------------------------------- siblings
    with ctx.obligation('C06.SIBLING', 'PaperWallet.bip44/bip49/bip84', None, p.get_function('paper_wallet.PaperWallet.bip44').where) as ob:
        dumps = {}
        for name, purpose, addr in PURPOSES:
            fi = p.get_function('paper_wallet.PaperWallet.bip%d' % purpose)
            body = [n for n in fi.node.body if not (isinstance(n, ast.Expr) and isinstance(n.value, ast.Constant))]
            mod = ast.Module(body=body, type_ignores=[])
            txt = ast.dump(mod)
            txt = txt.replace('Constant(value=%d)' % purpose, 'Constant(value=PURPOSE)').replace("attr='bip%d_group'" % purpose, "attr='GROUP'")
            dumps[purpose] = txt
            # defaults, semantically: the call without arguments is the call with account 0 and interval (0, 20) - however the
            # defaults are spelt (parameter defaults, None resolved inside, class constants)
            from .C15 import paper_wallet as _pw
            w_, _ = _pw('prv', T.FALSE, p)
            ev = Evaluator(p, 'ecdsa')
            q_ = 'paper_wallet.PaperWallet.bip%d' % purpose
            v_def, _ = ev.call_function(q_, [w_])
            v_exp, _ = ev.call_function(q_, [w_], {'account': T.const(0), 'interval': T.tup([T.const(0), T.const(20)])})
            same_term(ob, v_def, v_exp, 'bip%d() without arguments is bip%d(account=0, interval=(0, 20))' % (purpose, purpose), fi.where)
        if dumps[44] == dumps[49] == dumps[84]:
            ob.require(True, 'bip44/bip49/bip84 are the same text up to (purpose constant, group method)',
                       p.get_function('paper_wallet.PaperWallet.bip49').where)
        else:
            # spelt differently (operands swapped, a helper in one of them ...): what each of them computes is compared with
            # the specification by C06.RECORD, block by block - a copy-paste slip in one sibling shows up there
            ob.note('bip44/bip49/bip84 are not the same text up to (purpose constant, group method); their values are decided '
                    'by C06.RECORD')
            ob.evaluations += 1
        fg = p.get_function('paper_wallet.PaperWallet.generate')
        ev = Evaluator(p, 'ecdsa')
        v_def, _ = ev.call_function('paper_wallet.PaperWallet.generate', [w_])
        v_exp, _ = ev.call_function('paper_wallet.PaperWallet.generate', [w_], {'account': T.const(0), 'interval': T.tup([T.const(0), T.const(20)])})
        same_term(ob, v_def, v_exp, 'generate() without arguments is generate(account=0, interval=(0, 20))', fg.where)
    # ---------------------------------------------------------------- version labels by interval arithmetic
    with ctx.obligation('C06.LABELS', 'Version.bip*_data labels', None, p.get_function('wallet_utils.Version.bip44_data').where) as ob:
        ev = Evaluator(p, 'ecdsa')
        VER = PKG + '.wallet_utils.Version'
        n = 0
        for q in ('bip44_data', 'bip49_data', 'bip84_data'):
            v, _ = ev.call_function('wallet_utils.Version.' + q, [T.clsref(VER)])
            if T.tag(v) != 'dict':
                ob.undecided('%s does not fold to a constant mapping' % q)
                continue
            for lab, ver in v[1]:
                n += 1
                chars = B58.leading_chars(ver[1].to_bytes(4, 'big'), 82, 4) if T.is_const(ver) and isinstance(ver[1], int) else None
                ob.require(chars == {lab[1]}, 'label %r does not match its version integer: every 78-byte payload with version 0x%08X '
                           'encodes to a string starting with %s' % (lab[1], ver[1] if T.is_const(ver) else 0, sorted(chars) if chars else '?'),
                           p.get_function('wallet_utils.Version.' + q).where)
                ob.require(slip132.LABELS.get(ver[1]) == lab[1], 'label %r is the SLIP-132 name of 0x%08X' % (lab[1], ver[1]),
                           p.get_function('wallet_utils.Version.' + q).where)
        ob.require(n == 12, 'twelve labelled versions', 'btc_hd_wallet/wallet_utils.py', found=n)
    # ---------------------------------------------------------------- Bip32Path.bip() and determine_node_version_int
    fb = p.get_function('wallet_utils.Bip32Path.bip')
    with ctx.obligation('C06.VERSION', 'Bip32Path.bip / determine_node_version_int', None, fb.where) as ob:
        ev = Evaluator(p, 'ecdsa')
        BP = PKG + '.wallet_utils.Bip32Path'
        for purpose, val in ((44, 0), (49, 1), (84, 2)):
            pth = T.obj(BP, dict(purpose=T.const(purpose + H), coin_type=T.NONE, account=T.NONE, chain=T.NONE, addr_index=T.NONE, private=T.TRUE))
            v, _ = ev.call_function('wallet_utils.Bip32Path.bip', [pth])
            same_term(ob, v, T.const(val), "purpose %d' maps to Bip value %d" % (purpose, val), fb.where)
    # ---------------------------------------------------------------- json / wasabi
    fw = p.get_function('paper_wallet.PaperWallet.wasabi_json')
    for be in BACKENDS:
        for tn in (False, True):
            with ctx.obligation('C06.WASABI', 'PaperWallet.wasabi_json', '%s/%s' % (be, 'testnet' if tn else 'mainnet'), fw.where) as ob:
                ev = Evaluator(p, be)
                ev.step_budget = 2000000
                w, secrets = paper_wallet('prv', T.const(tn), p, be)
                k = secrets[0]
                c = T.obj_fields(T.obj_fields(w)['master'])['chain_code']
                v, f = ev.call_function('paper_wallet.PaperWallet.wasabi_json', [w])
                leaf = distinct_normal_leaves(v)
                if len(leaf) != 1:
                    ob.undecided('wasabi_json has %d distinct normal results' % len(leaf))
                    continue
                k1, c1 = hardened(k, c, T.const(84 + H))
                k2, c2 = hardened(k1, c1, T.const(0 + H))
                k3, c3 = hardened(k2, c2, T.const(0 + H))
                xpub = SP.b58check(SP.serialize(T.const(SP.TPUB if tn else SP.XPUB), T.const(3), SP.fingerprint_of_point(T.pt(k2)),
                                                T.const(H), c3, T.sec(T.pt(k3), T.TRUE)))
                exp = T.raw_op('JSON', T.dct([(T.const('ExtPubKey'), xpub),
                                              (T.const('MasterFingerprint'), T.raw_op('UPPER', T.raw_op('HEX', SP.fingerprint_of_point(T.pt(k))))),
                                              (T.const('ColdCardFirmwareVersion'), T.const('3.1.3'))]), T.NONE)
                same_term(ob, leaf[0], exp, "Wasabi export: extended public key at m/84'/0'/0' in the node's own network version, "
                          "master fingerprint in upper-case hex", fw.where)
                ind = S('indent', type='int')
                v2, _ = ev.call_function('paper_wallet.PaperWallet.wasabi_json', [w], {'indent': ind})
                l2 = distinct_normal_leaves(v2)
                ob.require(len(l2) == 1 and T.is_op(l2[0], 'JSON') and l2[0][3] == ind, 'wasabi_json(indent=n) renders with that indent', fw.where)
    fj = p.get_function('paper_wallet.PaperWallet.json')
    with ctx.obligation('C06.JSON', 'PaperWallet.json', None, fj.where) as ob:
        ev = Evaluator(p, 'ecdsa')
        w = S('wallet', cls=PKG + '.paper_wallet.PaperWallet')
        data, ind = S('data', type='dict'), S('indent', type='int')
        v, f = ev.call_function('paper_wallet.PaperWallet.json', [w], {'data': data, 'indent': ind}, facts=Facts().add(T.truth(data)))
        same_term(ob, v, T.raw_op('JSON', data, ind), 'json(data, indent) is json.dumps(data, indent=indent)', fj.where)
    # the file route of the JSON rendering: export_wallet / pprint write the JSON of the data they are given (seed C06-O:
    # export_wallet stops forwarding `data`, the file holds a freshly generated default wallet)
    from .C20 import check_sinks
    check_sinks(ctx, 'C06.SINKS(=C20)')
    # every record is produced through a path string the wallet prints and parses back (determine_node_version_int ->
    # Bip32Path.parse(str(node))): a hardened number the printer can emit must be accepted by the parser, else whole
    # account blocks are refused instead of produced
    check_rows_onepass(ctx, 'C06.ONEPASS')
    from . import C17
    sub = ctx.__class__('C06', ctx.tier, ctx.p, ctx.seed)
    C17.run(sub)
    for o in sub.obligations:
        if o.rule in ('C17.HRANGE',):
            o.rule = 'C06.%s(=C17)' % o.rule.split('.')[1]
            ctx.obligations.append(o)


def check_rows_onepass(ctx, rule):
    """The row builders take `nodes` as an iterable.  Handed a one-shot iterable (a generator of derived nodes, a map
    object) they must produce the rows they produce for the equal list: a builder that walks `nodes` once per column pairs
    the path of one node with the address and keys of others."""
    p = ctx.p
    PWC = PKG + '.paper_wallet.PaperWallet'
    for meth in ('bip44_group', 'bip49_group', 'bip84_group'):
        fi = p.get_function('paper_wallet.PaperWallet.' + meth)
        with ctx.obligation(rule, 'PaperWallet.' + meth, None, fi.where) as ob:
            ev = Evaluator(p, 'ecdsa')
            tn = S('testnet', type='bool')
            w = mk_wallet(p, 'ecdsa', prv_node()[0], tn, cls=PWC)
            n1 = prv_node(name='ka', tagname='a')[0]
            n2 = prv_node(name='kb', tagname='b')[0]
            vl, _ = ev.call_function('paper_wallet.PaperWallet.' + meth, [w, T.lst([n1, n2])])
            vi, _ = ev.call_function('paper_wallet.PaperWallet.' + meth, [w, ev.new_iter([n1, n2])])
            ob.evaluations += 1
            if T.opaques(_strip_raise(vl)):
                ob.undecided('%s over a list of two nodes is not computable by the evaluator (%s)' % (meth, '; '.join(T.opaques(vl))[:200]), fi.where)
                continue
            same_term(ob, vi, vl, '%s over a one-shot iterable of nodes (generator / map object) gives the rows it gives for the equal list'
                      % meth, fi.where)
