"""C03 — mnemonic + passphrase -> seed -> master key."""
from __future__ import annotations

from .. import terms as T
from ..evalr import Evaluator
from .. import externals as X
from ..spec import bip32 as SP
from .common import *

BW = PKG + '.base_wallet.BaseWallet'
PW = PKG + '.paper_wallet.PaperWallet'
B85 = PKG + '.bip85.BIP85DeterministicEntropy'


def master_node_term(seed, testnet):
    k, c = SP.master(seed)
    return T.obj(PRV, dict(key=k, chain_code=c, depth=T.const(0), index=T.const(0), parent=T.NONE,
                           parsed_parent_fingerprint=T.NONE, parsed_version=T.NONE, testnet=testnet, children=T.lst([])))


def wallet_term(cls, master, testnet, mnemonic=T.NONE, password=T.NONE):
    return T.obj(cls, dict(master=master, testnet=testnet, mnemonic=mnemonic, password=password,
                           bip85=T.obj(B85, dict(master_node=master, testnet=testnet))))


def same_wallet(ob, ev, found, facts, cls, exp, what, where):
    """Observational equality of a wallet: its class, the master node's API-visible data, network, mnemonic,
    passphrase, that it is not watch-only and that its BIP85 object is built on the same master."""
    seed, mn, pwd, net = exp
    mk_, mc_ = SP.master(seed)
    nl = normal_leaves(found)
    ob.require(len(nl) >= 1, what + ': a wallet is returned', where)
    for cs, leaf in nl:
        # the wallet exists, so its master secret is a valid scalar (master_key refused anything else; an extended key
        # carries a valid scalar by definition): observations are made under that fact
        fx = Facts(known_at(facts if facts is not None else Facts(), cs) | closure([T.raw_op('VALID_SK', mk_)]))
        if not ob.require(T.tag(leaf) == 'obj' and leaf[1] == cls, what + ': a %s object' % cls.split('.')[-1], where,
                          found=T.show(leaf, maxdepth=2)):
            continue
        for nm, e in (('testnet', net), ('mnemonic', mn), ('password', pwd)):
            same_term(ob, T.assume(attr_of(ev, leaf, nm, fx), set(cs)), T.assume(e, set(cs)), '%s: wallet.%s' % (what, nm), where)
        same_term(ob, T.truth(attr_of(ev, leaf, 'watch_only', fx)), T.FALSE, what + ': not watch-only', where)
        for holder, path in (('wallet.master', ('master',)), ('wallet.bip85.master_node', ('bip85', 'master_node'))):
            node = leaf
            for a in path:
                node = attr_of(ev, node, a, fx)
            same_node(ob, ev, T.assume(node, set(cs)), PRV, '%s: %s' % (what, holder), where, facts=fx, prv=T.assume(mk_, set(cs)),
                      chain=T.assume(mc_, set(cs)), depth=T.const(0), index=T.const(0), testnet=T.assume(net, set(cs)),
                      parent_fpr=T.const(b'\x00' * 4))


def run(ctx):
    p = ctx.p
    ctx.explanation = (
        'R-TERM: bip39_seed_from_mnemonic must evaluate to PBKDF2(sha512, UTF8(NFKD(mnemonic)), '
        'UTF8("mnemonic" + NFKD(passphrase)), 2048, 64 bytes); master_key to the two halves of HMAC-SHA512 keyed '
        '"Bitcoin seed"; every wallet constructor (new_wallet, from_entropy_bits, from_entropy_hex, '
        'from_bip39_seed_hex, from_bip39_seed_bytes, from_mnemonic), evaluated with symbolic arguments for both '
        'wallet classes, must produce the wallet whose master is that node (funnel), with password/mnemonic/testnet '
        'forwarded unchanged; the network flag must not occur in any key-material term (non-interference).')
    ctx.not_decided = ['unicodedata / hashlib correctness', 'the mnemonic<->entropy mapping (C04)']
    fseed = p.get_function('bip39.bip39_seed_from_mnemonic')
    m, pw, tn = S('mnemonic', type='str'), S('password', type='str'), S('testnet', type='bool')
    with ctx.obligation('C03.PBKDF2', 'bip39.bip39_seed_from_mnemonic', None, fseed.where) as ob:
        ev = Evaluator(p, 'ecdsa')
        v, f = ev.call_function('bip39.bip39_seed_from_mnemonic', [m, pw])
        same_term(ob, v, SP.bip39_seed(m, pw), 'seed derivation', fseed.where)
        v, f = ev.call_function('bip39.bip39_seed_from_mnemonic', [m])
        same_term(ob, v, SP.bip39_seed(m, T.const('')), 'seed derivation with the default (empty) passphrase', fseed.where)
        same_term(ob, ev.module_const('bip39', 'PBKDF2_ROUNDS'), T.const(2048), 'PBKDF2_ROUNDS', 'btc_hd_wallet/bip39.py')
    fm = p.get_function('bip32.PrvKeyNode.master_key')
    for be in BACKENDS:
        with ctx.obligation('C03.MASTER', 'PrvKeyNode.master_key', be, fm.where) as ob:
            ev = Evaluator(p, be)
            seed = S('seed', type='bytes')
            v, f = ev.call_function('bip32.PrvKeyNode.master_key', [T.clsref(PRV), seed, tn])
            nl = normal_leaves(v)
            ob.require(len(nl) >= 1, 'master_key can return a node', fm.where)
            mk_, mc_ = SP.master(seed)
            same_node(ob, ev, v, PRV, 'master node', fm.where, facts=f, prv=mk_, pub=T.pt(mk_), chain=mc_, depth=T.const(0),
                      index=T.const(0), testnet=tn, parent_fpr=T.const(b'\x00' * 4))
            v2, f2 = ev.call_function('bip32.PrvKeyNode.master_key', [T.clsref(PRV), seed])
            same_node(ob, ev, v2, PRV, 'master node (default network is mainnet)', fm.where, facts=f2, testnet=T.FALSE)
    # constructors -------------------------------------------------------------------------------
    summ = dict(X.DEFAULT_SUMMARIES)
    summ['bip39.mnemonic_from_entropy'] = lambda ev_, fi, env, facts: (T.raw_op('MNEMONIC', env[fi.params[0]]), facts)
    T.STR_OPS.update({'MNEMONIC'})

    def fresh_term(ev_, nbits):
        """The sentence a fresh draw of nbits gives: whatever bip39.mnemonic_from_entropy_bits computes (C08 decides that
        this is MNEMONIC(hex(nbits from the CSPRNG))); the wallet constructors must hold exactly that sentence."""
        v_, _f = ev_.call_function('bip39.mnemonic_from_entropy_bits', [T.const(nbits)])
        nl_ = distinct_normal_leaves(v_)
        if len(nl_) != 1:
            raise AnalysisError('C03.CTOR', 'mnemonic_from_entropy_bits(%d) does not evaluate to one sentence term' % nbits)
        return nl_[0]
    hexs, ehex, bits, mlen = S('seed_hex', type='str'), S('entropy_hex', type='str'), S('bits', type='int'), S('mlen', type='int')
    seedb = S('seed', type='bytes')
    for be in BACKENDS:
        for cls in (BW, PW):
            cfg = '%s/%s' % (be, cls.split('.')[-1])
            ev = Evaluator(p, be, summaries=summ)

            def wallet_of(seed, mn=T.NONE, pwd=T.NONE, net=None):
                return (seed, mn, pwd, tn if net is None else net)
            cases = [
                ('from_bip39_seed_bytes', [seedb, tn], {}, wallet_of(seedb)),
                ('from_bip39_seed_hex', [hexs, tn], {}, wallet_of(X.fromhex(hexs))),
                ('from_mnemonic', [m, pw, tn], {}, wallet_of(SP.bip39_seed(m, pw), m, pw)),
                ('from_mnemonic', [m], {'testnet': tn}, wallet_of(SP.bip39_seed(m, T.const('')), m, T.const(''))),
                ('from_entropy_hex', [ehex, pw, tn], {},
                 wallet_of(SP.bip39_seed(T.raw_op('MNEMONIC', ehex), pw), T.raw_op('MNEMONIC', ehex), pw)),
            ]
            for nb in (128, 160, 192, 224, 256):
                fr_ = fresh_term(ev, nb)
                cases.append(('from_entropy_bits', [T.const(nb), pw, tn], {}, wallet_of(SP.bip39_seed(fr_, pw), fr_, pw)))
            # hex-text constructors: decided for any text first; a constructor that normalises its text (strips white space,
            # a 0x prefix) is then decided on canonical hex text - HEX(b) for symbolic bytes b -, where normalisation must be
            # the identity.  What it accepts beyond the text bytes.fromhex accepts is not the property's business.
            from ..report import Obligation as _Ob
            seedh, entb = S('seed_of_hex', type='bytes'), S('entropy_of_hex', type='bytes')
            canon = {'from_bip39_seed_hex': ([T.raw_op('HEX', seedh), tn], wallet_of(seedh)),
                     'from_entropy_hex': ([T.raw_op('HEX', entb), pw, tn],
                                          wallet_of(SP.bip39_seed(T.raw_op('MNEMONIC', T.raw_op('HEX', entb)), pw),
                                                    T.raw_op('MNEMONIC', T.raw_op('HEX', entb)), pw))}
            for name, args, kw, exp in cases:
                fi = p.get_function('base_wallet.BaseWallet.' + name)
                note_canon = None
                if name in canon and not kw:
                    probe = _Ob(ctx, 'probe', name, cfg, fi.where)
                    try:
                        v0, f0 = ev.call_function('base_wallet.BaseWallet.' + name, [T.clsref(cls)] + args, kw)
                        same_wallet(probe, ev, v0, f0, cls, exp, 'probe', fi.where)
                    except Exception:
                        probe.verdict = 'UNDECIDED'
                    if probe.verdict in ('VIOLATED', 'UNDECIDED'):
                        args, exp = canon[name]
                        note_canon = 'decided on canonical hex text HEX(b): the constructor normalises its text argument'
                with ctx.obligation('C03.CTOR', 'BaseWallet.' + name, cfg, fi.where) as ob:
                    if note_canon:
                        ob.note(note_canon)
                    v, f = ev.call_function('base_wallet.BaseWallet.' + name, [T.clsref(cls)] + args, kw)
                    nl = normal_leaves(v)
                    ob.require(len(nl) >= 1, 'constructor can return a wallet', fi.where)
                    same_wallet(ob, ev, v, f, cls, exp, '%s builds the wallet of the BIP39/BIP32 master for its arguments '
                                '(password, mnemonic and network forwarded unchanged)' % name, fi.where)
            # other spellings of the same seed: a constructor that is lenient about the text it takes (a 0x prefix, as printed
            # by hex()) must still build the wallet of the bytes the text spells - or refuse.  Decided on '0x' + HEX(b).
            fi = p.get_function('base_wallet.BaseWallet.from_bip39_seed_hex')
            with ctx.obligation('C03.SPELLING', 'BaseWallet.from_bip39_seed_hex', cfg, fi.where) as ob:
                b64 = S('seed_bytes', type='bytes', len=64)
                for what, text in (("'0x' + hex", T.cat(T.const('0x'), T.raw_op('HEX', b64))),):
                    e3 = Evaluator(p, be, summaries=summ)
                    v, f = e3.call_function('base_wallet.BaseWallet.from_bip39_seed_hex', [T.clsref(cls), text, tn])
                    ob.evaluations += 1
                    if normal_leaves(v):
                        same_wallet(ob, e3, v, f, cls, wallet_of(b64), 'from_bip39_seed_hex accepts the spelling %s of a seed: the wallet '
                                    'it builds is the wallet of those seed bytes (leading zero bytes included)' % what, fi.where)
            # the seed routes must not refuse a seed that BIP32 allows (16..64 bytes, valid left half): any refusal has to
            # depend on the seed's length being outside that range or on the key being invalid
            fi = p.get_function('base_wallet.BaseWallet.from_bip39_seed_bytes')
            with ctx.obligation('C03.CTOR', 'seed routes accept every valid seed', cfg, fi.where) as ob:
                mk_, mc_ = SP.master(seedb)
                L_ = T.len_(seedb)
                valid = [T.raw_op('VALID_SK', mk_), T.not_(T.lt(L_, T.const(16))), T.lt(L_, T.const(65))]
                for name, args in (('base_wallet.BaseWallet.from_bip39_seed_bytes', [T.clsref(cls), seedb, tn]),
                                   ('bip32.PrvKeyNode.master_key', [T.clsref(PRV), seedb, tn])):
                    v, f = ev.call_function(name, args)
                    bad = spurious_refusals(ev, v, valid)
                    ob.require(not bad, '%s refuses a seed that BIP32 allows (16-64 bytes, valid master key)' % name.split('.', 1)[1],
                               p.get_function(name).where,
                               found=['%s when %s' % (e, ' and '.join(T.show(c, maxdepth=4) for c in cs_) or 'always') for e, cs_ in bad][:3])
            # ... "or from the resulting master extended private key": the serialised master parsed back
            fi = p.get_function('base_wallet.BaseWallet.from_extended_key')
            with ctx.obligation('C03.CTOR', 'BaseWallet.from_extended_key', cfg, fi.where) as ob:
                mk_, mc_ = SP.master(seedb)
                for net_, ver in ((False, SP.XPRV), (True, SP.TPRV)):
                    payload = SP.serialize(T.const(ver), T.const(0), T.const(b'\x00' * 4), T.const(0), mc_, T.cat(T.const(b'\x00'), mk_))
                    s2 = dict(summ)
                    s2['helper.decode_base58_checksum'] = lambda ev_, fi_, env, facts, B=payload: (B, facts)
                    e2 = Evaluator(p, be, summaries=s2)
                    v, f = e2.call_function('base_wallet.BaseWallet.from_extended_key', [T.clsref(cls), S('xprv', type='str')])
                    same_wallet(ob, e2, v, f, cls, (seedb, T.NONE, T.NONE, T.const(net_)),
                                'from_extended_key(master %s of a seed) holds the same master key material'
                                % ('tprv' if net_ else 'xprv'), fi.where)
            fi = p.get_function('base_wallet.BaseWallet.new_wallet')
            with ctx.obligation('C03.CTOR', 'BaseWallet.new_wallet', cfg, fi.where) as ob:
                v0, _ = ev.call_function('base_wallet.BaseWallet.new_wallet', [T.clsref(cls)])
                fresh0 = fresh_term(ev, 256)
                same_wallet(ob, ev, v0, _, cls, (SP.bip39_seed(fresh0, T.const('')), fresh0, T.const(''), T.FALSE),
                            'new_wallet() defaults: 24 words (256 bits), empty passphrase, mainnet', fi.where)
                ob.require(len(distinct_normal_leaves(v0)) >= 1, 'new_wallet() with defaults produces a wallet', fi.where)
                tbl = ev.module_const('bip39', 'MNEMONIC_LENGTH_TO_ENTROPY_BITS')
                for words, ebits in ((12, 128), (15, 160), (18, 192), (21, 224), (24, 256)):
                    v, f = ev.call_function('base_wallet.BaseWallet.new_wallet', [T.clsref(cls), T.const(words), pw, tn])
                    fresh = fresh_term(ev, ebits)
                    same_wallet(ob, ev, v, f, cls, wallet_of(SP.bip39_seed(fresh, pw), fresh, pw),
                                'new_wallet(%d words) draws %d bits and forwards password/network' % (words, ebits), fi.where)
    # the command line is one of the routes by which a sentence and a passphrase reach these constructors
    from .C20 import check_secret_options
    check_secret_options(ctx, 'C03.CLI', ('password', 'mnemonic', 'seed_hex', 'entropy_hex', 'master_xprv'))
