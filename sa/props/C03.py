"""C03 — mnemonic + passphrase -> seed -> master key."""
from __future__ import annotations

from .. import terms as T
from ..evalr import Evaluator
from .. import externals as X
from ..spec import bip32 as SP
from .common import *

BW = PKG + '.base_wallet.BaseWallet'
PW = PKG + '.paper_wallet.PaperWallet'
B85 = PKG + '.bip85.BIP85DeterministicEntropy'


def master_node_term(seed, testnet):
    k, c = SP.master(seed)
    return T.obj(PRV, dict(key=k, chain_code=c, depth=T.const(0), index=T.const(0), parent=T.NONE,
                           parsed_parent_fingerprint=T.NONE, parsed_version=T.NONE, testnet=testnet, children=T.lst([])))


def wallet_term(cls, master, testnet, mnemonic=T.NONE, password=T.NONE):
    return T.obj(cls, dict(master=master, testnet=testnet, mnemonic=mnemonic, password=password,
                           bip85=T.obj(B85, dict(master_node=master, testnet=testnet))))


def run(ctx):
    p = ctx.p
    ctx.explanation = (
        'R-TERM: bip39_seed_from_mnemonic must evaluate to PBKDF2(sha512, UTF8(NFKD(mnemonic)), '
        'UTF8("mnemonic" + NFKD(passphrase)), 2048, 64 bytes); master_key to the two halves of HMAC-SHA512 keyed '
        '"Bitcoin seed"; every wallet constructor (new_wallet, from_entropy_bits, from_entropy_hex, '
        'from_bip39_seed_hex, from_bip39_seed_bytes, from_mnemonic), evaluated with symbolic arguments for both '
        'wallet classes, must produce the wallet whose master is that node (funnel), with password/mnemonic/testnet '
        'forwarded unchanged; the network flag must not occur in any key-material term (non-interference).')
    ctx.not_decided = ['unicodedata / hashlib correctness', 'the mnemonic<->entropy mapping (C04)']
    fseed = p.get_function('bip39.bip39_seed_from_mnemonic')
    m, pw, tn = S('mnemonic', type='str'), S('password', type='str'), S('testnet', type='bool')
    with ctx.obligation('C03.PBKDF2', 'bip39.bip39_seed_from_mnemonic', None, fseed.where) as ob:
        ev = Evaluator(p, 'ecdsa')
        v, f = ev.call_function('bip39.bip39_seed_from_mnemonic', [m, pw])
        same_term(ob, v, SP.bip39_seed(m, pw), 'seed derivation', fseed.where)
        v, f = ev.call_function('bip39.bip39_seed_from_mnemonic', [m])
        same_term(ob, v, SP.bip39_seed(m, T.const('')), 'seed derivation with the default (empty) passphrase', fseed.where)
        same_term(ob, ev.module_const('bip39', 'PBKDF2_ROUNDS'), T.const(2048), 'PBKDF2_ROUNDS', 'btc_hd_wallet/bip39.py')
    fm = p.get_function('bip32.PrvKeyNode.master_key')
    for be in BACKENDS:
        with ctx.obligation('C03.MASTER', 'PrvKeyNode.master_key', be, fm.where) as ob:
            ev = Evaluator(p, be)
            seed = S('seed', type='bytes')
            v, f = ev.call_function('bip32.PrvKeyNode.master_key', [T.clsref(PRV), seed, tn])
            nl = normal_leaves(v)
            ob.require(len(nl) >= 1, 'master_key can return a node', fm.where)
            for cs, leaf in nl:
                same_term(ob, leaf, master_node_term(seed, tn), 'master node', fm.where)
                ob.require(not T.contains(T.obj_fields(leaf)['key'], lambda x: x == tn) and
                           not T.contains(T.obj_fields(leaf)['chain_code'], lambda x: x == tn),
                           'the network flag influences key material', fm.where)
            v2, _ = ev.call_function('bip32.PrvKeyNode.master_key', [T.clsref(PRV), seed])
            for cs, leaf in normal_leaves(v2):
                same_term(ob, T.obj_fields(leaf)['testnet'], T.FALSE, 'default network is mainnet', fm.where)
    # constructors -------------------------------------------------------------------------------
    summ = dict(X.DEFAULT_SUMMARIES)
    summ['bip39.mnemonic_from_entropy'] = lambda ev_, fi, env, facts: (T.raw_op('MNEMONIC', env[fi.params[0]]), facts)
    summ['bip39.mnemonic_from_entropy_bits'] = lambda ev_, fi, env, facts: (T.raw_op('FRESH', env[fi.params[0]]), facts)
    T.STR_OPS.update({'MNEMONIC', 'FRESH'})
    hexs, ehex, bits, mlen = S('seed_hex', type='str'), S('entropy_hex', type='str'), S('bits', type='int'), S('mlen', type='int')
    seedb = S('seed', type='bytes')
    for be in BACKENDS:
        for cls in (BW, PW):
            cfg = '%s/%s' % (be, cls.split('.')[-1])
            ev = Evaluator(p, be, summaries=summ)

            def wallet_of(seed, mn=T.NONE, pwd=T.NONE):
                return wallet_term(cls, master_node_term(seed, tn), tn, mn, pwd)
            cases = [
                ('from_bip39_seed_bytes', [seedb, tn], {}, wallet_of(seedb)),
                ('from_bip39_seed_hex', [hexs, tn], {}, wallet_of(X.fromhex(hexs))),
                ('from_mnemonic', [m, pw, tn], {}, wallet_of(SP.bip39_seed(m, pw), m, pw)),
                ('from_mnemonic', [m], {'testnet': tn}, wallet_of(SP.bip39_seed(m, T.const('')), m, T.const(''))),
                ('from_entropy_hex', [ehex, pw, tn], {},
                 wallet_of(SP.bip39_seed(T.raw_op('MNEMONIC', ehex), pw), T.raw_op('MNEMONIC', ehex), pw)),
                ('from_entropy_bits', [bits, pw, tn], {},
                 wallet_of(SP.bip39_seed(T.raw_op('FRESH', bits), pw), T.raw_op('FRESH', bits), pw)),
            ]
            for name, args, kw, exp in cases:
                fi = p.get_function('base_wallet.BaseWallet.' + name)
                with ctx.obligation('C03.CTOR', 'BaseWallet.' + name, cfg, fi.where) as ob:
                    v, f = ev.call_function('base_wallet.BaseWallet.' + name, [T.clsref(cls)] + args, kw)
                    nl = normal_leaves(v)
                    ob.require(len(nl) >= 1, 'constructor can return a wallet', fi.where)
                    for cs, leaf in nl:
                        same_term(ob, T.assume(leaf, set(cs)), T.assume(exp, set(cs)),
                                  '%s builds the wallet of the BIP39/BIP32 master for its arguments '
                                  '(password, mnemonic and network forwarded unchanged)' % name, fi.where)
            fi = p.get_function('base_wallet.BaseWallet.new_wallet')
            with ctx.obligation('C03.CTOR', 'BaseWallet.new_wallet', cfg, fi.where) as ob:
                v0, _ = ev.call_function('base_wallet.BaseWallet.new_wallet', [T.clsref(cls)])
                fresh0 = T.raw_op('FRESH', T.const(256))
                for leaf in distinct_normal_leaves(v0):
                    same_term(ob, leaf, wallet_term(cls, master_node_term(SP.bip39_seed(fresh0, T.const('')), T.FALSE), T.FALSE, fresh0, T.const('')),
                              'new_wallet() defaults: 24 words (256 bits), empty passphrase, mainnet', fi.where)
                ob.require(len(distinct_normal_leaves(v0)) >= 1, 'new_wallet() with defaults produces a wallet', fi.where)
                tbl = ev.module_const('bip39', 'MNEMONIC_LENGTH_TO_ENTROPY_BITS')
                for words, ebits in ((12, 128), (15, 160), (18, 192), (21, 224), (24, 256)):
                    v, f = ev.call_function('base_wallet.BaseWallet.new_wallet', [T.clsref(cls), T.const(words), pw, tn])
                    fresh = T.raw_op('FRESH', T.const(ebits))
                    for cs, leaf in normal_leaves(v):
                        same_term(ob, leaf, wallet_of(SP.bip39_seed(fresh, pw), fresh, pw),
                                  'new_wallet(%d words) draws %d bits and forwards password/network' % (words, ebits), fi.where)
