"""C09 — WIF / SEC encodings and range rejection."""
from __future__ import annotations

from .. import terms as T
from ..evalr import Evaluator, Facts
from .. import externals as X
from ..spec import bip32 as SP
from ..spec import base58 as B58
from .common import *



_P = [None]


def _key_obj(k, be='ecdsa'):
    return mk_priv(_P[0], be, k)


def _pub_obj(P, be='ecdsa'):
    return mk_pub(_P[0], be, P)


def run(ctx):
    p = ctx.p
    ctx.explanation = (
        'PrivateKey.wif is abstractly evaluated in its four (compressed, testnet) cells and must be '
        'Base58Check(prefix || ser256(k) || 01?); the literal first-character set tested by from_wif is compared with '
        'the set of possible first characters of each WIF flavour, computed by interval arithmetic on Base58 from the '
        'prefix bytes that wif() itself uses; from_wif must strip exactly the version byte (and the 01 flag) and build '
        'the key through the validating constructor; every constructor (bytes, int, parse, from_int, from_wif, '
        'tweak_add) must leave VALID_SK(scalar) as a must-fact in both back ends; PublicKey.sec/parse back ends agree.')
    ctx.not_decided = ['k*G, square roots and acceptance of raw/hybrid encodings inside ecdsa/libsecp256k1',
                       'Base58 digit arithmetic (C10)']
    _P[0] = p
    fw = p.get_function('keys.PrivateKey.wif')
    k = S('k', type='bytes', len=32)
    cells = {}
    with ctx.obligation('C09.WIF', 'PrivateKey.wif', None, fw.where) as ob:
        ev = Evaluator(p, 'ecdsa')
        for comp in (True, False):
            for tn in (True, False):
                v, f = ev.call_function('keys.PrivateKey.wif', [_key_obj(k)], {'compressed': T.const(comp), 'testnet': T.const(tn)})
                prefix = b'\xef' if tn else b'\x80'
                payload = T.cat(T.const(prefix), k, T.const(b'\x01' if comp else b''))
                same_term(ob, v, SP.b58check(payload), 'WIF(compressed=%s, testnet=%s)' % (comp, tn), fw.where)
                cells[(comp, tn)] = v
        v, f = ev.call_function('keys.PrivateKey.wif', [_key_obj(k)])
        same_term(ob, v, SP.b58check(T.cat(T.const(b'\x80'), k, T.const(b'\x01'))), 'default WIF is compressed mainnet', fw.where)
        # the key objects a private node hands out (whatever class they are today) answer wif(compressed, testnet) the same
        # way, with the arguments given by position or by keyword
        node, kn = prv_node()
        nk = attr_of(ev, node, 'private_key', Facts())
        for cs_, key_obj in normal_leaves(nk):
            if T.tag(key_obj) != 'obj':
                ob.undecided('PrvKeyNode.private_key does not evaluate to an object', fw.where)
                continue
            for comp in (True, False):
                for tn in (True, False):
                    prefix = b'\xef' if tn else b'\x80'
                    want = SP.b58check(T.cat(T.const(prefix), kn, T.const(b'\x01' if comp else b'')))
                    v, f = ev.call_function('keys.PrivateKey.wif', [key_obj, T.const(comp), T.const(tn)], facts=Facts(cs_))
                    same_term(ob, v, want, 'node.private_key.wif(%s, %s) - positional arguments' % (comp, tn), fw.where)
                    v, f = ev.call_function('keys.PrivateKey.wif', [key_obj], {'compressed': T.const(comp), 'testnet': T.const(tn)}, facts=Facts(cs_))
                    same_term(ob, v, want, 'node.private_key.wif(compressed=%s, testnet=%s)' % (comp, tn), fw.where)
                v, f = ev.call_function('keys.PrivateKey.wif', [key_obj, T.const(comp)], facts=Facts(cs_))
                same_term(ob, v, SP.b58check(T.cat(T.const(b'\x80'), kn, T.const(b'\x01' if comp else b''))),
                          'node.private_key.wif(%s): the network defaults to mainnet' % comp, fw.where)
    # ---------------------------------------------------------------- first character analysis
    ffw = p.get_function('keys.PrivateKey.from_wif')
    with ctx.obligation('C09.FIRSTCHAR', 'PrivateKey.from_wif', None, ffw.where) as ob:
        summ = dict(X.DEFAULT_SUMMARIES)
        D = S('decoded', type='bytes')
        summ['helper.decode_base58_checksum'] = lambda ev_, fi, env, facts: (D, facts)
        ev = Evaluator(p, 'ecdsa', summaries=summ)
        s = S('wif_str', type='str')
        v, f = ev.call_function('keys.PrivateKey.from_wif', [T.clsref(PRIVKEY), s])
        first = T.getitem(s, T.const(0))
        lits = set()
        for c in T.phi_conditions(v):
            for d in (c[2:] if T.is_op(c, 'OR') else [c]):
                if T.is_op(d, 'EQ') and first in d[2:]:
                    other = d[2] if d[3] == first else d[3]
                    if T.is_const(other):
                        lits.add(other[1])
        if not lits:
            # accepted alternative idiom: deciding by decoded length
            ob.undecided('from_wif does not decide the compression flag by the first character; idiom not recognised')
        else:
            ob.note('first-character literals in from_wif: %s' % sorted(lits))
            comp_set, uncomp_set = set(), set()
            for (comp, tn), term in cells.items():
                payload = term[2] if T.is_op(term, 'B58ENC') else None
                if payload is None or not T.is_op(payload, 'CAT') or not T.is_const(payload[2]):
                    ob.undecided('cannot read the WIF prefix byte from wif()')
                    continue
                n = T.length_of(payload)
                chars = B58.leading_chars(payload[2][1][:1], n)
                if chars is None:
                    ob.undecided('WIF length varies for prefix %s' % payload[2][1][:1].hex())
                    continue
                (comp_set if comp else uncomp_set).update(chars)
                ob.note('flavour compressed=%s testnet=%s: %d-byte payload, first characters %s' % (comp, tn, n, sorted(chars)))
            ob.require(comp_set <= lits, 'a compressed WIF can start with a character that from_wif does not treat as compressed',
                       ffw.where, expected='superset of %s' % sorted(comp_set), found=sorted(lits))
            ob.require(not (uncomp_set & lits), 'an uncompressed WIF can start with a character that from_wif treats as compressed',
                       ffw.where, expected='disjoint from %s' % sorted(uncomp_set), found=sorted(lits))
    for be in BACKENDS:
        with ctx.obligation('C09.FROMWIF', 'PrivateKey.from_wif', be, ffw.where) as ob:
            for comp, n in ((True, 34), (False, 33)):
                summ = dict(X.DEFAULT_SUMMARIES)
                D = S('decoded', type='bytes', len=n)
                summ['helper.decode_base58_checksum'] = lambda ev_, fi, env, facts, D=D: (D, facts)
                ev = Evaluator(p, be, summaries=summ)
                s = S('wif_str', type='str')
                first = T.getitem(s, T.const(0))
                facts = Facts()
                cond = T.FALSE
                for ch in sorted(lits):
                    cond = T.or_(cond, T.eq(T.const(ch), first))
                facts = Facts().add(cond if comp else T.not_(cond))
                v, f = ev.call_function('keys.PrivateKey.from_wif', [T.clsref(PRIVKEY), s], facts=facts)
                keyb = T.slice_(D, T.const(1), T.const(33))
                for cs, leaf in normal_leaves(v):
                    same_priv(ob, ev, leaf, keyb, 'from_wif(%scompressed) takes bytes 1..32 of the payload as the scalar'
                              % ('' if comp else 'un'), ffw.where, facts=Facts(known_at(f, cs)))
                ob.require(T.raw_op('VALID_SK', keyb) in closure(f) or not normal_leaves(v),
                           'from_wif builds the key through the validating constructor', ffw.where)
            # a payload of any other size is refused ("byte strings of the wrong length are rejected wherever a key can be
            # constructed"): with the payload's length L unknown, the validating constructor accepts exactly 32 key bytes, so
            # every non-raising exit pins L through the slice it hands on - only the standard size may be possible
            for comp, n in ((True, 34), (False, 33)):
                summ = dict(X.DEFAULT_SUMMARIES)
                D2 = S('decoded', type='bytes')
                summ['helper.decode_base58_checksum'] = lambda ev_, fi, env, facts, D2=D2: (D2, facts)
                ev = Evaluator(p, be, summaries=summ)
                s = S('wif_str', type='str')
                first = T.getitem(s, T.const(0))
                cond = T.FALSE
                for ch in sorted(lits):
                    cond = T.or_(cond, T.eq(T.const(ch), first))
                v, f = ev.call_function('keys.PrivateKey.from_wif', [T.clsref(PRIVKEY), s], facts=Facts().add(cond if comp else T.not_(cond)))

                def slice_len(t_, L):
                    if t_ == D2:
                        return L
                    if T.is_op(t_, 'SLICE'):
                        inner = slice_len(t_[2], L)
                        if inner is None:
                            return None
                        # bounds may be written with the payload's length (end = len(payload) - 1)
                        lo, hi = (T.subst(b_, {T.len_(D2): T.const(L)}) for b_ in (t_[3], t_[4]))
                        if not (T.is_const(lo) and T.is_const(hi)):
                            return None
                        return len(range(inner)[slice(lo[1], hi[1])])
                    if T.is_op(t_, 'BYTES') and len(t_) == 3:
                        return slice_len(t_[2], L)
                    return None
                for cs, leaf in normal_leaves(v):
                    known = known_at(f, cs)
                    subj = [k[2] for k in known if T.is_op(k, 'VALID_SK')]
                    if not subj:
                        ob.require(False, 'from_wif(%scompressed) can return a key that did not pass the validating constructor'
                                   % ('' if comp else 'un'), ffw.where)
                        continue
                    sizes = None
                    for x_ in subj:
                        ok_l = {L for L in range(0, 96) if slice_len(x_, L) == 32}
                        if all(slice_len(x_, L) is None for L in (0, 33, 34, 40)):
                            continue
                        sizes = ok_l if sizes is None else (sizes & ok_l)
                    if sizes is None:
                        ob.undecided('from_wif: the bytes handed to the constructor are not a slice of the decoded payload: %s'
                                     % [T.show(x_, maxdepth=3) for x_ in subj], ffw.where)
                        continue
                    extra = sorted(sizes - {n})
                    ob.require(not extra, 'from_wif(%scompressed) accepts a payload of %s bytes (standard: %d): surplus bytes are '
                               'cut off instead of the string being rejected' % ('' if comp else 'un', extra[:6], n), ffw.where,
                               expected='only a %d-byte payload can yield a key' % n, found=[T.show(x_, maxdepth=3) for x_ in subj])
            # the decoder in front is the checksummed one
            ev = Evaluator(p, be)
            ev.call_function('keys.PrivateKey.from_wif', [T.clsref(PRIVKEY), S('w', type='str')])
            callees = {c for _, c in ev.calls}
            ob.require('helper.decode_base58_checksum' in callees, 'from_wif decodes through decode_base58_checksum', ffw.where,
                       found=sorted(callees)[:8])
    # ---------------------------------------------------------------- validating funnel
    for be in BACKENDS:
        finit = p.get_function('keys.PrivateKey.__init__')
        with ctx.obligation('C09.FUNNEL', 'PrivateKey constructors', be, finit.where) as ob:
            ev = Evaluator(p, be)
            b, n = S('b', type='bytes', len=32), S('n', type='int')
            nb = T.ser(n, T.const(32), BIG)
            for nm, call, scalar in (
                    ('PrivateKey(bytes)', lambda: ev.construct('keys.PrivateKey', [b]), b),
                    ('PrivateKey(int)', lambda: ev.construct('keys.PrivateKey', [n]), nb),
                    ('PrivateKey.parse', lambda: ev.call_function('keys.PrivateKey.parse', [T.clsref(PRIVKEY), b]), b),
                    ('PrivateKey.from_int', lambda: ev.call_function('keys.PrivateKey.from_int', [T.clsref(PRIVKEY), n]), nb)):
                v, f = call()
                for cs, leaf in normal_leaves(v):
                    same_priv(ob, ev, leaf, scalar, '%s stores the canonical 32-byte scalar and its point' % nm, finit.where,
                              facts=Facts(known_at(f, cs)))
                    ob.require(T.raw_op('VALID_SK', scalar) in known_at(f, cs),
                               '%s can complete without the scalar having been range-checked (0 < k < n, 32 bytes)' % nm,
                               finit.where, expected='VALID_SK fact from ec_seckey_verify / SigningKey.from_string(curve=SECP256k1)')
            # a byte string of another length: the bytes are handed to the validating call unchanged
            odd = S('odd', type='bytes')
            v, f = ev.construct('keys.PrivateKey', [odd])
            for cs, leaf in normal_leaves(v):
                ob.require(T.raw_op('VALID_SK', odd) in known_at(f, cs), 'PrivateKey(bytes of any length) reaches the validating call unchanged',
                           finit.where)
        if be == 'secp':
            ft = p.get_function('keys.PrivateKey.tweak_add')
            with ctx.obligation('C09.FUNNEL', 'PrivateKey.tweak_add', be, ft.where) as ob:
                ev = Evaluator(p, be)
                b, t = S('b', type='bytes', len=32), S('t', type='bytes', len=32)
                v, f = ev.call_function('keys.PrivateKey.tweak_add', [_key_obj(b, be), t])
                same_priv(ob, ev, v, T.sk_add(b, t), 'tweak_add is (k + t) mod n built through the constructor', ft.where, facts=f)
                ob.require(T.raw_op('VALID_SK', T.sk_add(b, t)) in closure(f), 'tweaked key is validated', ft.where)
            ft = p.get_function('keys.PublicKey.tweak_add')
            with ctx.obligation('C09.FUNNEL', 'PublicKey.tweak_add', be, ft.where) as ob:
                ev = Evaluator(p, be)
                P, t = S('P', type='point'), S('t', type='bytes', len=32)
                v, f = ev.call_function('keys.PublicKey.tweak_add', [_pub_obj(P, be), t])
                same_pub(ob, ev, v, T.pt_add(P, T.pt(t)), 'public tweak_add is P + t*G', ft.where)
    # ---------------------------------------------------------------- SEC siblings / equality
    fsec = p.get_function('keys.PublicKey.sec')
    with ctx.obligation('C09.SEC', 'PublicKey.sec/parse/__eq__', None, fsec.where) as ob:
        for be in BACKENDS:
            ev = Evaluator(p, be)
            P, Q, c, enc = S('P', type='point'), S('Q', type='point'), S('compressed', type='bool'), S('enc', type='bytes')
            v, _ = ev.call_function('keys.PublicKey.sec', [_pub_obj(P, be)], {'compressed': c})
            same_term(ob, v, T.sec(P, c), 'sec(compressed) [%s]' % be, fsec.where)
            v, f = ev.call_function('keys.PublicKey.parse', [T.clsref(PUBKEY), enc])
            same_pub(ob, ev, v, T.parse_pt(enc), 'parse [%s]' % be, fsec.where)
            ob.require(T.raw_op('ON_CURVE', enc) in closure(f), 'parse validates that the encoding is a curve point [%s]' % be, fsec.where)
            for comp in (True, False):
                v, f = ev.call_function('keys.PublicKey.parse', [T.clsref(PUBKEY), T.sec(P, T.const(comp))])
                same_pub(ob, ev, v, P, 'parse(sec(P, compressed=%s)) == P [%s]' % (comp, be), fsec.where)
            # "its compressed and uncompressed SEC encodings parse back to the same key": the objects parsed from the two
            # encodings (and the one made from the point) compare equal (which encoding an object prefers by default is not
            # the property's business)
            objs = []
            for comp in (True, False):
                o, _f = ev.call_function('keys.PublicKey.parse', [T.clsref(PUBKEY), T.sec(P, T.const(comp))])
                objs.append(('parse(sec(P, compressed=%s))' % comp, o))
            objs.append(('the key made from the point', _pub_obj(P, be)))
            for i_, (na, oa) in enumerate(objs):
                for nb, ob_ in objs[i_ + 1:]:
                    if T.tag(oa) != 'obj' or T.tag(ob_) != 'obj':
                        continue
                    v, _ = ev.call_function('keys.PublicKey.__eq__', [oa, ob_])
                    same_term(ob, v, T.TRUE, '%s == %s [%s]' % (na, nb, be), fsec.where)
            check_history_free(ob, ev, _pub_obj(P, be), [('sec(compressed=%s)' % c_, 'keys.PublicKey.sec', {'compressed': T.const(c_)})
                                                         for c_ in (True, False)] + [('sec()', 'keys.PublicKey.sec', {})],
                               'PublicKey [%s]' % be, fsec.where)
            check_history_free(ob, ev, _key_obj(k, be), [('wif(compressed=%s, testnet=%s)' % (c_, t_), 'keys.PrivateKey.wif',
                                                          {'compressed': T.const(c_), 'testnet': T.const(t_)})
                                                         for c_ in (True, False) for t_ in (True, False)] +
                               [('bytes()', 'keys.PrivateKey.__bytes__', {})], 'PrivateKey [%s]' % be, fsec.where)
            v, _ = ev.call_function('keys.PublicKey.__eq__', [_pub_obj(P, be), _pub_obj(Q, be)])
            same_term(ob, v, T.eq(T.sec(P, T.TRUE), T.sec(Q, T.TRUE)), 'public keys are equal iff their encodings are [%s]' % be, fsec.where)
            k1, k2 = S('k1', type='bytes', len=32), S('k2', type='bytes', len=32)
            v, _ = ev.call_function('keys.PrivateKey.__eq__', [_key_obj(k1, be), _key_obj(k2, be)])
            same_term(ob, v, T.eq(k1, k2), 'private keys are equal iff their scalars are [%s]' % be, fsec.where)
