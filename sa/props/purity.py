"""Purity precondition shared by every property: the term-level verdicts presuppose that the functions an analysis
consulted compute their result from their arguments and object fields only.  A cache decorator on a consulted function,
a module-level container that a consulted function mutates or reads-after-mutation, or a `global` statement voids that
(and is itself a way to make results depend on what happened before)."""
from __future__ import annotations

import ast

from ..loader import PKG

MUTATORS = {'append', 'extend', 'insert', 'pop', 'remove', 'clear', 'update', 'add', 'sort', 'reverse', 'setdefault',
            'popitem', 'discard', 'appendleft', '__setitem__'}


def module_containers(mi):
    out = set()
    for nm, nodes in mi.assigns.items():
        if isinstance(nodes[-1], (ast.Dict, ast.List, ast.Set, ast.DictComp, ast.ListComp, ast.SetComp)):
            out.add(nm)
        elif isinstance(nodes[-1], ast.Call) and isinstance(nodes[-1].func, ast.Name) and nodes[-1].func.id in (
                'dict', 'list', 'set', 'OrderedDict', 'defaultdict', 'deque', 'WeakValueDictionary', 'WeakKeyDictionary'):
            out.add(nm)
        elif isinstance(nodes[-1], ast.Call) and isinstance(nodes[-1].func, ast.Attribute) and nodes[-1].func.attr in (
                'OrderedDict', 'defaultdict', 'deque', 'WeakValueDictionary', 'WeakKeyDictionary'):
            out.add(nm)
    return out


def mutated_module_containers(p):
    """{(module name, container name)} for module-level containers that some package function mutates."""
    out = {}
    for fi in p.functions.values():
        conts = module_containers(fi.module)
        for ci in fi.module.classes.values():
            conts |= {nm for nm, node in ci.attrs.items() if isinstance(node, (ast.List, ast.Dict, ast.Set))}
        local = {n.id for n in ast.walk(fi.node) if isinstance(n, ast.Name) and isinstance(n.ctx, ast.Store)} | set(fi.params)
        for n in ast.walk(fi.node):
            name = None
            if isinstance(n, ast.Call) and isinstance(n.func, ast.Attribute) and n.func.attr in MUTATORS:
                base = n.func.value
                if isinstance(base, ast.Name):
                    name = base.id
                elif isinstance(base, ast.Attribute) and isinstance(base.value, ast.Name) and base.value.id == 'cls':
                    name = base.attr
            if isinstance(n, (ast.Assign, ast.AugAssign, ast.Delete)):
                for t in (n.targets if isinstance(n, (ast.Assign, ast.Delete)) else [n.target]):
                    if isinstance(t, ast.Subscript) and isinstance(t.value, ast.Name):
                        name = t.value.id
            if name and name in conts and name not in local:
                out.setdefault((fi.module.name, name), []).append((fi, n.lineno))
    return out


TRANSPARENT_DECORATORS = {'classmethod', 'staticmethod', 'property', 'abstractmethod', 'abc.abstractmethod', 'overload',
                          'typing.overload', 'wraps', 'functools.wraps', 'final', 'typing.final', 'override', 'typing.override'}


def _decorator_state(p, fi, d):
    """'transparent' | 'stateful' | 'unknown' for one decorator of a consulted function."""
    base = d.func if isinstance(d, ast.Call) else d
    txt = ast.unparse(base)
    if txt in TRANSPARENT_DECORATORS or txt.endswith('.setter') or txt.endswith('.getter'):
        return 'transparent'
    if 'cache' in txt.lower() or 'memo' in txt.lower():
        return 'transparent'        # reported by the name-based rule below
    r = p.resolve_name(fi.module, txt.split('.')[0]) if isinstance(base, (ast.Name, ast.Attribute)) else None
    dec = r if hasattr(r, 'node') and isinstance(getattr(r, 'node', None), ast.FunctionDef) else None
    if dec is None:
        return 'unknown'
    inner = [n for n in ast.walk(dec.node) if isinstance(n, (ast.FunctionDef, ast.Lambda)) and n is not dec.node]
    if not inner:
        return 'unknown'
    for w in inner:
        params = {a.arg for a in w.args.args} | ({w.args.vararg.arg} if w.args.vararg else set()) | ({w.args.kwarg.arg} if w.args.kwarg else set())
        local = {n.id for n in ast.walk(w) if isinstance(n, ast.Name) and isinstance(n.ctx, ast.Store)}
        for n in ast.walk(w):
            # stores into something that is not a fresh local: attributes / items of parameters or of closure variables
            if isinstance(n, (ast.Attribute, ast.Subscript)) and isinstance(n.ctx, (ast.Store, ast.Del)):
                return 'stateful'
            if isinstance(n, ast.Call) and isinstance(n.func, ast.Attribute) and n.func.attr in MUTATORS:
                root = n.func.value
                while isinstance(root, (ast.Attribute, ast.Subscript)):
                    root = root.value
                if not (isinstance(root, ast.Name) and root.id in local and root.id not in params):
                    return 'stateful'
            if isinstance(n, (ast.Global, ast.Nonlocal)):
                return 'stateful'
    # stateless: transparent only when the wrapper does nothing but forward the call
    fparams = [a.arg for a in dec.node.args.args]
    for w in inner:
        if isinstance(w, ast.Lambda):
            body = [ast.Return(value=w.body)]
        else:
            body = [s_ for s_ in w.body if not (isinstance(s_, ast.Expr) and isinstance(s_.value, ast.Constant))]
        if len(body) != 1 or not isinstance(body[0], ast.Return) or not isinstance(body[0].value, ast.Call):
            return 'unknown'
        call = body[0].value
        if not (isinstance(call.func, ast.Name) and call.func.id in fparams):
            return 'unknown'
        want = [a.arg for a in w.args.args]
        got = []
        for a in call.args:
            if isinstance(a, ast.Name):
                got.append(a.id)
            elif isinstance(a, ast.Starred) and isinstance(a.value, ast.Name):
                got.append('*' + a.value.id)
            else:
                return 'unknown'
        if w.args.vararg:
            want.append('*' + w.args.vararg.arg)
        if got != want:
            return 'unknown'
        kws = [(k.arg, ast.unparse(k.value)) for k in call.keywords]
        if w.args.kwarg and kws != [(None, w.args.kwarg.arg)]:
            return 'unknown'
        if not w.args.kwarg and kws:
            return 'unknown'
    return 'transparent'


def check_purity(ctx, pid, consulted):
    p = ctx.p
    with ctx.obligation('%s.PURE' % pid, 'functions consulted by the analysis', None, 'btc_hd_wallet/') as ob:
        ob.evaluations += 1
        ob.saw('%d consulted functions' % len(consulted))
        mutated = mutated_module_containers(p)
        for q in consulted:
            fi = p.functions.get(q)
            if fi is None:
                continue
            key = q[len(PKG) + 1:]
            where = fi.where
            for d in fi.node.decorator_list:
                txt = ast.unparse(d)
                verdict = _decorator_state(p, fi, d)
                if verdict == 'stateful':
                    ob.require(False, '%s is wrapped by @%s, whose wrapper keeps state between calls (it stores into / reads from an '
                               'object that outlives the call): the result for given arguments can be what an earlier call stored'
                               % (key, txt), '%s:%d' % (fi.module.relpath, d.lineno))
                    continue
                if verdict == 'unknown':
                    ob.undecided('%s is wrapped by @%s, a decorator this analysis cannot see through: the analysed body is not what '
                                 'callers get' % (key, txt), '%s:%d' % (fi.module.relpath, d.lineno))
                    continue
                if 'cache' in txt.lower() or 'memo' in txt.lower():
                    ob.require(False, '%s is memoised (@%s): its result for given arguments is whatever an earlier call stored - '
                               'a fresh/independent result is no longer computed, objects are shared between callers' % (key, txt),
                               '%s:%d' % (fi.module.relpath, d.lineno))
            for n in ast.walk(fi.node):
                if isinstance(n, (ast.Global, ast.Nonlocal)):
                    ob.require(False, '%s declares %s: it depends on or changes module-level state' % (key, ast.unparse(n)),
                               '%s:%d' % (fi.module.relpath, n.lineno))
                if isinstance(n, ast.Name) and isinstance(n.ctx, ast.Load) and (fi.module.name, n.id) in mutated:
                    sites = mutated[(fi.module.name, n.id)]
                    ob.require(False, '%s uses the module-level container %s, which is mutated at run time (%s): the result depends '
                               'on earlier calls (a cache/registry), not only on the arguments' % (
                                   key, n.id, ', '.join('%s:%d' % (f.qual[len(PKG) + 1:], ln) for f, ln in sites[:3])),
                               '%s:%d' % (fi.module.relpath, n.lineno))
                    break
