"""Purity precondition shared by every property: the term-level verdicts presuppose that the functions an analysis
consulted compute their result from their arguments and object fields only.  A cache decorator on a consulted function,
a module-level container that a consulted function mutates or reads-after-mutation, or a `global` statement voids that
(and is itself a way to make results depend on what happened before)."""
from __future__ import annotations

import ast

from ..loader import PKG

MUTATORS = {'append', 'extend', 'insert', 'pop', 'remove', 'clear', 'update', 'add', 'sort', 'reverse', 'setdefault',
            'popitem', 'discard', 'appendleft', '__setitem__'}


def module_containers(mi):
    out = set()
    for nm, nodes in mi.assigns.items():
        if isinstance(nodes[-1], (ast.Dict, ast.List, ast.Set, ast.DictComp, ast.ListComp, ast.SetComp)):
            out.add(nm)
        elif isinstance(nodes[-1], ast.Call) and isinstance(nodes[-1].func, ast.Name) and nodes[-1].func.id in (
                'dict', 'list', 'set', 'OrderedDict', 'defaultdict', 'deque', 'WeakValueDictionary', 'WeakKeyDictionary'):
            out.add(nm)
        elif isinstance(nodes[-1], ast.Call) and isinstance(nodes[-1].func, ast.Attribute) and nodes[-1].func.attr in (
                'OrderedDict', 'defaultdict', 'deque', 'WeakValueDictionary', 'WeakKeyDictionary'):
            out.add(nm)
    return out


def mutated_module_containers(p):
    """{(module name, container name)} for module-level containers that some package function mutates."""
    out = {}
    for fi in p.functions.values():
        conts = module_containers(fi.module)
        for ci in fi.module.classes.values():
            conts |= {nm for nm, node in ci.attrs.items() if isinstance(node, (ast.List, ast.Dict, ast.Set))}
        local = {n.id for n in ast.walk(fi.node) if isinstance(n, ast.Name) and isinstance(n.ctx, ast.Store)} | set(fi.params)
        for n in ast.walk(fi.node):
            name = None
            if isinstance(n, ast.Call) and isinstance(n.func, ast.Attribute) and n.func.attr in MUTATORS:
                base = n.func.value
                if isinstance(base, ast.Name):
                    name = base.id
                elif isinstance(base, ast.Attribute) and isinstance(base.value, ast.Name) and base.value.id == 'cls':
                    name = base.attr
            if isinstance(n, (ast.Assign, ast.AugAssign, ast.Delete)):
                for t in (n.targets if isinstance(n, (ast.Assign, ast.Delete)) else [n.target]):
                    if isinstance(t, ast.Subscript) and isinstance(t.value, ast.Name):
                        name = t.value.id
            if name and name in conts and name not in local:
                out.setdefault((fi.module.name, name), []).append((fi, n.lineno))
    return out


def check_purity(ctx, pid, consulted):
    p = ctx.p
    with ctx.obligation('%s.PURE' % pid, 'functions consulted by the analysis', None, 'btc_hd_wallet/') as ob:
        ob.evaluations += 1
        ob.saw('%d consulted functions' % len(consulted))
        mutated = mutated_module_containers(p)
        for q in consulted:
            fi = p.functions.get(q)
            if fi is None:
                continue
            key = q[len(PKG) + 1:]
            where = fi.where
            for d in fi.node.decorator_list:
                txt = ast.unparse(d)
                if 'cache' in txt.lower() or 'memo' in txt.lower():
                    ob.require(False, '%s is memoised (@%s): its result for given arguments is whatever an earlier call stored - '
                               'a fresh/independent result is no longer computed, objects are shared between callers' % (key, txt),
                               '%s:%d' % (fi.module.relpath, d.lineno))
            for n in ast.walk(fi.node):
                if isinstance(n, (ast.Global, ast.Nonlocal)):
                    ob.require(False, '%s declares %s: it depends on or changes module-level state' % (key, ast.unparse(n)),
                               '%s:%d' % (fi.module.relpath, n.lineno))
                if isinstance(n, ast.Name) and isinstance(n.ctx, ast.Load) and (fi.module.name, n.id) in mutated:
                    sites = mutated[(fi.module.name, n.id)]
                    ob.require(False, '%s uses the module-level container %s, which is mutated at run time (%s): the result depends '
                               'on earlier calls (a cache/registry), not only on the arguments' % (
                                   key, n.id, ', '.join('%s:%d' % (f.qual[len(PKG) + 1:], ln) for f, ln in sites[:3])),
                               '%s:%d' % (fi.module.relpath, n.lineno))
                    break
