"""Purity precondition shared by every property: the term-level verdicts presuppose that the functions an analysis
consulted compute their result from their arguments and object fields only.  A cache decorator on a consulted function,
a module-level container that a consulted function mutates or reads-after-mutation, or a `global` statement voids that
(and is itself a way to make results depend on what happened before)."""
from __future__ import annotations

import ast

from ..loader import PKG

MUTATORS = {'append', 'extend', 'insert', 'pop', 'remove', 'clear', 'update', 'add', 'sort', 'reverse', 'setdefault',
            'popitem', 'discard', 'appendleft', '__setitem__'}


def module_containers(mi):
    out = set()
    for nm, nodes in mi.assigns.items():
        if isinstance(nodes[-1], (ast.Dict, ast.List, ast.Set, ast.DictComp, ast.ListComp, ast.SetComp)):
            out.add(nm)
        elif isinstance(nodes[-1], ast.Call) and isinstance(nodes[-1].func, ast.Name) and nodes[-1].func.id in (
                'dict', 'list', 'set', 'OrderedDict', 'defaultdict', 'deque', 'WeakValueDictionary', 'WeakKeyDictionary'):
            out.add(nm)
        elif isinstance(nodes[-1], ast.Call) and isinstance(nodes[-1].func, ast.Attribute) and nodes[-1].func.attr in (
                'OrderedDict', 'defaultdict', 'deque', 'WeakValueDictionary', 'WeakKeyDictionary'):
            out.add(nm)
    return out


def _container_of(p, mi, expr):
    """(module name, container name) when `expr` names a module-level container - of this module, imported from another
    package module (`from m import X`), or reached as `module.X` - else None"""
    if isinstance(expr, ast.Name):
        r = p.resolve_name(mi, expr.id)
        if isinstance(r, tuple) and r and r[0] == 'assign' and r[2] in module_containers(r[1]):
            return (r[1].name, r[2])
    if isinstance(expr, ast.Attribute) and isinstance(expr.value, ast.Name):
        r = p.resolve_name(mi, expr.value.id)
        if hasattr(r, 'assigns') and expr.attr in module_containers(r):
            return (r.name, expr.attr)
    return None


def mutated_module_containers(p):
    """{(module name, container name)} for module-level containers that some package function mutates - directly, through
    `module.X`, through an imported name, or through a local alias (`allowed = TABLE; allowed += [...]` extends TABLE in
    place: augmented assignment on a list / set / dict mutates the object every other name refers to)."""
    out = {}
    for fi in p.functions.values():
        mi = fi.module
        conts = module_containers(mi)
        cls_conts = set()
        for ci in mi.classes.values():
            cls_conts |= {nm for nm, node in ci.attrs.items() if isinstance(node, (ast.List, ast.Dict, ast.Set))}
        stores = {}
        for n in ast.walk(fi.node):
            if isinstance(n, ast.Name) and isinstance(n.ctx, ast.Store):
                stores.setdefault(n.id, 0)
                stores[n.id] += 1
        local = set(stores) | set(fi.params)
        declared_global = {nm for n in ast.walk(fi.node) if isinstance(n, (ast.Global, ast.Nonlocal)) for nm in n.names}
        # local aliases of module-level containers: `a = TABLE` / `a = module.TABLE` (any such binding makes `a` a may-alias)
        alias = {}
        for n in ast.walk(fi.node):
            if isinstance(n, (ast.Assign, ast.AnnAssign)) and n.value is not None:
                tgts = n.targets if isinstance(n, ast.Assign) else [n.target]
                c = _container_of(p, mi, n.value)
                if c is not None and not (isinstance(n.value, ast.Name) and n.value.id in local and n.value.id not in declared_global):
                    for t in tgts:
                        if isinstance(t, ast.Name):
                            alias[t.id] = c

        def target_of(expr):
            """the module-level container an expression denotes inside this function"""
            if isinstance(expr, ast.Name):
                if expr.id in alias:
                    return alias[expr.id]
                if expr.id in local and expr.id not in declared_global:
                    return None
                if expr.id in cls_conts:
                    return (mi.name, expr.id)
                return _container_of(p, mi, expr)
            if isinstance(expr, ast.Attribute) and isinstance(expr.value, ast.Name) and expr.value.id in ('cls', 'self') \
                    and expr.attr in cls_conts:
                return (mi.name, expr.attr)
            if isinstance(expr, ast.Attribute):
                return _container_of(p, mi, expr)
            return None
        for n in ast.walk(fi.node):
            hit = None
            if isinstance(n, ast.Call) and isinstance(n.func, ast.Attribute) and n.func.attr in MUTATORS:
                hit = target_of(n.func.value)
            if isinstance(n, (ast.Assign, ast.Delete)):
                for t in n.targets:
                    if isinstance(t, ast.Subscript):
                        hit = hit or target_of(t.value)
            if isinstance(n, ast.AugAssign):
                if isinstance(n.target, ast.Subscript):
                    hit = target_of(n.target.value)
                elif isinstance(n.target, ast.Name) and n.target.id in alias:
                    # in-place operator on an alias of the shared object
                    hit = alias[n.target.id]
                elif isinstance(n.target, ast.Name) and n.target.id in declared_global:
                    hit = target_of(ast.Name(id=n.target.id, ctx=ast.Load()))
                elif isinstance(n.target, ast.Attribute):
                    hit = target_of(n.target)
            if hit is not None:
                out.setdefault(hit, []).append((fi, n.lineno))
    return out


TRANSPARENT_DECORATORS = {'classmethod', 'staticmethod', 'property', 'abstractmethod', 'abc.abstractmethod', 'overload',
                          'typing.overload', 'wraps', 'functools.wraps', 'final', 'typing.final', 'override', 'typing.override'}


def _decorator_state(p, fi, d):
    """'transparent' | 'stateful' | 'unknown' for one decorator of a consulted function."""
    base = d.func if isinstance(d, ast.Call) else d
    txt = ast.unparse(base)
    if txt in TRANSPARENT_DECORATORS or txt.endswith('.setter') or txt.endswith('.getter'):
        return 'transparent'
    if 'cache' in txt.lower() or 'memo' in txt.lower():
        return 'transparent'        # reported by the name-based rule below
    r = p.resolve_name(fi.module, txt.split('.')[0]) if isinstance(base, (ast.Name, ast.Attribute)) else None
    dec = r if hasattr(r, 'node') and isinstance(getattr(r, 'node', None), ast.FunctionDef) else None
    if dec is None:
        return 'unknown'
    inner = [n for n in ast.walk(dec.node) if isinstance(n, (ast.FunctionDef, ast.Lambda)) and n is not dec.node]
    if not inner:
        return 'unknown'
    for w in inner:
        params = {a.arg for a in w.args.args} | ({w.args.vararg.arg} if w.args.vararg else set()) | ({w.args.kwarg.arg} if w.args.kwarg else set())
        local = {n.id for n in ast.walk(w) if isinstance(n, ast.Name) and isinstance(n.ctx, ast.Store)}
        for n in ast.walk(w):
            # stores into something that is not a fresh local: attributes / items of parameters or of closure variables
            if isinstance(n, (ast.Attribute, ast.Subscript)) and isinstance(n.ctx, (ast.Store, ast.Del)):
                return 'stateful'
            if isinstance(n, ast.Call) and isinstance(n.func, ast.Attribute) and n.func.attr in MUTATORS:
                root = n.func.value
                while isinstance(root, (ast.Attribute, ast.Subscript)):
                    root = root.value
                if not (isinstance(root, ast.Name) and root.id in local and root.id not in params):
                    return 'stateful'
            if isinstance(n, (ast.Global, ast.Nonlocal)):
                return 'stateful'
    # stateless: transparent only when the wrapper does nothing but forward the call
    fparams = [a.arg for a in dec.node.args.args]
    for w in inner:
        if isinstance(w, ast.Lambda):
            body = [ast.Return(value=w.body)]
        else:
            body = [s_ for s_ in w.body if not (isinstance(s_, ast.Expr) and isinstance(s_.value, ast.Constant))]
        if len(body) != 1 or not isinstance(body[0], ast.Return) or not isinstance(body[0].value, ast.Call):
            return 'unknown'
        call = body[0].value
        if not (isinstance(call.func, ast.Name) and call.func.id in fparams):
            return 'unknown'
        want = [a.arg for a in w.args.args]
        got = []
        for a in call.args:
            if isinstance(a, ast.Name):
                got.append(a.id)
            elif isinstance(a, ast.Starred) and isinstance(a.value, ast.Name):
                got.append('*' + a.value.id)
            else:
                return 'unknown'
        if w.args.vararg:
            want.append('*' + w.args.vararg.arg)
        if got != want:
            return 'unknown'
        kws = [(k.arg, ast.unparse(k.value)) for k in call.keywords]
        if w.args.kwarg and kws != [(None, w.args.kwarg.arg)]:
            return 'unknown'
        if not w.args.kwarg and kws:
            return 'unknown'
    return 'transparent'


_IMMUTABLE = {'int', 'str', 'bytes', 'bool', 'none', 'float'}


def _immutable_value(t):
    from .. import terms as T
    if T.tag(t) == 'raise':
        return True
    if T.tag(t) == 'tuple':
        return all(_immutable_value(x) for x in t[1])
    if T.tag(t) in ('list', 'dict', 'obj', 'closure', 'opaque'):
        return False
    ty = T.type_of(t)
    return ty in _IMMUTABLE


def _returns_mutable(fi, _depth=0):
    """syntactic evidence that a function returns a fresh mutable container / object: its annotation, a returned display
    or comprehension, or a returned local that was bound to one"""
    r = fi.node.returns
    if r is not None:
        txt = ast.unparse(r)
        if any(txt.startswith(x) for x in ('List', 'Dict', 'Set', 'list', 'dict', 'set', 'typing.List', 'typing.Dict', 'typing.Set',
                                           'bytearray', 'Deque', 'deque')):
            return True
    made = set()
    for n in ast.walk(fi.node):
        if isinstance(n, ast.Assign) and isinstance(n.value, (ast.List, ast.Dict, ast.Set, ast.ListComp, ast.DictComp, ast.SetComp)) or (
                isinstance(n, ast.Assign) and isinstance(n.value, ast.Call) and isinstance(n.value.func, ast.Name)
                and n.value.func.id in ('list', 'dict', 'set', 'bytearray', 'deque')):
            for t in n.targets:
                if isinstance(t, ast.Name):
                    made.add(t.id)
    # a local bound to the result of a module function that itself returns a fresh container
    if _depth < 2:
        for n in ast.walk(fi.node):
            if isinstance(n, ast.Assign) and isinstance(n.value, ast.Call) and isinstance(n.value.func, ast.Name):
                h = fi.module.functions.get(n.value.func.id)
                if h is not None and h is not fi and _returns_mutable(h, _depth + 1):
                    for t in n.targets:
                        if isinstance(t, ast.Name):
                            made.add(t.id)
    for n in ast.walk(fi.node):
        if isinstance(n, ast.Return) and n.value is not None:
            vals = list(n.value.elts) if isinstance(n.value, ast.Tuple) else [n.value]
            for v_ in vals:
                if isinstance(v_, (ast.List, ast.Dict, ast.Set, ast.ListComp, ast.DictComp, ast.SetComp)):
                    return True
                if isinstance(v_, ast.Name) and v_.id in made:
                    return True
    return False


def _transparent_memo(p, fi, d):
    """functools.lru_cache / functools.cache on a function: True when a stored result cannot be told from a fresh one -
    the function is a module-level function or static method (no receiver whose state could change between calls), every
    result is an immutable value (shared objects cannot be altered by one caller for the next), and its behaviour does not
    depend on the *type* of an argument (the cache keys by equality: 1, 1.0 and True share an entry).  False when a
    result is a mutable object.  None when undecided."""
    from .. import terms as T
    from ..evalr import Evaluator
    from .common import S, distinct_leaves
    base = d.func if isinstance(d, ast.Call) else d
    name = ast.unparse(base)
    if name not in ('lru_cache', 'functools.lru_cache', 'cache', 'functools.cache'):
        return False
    typed = isinstance(d, ast.Call) and any(k.arg == 'typed' and isinstance(k.value, ast.Constant) and k.value.value is True for k in d.keywords)
    if fi.cls is not None and fi.kind not in ('staticmethod', 'classmethod'):
        return False            # keyed by the receiver: instances are kept alive and compared by __eq__/__hash__
    ann = {a.arg: a.annotation for a in fi.node.args.args}
    args = []
    for q in fi.params:
        a_ = ann.get(q)
        ty = a_.id if isinstance(a_, ast.Name) and a_.id in ('str', 'bytes', 'int', 'bool') else None
        if fi.kind == 'classmethod' and q == fi.params[0] and fi.cls is not None:
            args.append(T.clsref(fi.cls.qual))
        else:
            args.append(S('memo_' + q, type=ty) if ty else S('memo_' + q))
    leaves_, vs = [], []
    for be in ('secp', 'ecdsa'):
        try:
            v, _ = Evaluator(p, be).call_function(fi.qual[len(PKG) + 1:], args)
        except Exception as e:
            if type(e).__name__ == 'NameErrorSignal':
                continue        # a function of the other back end's arm: it raises NameError here (nothing is stored)
            return None
        vs.append(v)
        leaves_ += [x for x in distinct_leaves(v) if x not in leaves_]
    if not vs:
        return None
    v = T.tup(vs)
    # not a function of its arguments: a random draw, an environment condition, the clock - a stored result then REPLACES
    # what a fresh call would have produced (every "new" mnemonic the same one)
    impure = sorted({x[1] for x in T.walk(v) if T.is_op(x) and x[1] in ('RANDBITS', 'RANDBYTES', 'RANDVAL', 'CSPRNG', 'PRNG', 'EXTCALL')}
                    | {str(x[1])[:40] for x in T.walk(v) if T.tag(x) == 'sym' and str(x[1]).startswith('ENV:')})
    if impure:
        return False

    def has_mutable(x):
        if T.tag(x) in ('list', 'dict', 'obj'):
            return True
        if T.type_of(x) == 'point':
            return True     # a native library object: ec_pubkey_tweak_add modifies its argument in place (C13.INPLACE)
        if T.tag(x) == 'tuple':
            return any(has_mutable(y) for y in x[1])
        return False
    if any(has_mutable(x) for x in leaves_):
        return False
    if not all(_immutable_value(x) for x in leaves_):
        # the evaluator cannot see the value: the source still says what kind of thing is returned
        if _returns_mutable(fi):
            return False
        return None
    if not typed:
        # equal keys of different types: harmless unless the function looks at the type of an argument
        for n in ast.walk(fi.node):
            if isinstance(n, ast.Call) and isinstance(n.func, ast.Name) and n.func.id in ('isinstance', 'type') and n.args \
                    and isinstance(n.args[0], ast.Name) and n.args[0].id in fi.params:
                return None
        numeric = [q for q in fi.params if not (isinstance(ann.get(q), ast.Name) and ann[q].id in ('str', 'bytes'))
                   and not (fi.kind == 'classmethod' and q == fi.params[0])]
        if numeric and any(isinstance(n, (ast.JoinedStr, ast.FormattedValue)) or
                           (isinstance(n, ast.Call) and isinstance(n.func, ast.Name) and n.func.id in ('str', 'repr', 'format'))
                           or (isinstance(n, ast.Call) and isinstance(n.func, ast.Attribute) and n.func.attr == 'format')
                           for n in ast.walk(fi.node)):
            return None         # str(1) != str(True) != str(1.0): a textual result depends on the key's type
    return True


ONE_SHOT_MAKERS = {'map', 'filter', 'zip', 'iter', 'enumerate', 'reversed', 'chain', 'islice', 'takewhile', 'dropwhile',
                   'accumulate', 'starmap', 'zip_longest', 'groupby', 'tee'}


def one_shot_constants(p):
    """{(module name, NAME) or (class qual, NAME): line} for module- and class-level names bound to a one-shot iterator
    (map / filter / zip / iter / enumerate / reversed / itertools pipelines / a generator expression): the first consumer
    uses it up, every later consumer sees it empty - state that outlives a call although nothing is ever assigned."""
    out = {}

    def is_one_shot(v):
        if isinstance(v, ast.GeneratorExp):
            return True
        if isinstance(v, ast.Call):
            f = v.func
            nm = f.id if isinstance(f, ast.Name) else (f.attr if isinstance(f, ast.Attribute) else '')
            return nm in ONE_SHOT_MAKERS
        return False
    def module_level(stmts):
        # statements executed at import: the module body and what is nested in its try / if / with / for blocks
        for st in stmts:
            yield st
            if isinstance(st, (ast.FunctionDef, ast.AsyncFunctionDef, ast.ClassDef)):
                continue
            for fld in ('body', 'orelse', 'finalbody'):
                sub = getattr(st, fld, None)
                if isinstance(sub, list) and sub and isinstance(sub[0], ast.stmt):
                    yield from module_level(sub)
            for h in getattr(st, 'handlers', []) or []:
                yield from module_level(h.body)
    for mi in p.modules.values():
        for st in module_level(mi.tree.body):
            if isinstance(st, (ast.Assign, ast.AnnAssign)) and st.value is not None and is_one_shot(st.value):
                for t in (st.targets if isinstance(st, ast.Assign) else [st.target]):
                    if isinstance(t, ast.Name):
                        out[(mi.name, t.id)] = st.lineno
            if isinstance(st, ast.ClassDef):
                for s2 in st.body:
                    if isinstance(s2, (ast.Assign, ast.AnnAssign)) and s2.value is not None and is_one_shot(s2.value):
                        for t in (s2.targets if isinstance(s2, ast.Assign) else [s2.target]):
                            if isinstance(t, ast.Name):
                                out[('%s.%s' % (mi.name, st.name), t.id)] = s2.lineno
    return out


def check_purity(ctx, pid, consulted):
    p = ctx.p
    with ctx.obligation('%s.PURE' % pid, 'functions consulted by the analysis', None, 'btc_hd_wallet/') as ob:
        ob.evaluations += 1
        ob.saw('%d consulted functions' % len(consulted))
        mutated = mutated_module_containers(p)
        one_shot = one_shot_constants(p)
        if one_shot:
            for q in consulted:
                fi = p.functions.get(q)
                if fi is None:
                    continue
                for n in ast.walk(fi.node):
                    hit = None
                    if isinstance(n, ast.Name) and isinstance(n.ctx, ast.Load) and (fi.module.name, n.id) in one_shot \
                            and n.id not in fi.params:
                        hit = ((fi.module.name, n.id), n)
                    elif isinstance(n, ast.Attribute) and isinstance(n.ctx, ast.Load) and isinstance(n.value, ast.Name):
                        for (owner, nm), ln in one_shot.items():
                            if nm == n.attr and (owner.split('.')[-1] == n.value.id or
                                                 (fi.cls is not None and n.value.id in fi.params[:1] and owner == fi.cls.qual)):
                                hit = ((owner, nm), n)
                    if hit is not None:
                        ob.require(False, '%s consumes %s.%s, a one-shot iterator created once at import (line %d): the first call '
                                   'uses it up and every later call sees it empty - the result depends on earlier calls'
                                   % (q[len(PKG) + 1:], hit[0][0].split('.')[-1], hit[0][1], one_shot[hit[0]]),
                                   '%s:%d' % (fi.module.relpath, hit[1].lineno))
                        break
        for q in consulted:
            fi = p.functions.get(q)
            if fi is None:
                continue
            key = q[len(PKG) + 1:]
            where = fi.where
            for d in fi.node.decorator_list:
                txt = ast.unparse(d)
                verdict = _decorator_state(p, fi, d)
                if verdict == 'stateful':
                    # a wrapper that keeps state: acceptable exactly when no API result of the class depends on that state
                    # (semantic history check of C13: every call after every state-changing call equals the fresh call)
                    from .C13 import history_verdict
                    hv, detail = history_verdict(p, fi.cls.qual) if fi.cls is not None else (None, 'a module-level function')
                    if hv is True:
                        ob.evaluations += 1
                        ob.note('%s is wrapped by @%s, which keeps state; the semantic history check shows every result independent of it' % (key, txt))
                    elif hv is False:
                        ob.require(False, '%s is wrapped by @%s, whose wrapper keeps state between calls, and a result depends on it: %s'
                                   % (key, txt, detail[:400]), '%s:%d' % (fi.module.relpath, d.lineno))
                    else:
                        ob.undecided('%s is wrapped by @%s, whose wrapper keeps state between calls; whether results depend on it '
                                     'could not be decided (%s)' % (key, txt, detail[:200]), '%s:%d' % (fi.module.relpath, d.lineno))
                    continue
                if verdict == 'unknown':
                    ob.undecided('%s is wrapped by @%s, a decorator this analysis cannot see through: the analysed body is not what '
                                 'callers get' % (key, txt), '%s:%d' % (fi.module.relpath, d.lineno))
                    continue
                if 'cache' in txt.lower() or 'memo' in txt.lower():
                    tr = _transparent_memo(p, fi, d)
                    if tr is True:
                        ob.evaluations += 1
                        ob.note('%s is memoised (@%s); every result is an immutable value computed from the arguments alone, so the '
                                'stored result is indistinguishable from a fresh one' % (key, txt))
                        continue
                    if tr is None:
                        ob.undecided('%s is memoised (@%s); whether a stored result can differ from a fresh one (type-dependent '
                                     'behaviour behind equal keys, or results of unknown mutability) is not decided' % (key, txt),
                                     '%s:%d' % (fi.module.relpath, d.lineno))
                        continue
                    ob.require(False, '%s is memoised (@%s): its result for given arguments is whatever an earlier call stored - '
                               'a fresh/independent result is no longer computed, objects are shared between callers' % (key, txt),
                               '%s:%d' % (fi.module.relpath, d.lineno))
            # a mutable default argument that the function writes to is one object shared by all calls (a hidden cache)
            a_ = fi.node.args
            pos_ = list(a_.posonlyargs) + list(a_.args)
            dflt = dict(zip([x.arg for x in pos_[len(pos_) - len(a_.defaults):]], a_.defaults))
            dflt.update({x.arg: d for x, d in zip(a_.kwonlyargs, a_.kw_defaults) if d is not None})
            for pn, d in dflt.items():
                mutable = isinstance(d, (ast.Dict, ast.List, ast.Set)) or (
                    isinstance(d, ast.Call) and isinstance(d.func, ast.Name) and d.func.id in ('dict', 'list', 'set', 'defaultdict', 'OrderedDict', 'bytearray'))
                if not mutable:
                    continue
                written = None
                for n in ast.walk(fi.node):
                    if isinstance(n, ast.Subscript) and isinstance(n.ctx, (ast.Store, ast.Del)) and isinstance(n.value, ast.Name) and n.value.id == pn:
                        written = n
                    if isinstance(n, ast.Call) and isinstance(n.func, ast.Attribute) and isinstance(n.func.value, ast.Name) \
                            and n.func.value.id == pn and n.func.attr in ('append', 'extend', 'insert', 'pop', 'remove', 'clear', 'update',
                                                                          'add', 'setdefault', 'popitem', 'sort', 'reverse'):
                        written = n
                if written is not None and not any(isinstance(n, ast.Name) and n.id == pn and isinstance(n.ctx, ast.Store) for n in ast.walk(fi.node)):
                    ob.require(False, '%s writes to its parameter `%s`, whose default value %s is one object created at import and '
                               'shared by every call that leaves the parameter out: results depend on earlier calls (on other objects, '
                               'too)' % (key, pn, ast.unparse(d)), '%s:%d' % (fi.module.relpath, written.lineno))
            for n in ast.walk(fi.node):
                if isinstance(n, ast.Global):         # (`nonlocal` rebinds a local of the enclosing *function*: call-local state)
                    ob.require(False, '%s declares %s: it depends on or changes module-level state' % (key, ast.unparse(n)),
                               '%s:%d' % (fi.module.relpath, n.lineno))
                c = _container_of(p, fi.module, n) if isinstance(n, (ast.Name, ast.Attribute)) and isinstance(n.ctx, ast.Load) else None
                if c is None and isinstance(n, ast.Name) and isinstance(n.ctx, ast.Load) and (fi.module.name, n.id) in mutated:
                    c = (fi.module.name, n.id)
                if c is not None and c in mutated:
                    sites = mutated[c]
                    ob.require(False, '%s uses the module-level container %s, which is mutated at run time (%s): the result depends '
                               'on earlier calls (a cache/registry), not only on the arguments' % (
                                   key, '%s.%s' % c, ', '.join('%s:%d' % (f.qual[len(PKG) + 1:], ln) for f, ln in sites[:3])),
                               '%s:%d' % (fi.module.relpath, n.lineno))
                    break
