"""Representation-independent check of the RIPEMD-160 compression function (fallback of C05.RMD-ROUND when the code
is not written with the helper functions fi/rol and one loop over 80 rounds).

The loop nest of `compress` is flattened into its innermost iterations (any nesting of loops over fixed tables; the
loop variables may be numbers, table rows or lambdas).  Every iteration is evaluated on its own with the two lines of
state bound to symbols, and what it stores back is compared with the RIPEMD-160 step *modulo 2^32*:

  low-32 normal form   sums are flattened and taken mod 2^32, `& 0xffffffff` / `% 2**32` disappear, a bitwise expression
                       over at most four operands is its truth table, `(x << s) | (x >> 32-s)` is ROL(x, s);
  width rule           the low 32 bits of +, <<, &, |, ^, ~ depend only on the low 32 bits of their operands - a RIGHT
                       shift does not: its operand must be known to lie in [0, 2^32).  Whether a state variable is known
                       to be that small is tracked from step to step (and, across calls, from the values `compress`
                       returns to the ones it receives); a right shift of a possibly wider value is reported - bits above
                       2^32 would enter the rotation (digests of multi-block messages go wrong);
  roles                which variable holds which of A..E of which line may change from step to step; the values of one
                       step are matched to the five values the specification produces (they are pairwise distinct)."""
from __future__ import annotations

import ast

from .. import terms as T
from ..evalr import Evaluator, Facts, Frame, _fixed_items, FALL
from ..loader import AnalysisError
from ..spec import ripemd as R

M32 = 0xffffffff


class Dirty(Exception):
    pass


# ----------------------------------------------------------------------------------------------- canonical forms
def c_const(v):
    return ('c', v & M32)


def c_sum(items):
    flat, k = [], 0
    for it in items:
        if it[0] == 'sum':
            flat.extend(it[1])
            k += it[2]
        elif it[0] == 'c':
            k += it[1]
        else:
            flat.append(it)
    k &= M32
    flat.sort(key=repr)
    if not flat:
        return ('c', k)
    if len(flat) == 1 and k == 0:
        return flat[0]
    return ('sum', tuple(flat), k)


def c_rol(x, s):
    s %= 32
    return x if s == 0 else ('rol', x, s)


_BW = ('and', 'or', 'xor', 'not')


def c_bitwise(op, *args):
    """canonical form of a bitwise combination: truth table over its non-bitwise operands (when there are at most four)"""
    node = (op,) + tuple(args)
    leaves = []

    def collect(n):
        if n[0] in _BW:
            for x in n[1:]:
                collect(x)
        elif n[0] == 'bw':
            for x in n[2]:
                collect(x)
        elif n[0] == 'c' and n[1] in (0, M32):
            pass
        elif n not in leaves:
            leaves.append(n)
    collect(node)
    if len(leaves) > 4:
        return node
    leaves.sort(key=repr)

    def ev(n, asg):
        if n[0] == 'and':
            return ev(n[1], asg) & ev(n[2], asg)
        if n[0] == 'or':
            return ev(n[1], asg) | ev(n[2], asg)
        if n[0] == 'xor':
            return ev(n[1], asg) ^ ev(n[2], asg)
        if n[0] == 'not':
            return 1 - ev(n[1], asg)
        if n[0] == 'bw':
            idx = 0
            for i, lf in enumerate(n[2]):
                idx |= asg[lf] << i
            return (n[1] >> idx) & 1
        if n[0] == 'c':
            return 1 if n[1] == M32 else 0
        return asg[n]
    tt = 0
    for a in range(1 << len(leaves)):
        asg = {lf: (a >> i) & 1 for i, lf in enumerate(leaves)}
        tt |= ev(node, asg) << a
    # drop operands the function does not depend on
    keep = []
    for i, lf in enumerate(leaves):
        dep = any(((tt >> a) & 1) != ((tt >> (a ^ (1 << i))) & 1) for a in range(1 << len(leaves)))
        if dep:
            keep.append(i)
    if len(keep) != len(leaves):
        tt2 = 0
        for a2 in range(1 << len(keep)):
            a = 0
            for j, i in enumerate(keep):
                a |= ((a2 >> j) & 1) << i
            tt2 |= ((tt >> a) & 1) << a2
        leaves, tt = [leaves[i] for i in keep], tt2
    if not leaves:
        return ('c', M32 if tt & 1 else 0)
    if len(leaves) == 1 and tt == 0b10:
        return leaves[0]
    return ('bw', tt, tuple(leaves))


class Low32:
    """low-32-bit normal form of evaluator terms; `clean` says which symbols are known to lie in [0, 2^32)"""

    def __init__(self, clean_syms):
        self.clean_syms = set(clean_syms)
        self.memo = {}
        self.cmemo = {}

    def clean(self, t):
        k = id(t)
        if k in self.cmemo:
            return self.cmemo[k][1]
        r = self._clean(t)
        self.cmemo[k] = (t, r)
        return r

    def _clean(self, t):
        if T.is_const(t):
            return isinstance(t[1], int) and not isinstance(t[1], bool) and 0 <= t[1] <= M32
        if T.tag(t) == 'sym':
            return t in self.clean_syms
        if T.is_op(t, 'BITAND'):
            return self.clean(t[2]) or self.clean(t[3])
        if T.is_op(t, 'BITOR') or T.is_op(t, 'BITXOR'):
            return self.clean(t[2]) and self.clean(t[3])
        if T.is_op(t, 'RSHIFT'):
            return self.clean(t[2]) and T.is_const(t[3]) and isinstance(t[3][1], int) and t[3][1] >= 0
        if T.is_op(t, 'MOD') and T.is_const(t[3]) and isinstance(t[3][1], int) and 0 < t[3][1] <= 1 << 32:
            return True
        if T.is_op(t, 'INT') and T.length_of(t[2]) is not None and T.length_of(t[2]) <= 4:
            return True
        if T.tag(t) == 'phi':
            return self.clean(t[2]) and self.clean(t[3])
        return False

    def low(self, t):
        k = id(t)
        if k in self.memo:
            return self.memo[k][1]
        r = self._low(t)
        self.memo[k] = (t, r)
        return r

    def _low(self, t):
        if T.is_const(t) and isinstance(t[1], int):
            return c_const(int(t[1]))
        if T.tag(t) == 'sym':
            return ('v', t[1])
        if T.is_op(t, 'ADD'):
            return c_sum([self.low(x) for x in t[2:]])
        if T.is_op(t, 'SUB'):
            b = self.low(t[3])
            # -b mod 2^32 = ~b + 1
            return c_sum([self.low(t[2]), c_bitwise('not', b), c_const(1)])
        if T.is_op(t, 'BITAND'):
            for a, b in ((t[2], t[3]), (t[3], t[2])):
                if T.is_const(b) and b[1] == M32:
                    return self.low(a)
            return c_bitwise('and', self.low(t[2]), self.low(t[3]))
        if T.is_op(t, 'MOD') and T.is_const(t[3]) and t[3][1] == 1 << 32:
            return self.low(t[2])
        if T.is_op(t, 'BITXOR'):
            return c_bitwise('xor', self.low(t[2]), self.low(t[3]))
        if T.is_op(t, 'INVERT'):
            return c_bitwise('not', self.low(t[2]))
        if T.is_op(t, 'LSHIFT') and T.is_const(t[3]) and isinstance(t[3][1], int) and 0 <= t[3][1] < 64:
            s = t[3][1]
            return ('c', 0) if s >= 32 else (self.low(t[2]) if s == 0 else ('shl', self.low(t[2]), s))
        if T.is_op(t, 'RSHIFT') and T.is_const(t[3]) and isinstance(t[3][1], int) and 0 <= t[3][1] < 64:
            if not self.clean(t[2]):
                raise Dirty('`%s >> %d`: the shifted value is not known to lie in [0, 2^32)' % (T.show(t[2], maxdepth=3), t[3][1]))
            s = t[3][1]
            return ('c', 0) if s >= 32 else (self.low(t[2]) if s == 0 else ('shr', self.low(t[2]), s))
        if T.is_op(t, 'BITOR'):
            a, b = self.low(t[2]), self.low(t[3])
            for x, y in ((a, b), (b, a)):
                if x[0] == 'shl' and y[0] == 'shr' and x[1] == y[1] and x[2] + y[2] == 32:
                    return c_rol(x[1], x[2])
                # ((x << s) & M) | (x >> 32-s) written with the mask kept as an `and`
            return c_bitwise('or', a, b)
        if T.is_op(t, 'INT') and T.is_op(t[2], 'SLICE'):
            return ('word', t)
        raise AnalysisError('C05.RMD-STEPS', 'term outside the 32-bit word vocabulary: %s' % T.show(t, maxdepth=3))


# ----------------------------------------------------------------------------------------------- specification
def _f_spec(i, x, y, z):
    n = lambda a: c_bitwise('not', a)
    if i == 0:
        return c_bitwise('xor', c_bitwise('xor', x, y), z)
    if i == 1:
        return c_bitwise('or', c_bitwise('and', x, y), c_bitwise('and', n(x), z))
    if i == 2:
        return c_bitwise('xor', c_bitwise('or', x, n(y)), z)
    if i == 3:
        return c_bitwise('or', c_bitwise('and', x, z), c_bitwise('and', y, n(z)))
    return c_bitwise('xor', x, c_bitwise('or', y, n(z)))


def spec_step(j, left, st, words):
    a, b, c, d, e = st
    rnd = j >> 4
    f = _f_spec(rnd if left else 4 - rnd, b, c, d)
    m = (R.ml() if left else R.mr())[j]
    k = (R.kl() if left else R.kr())[rnd]
    s = (R.rl() if left else R.rr())[j]
    t = c_sum([c_rol(c_sum([a, f, words[m], c_const(k)]), s), e])
    return {'A': e, 'B': t, 'C': b, 'D': c_rol(c, 10), 'E': d}


# ----------------------------------------------------------------------------------------------- the check
def _flatten(ev, fi, loop, env):
    """[(environment with the loop variables bound, innermost body)] for a nest of loops over fixed iteration spaces"""
    fr = Frame(fi, dict(env), Facts(), fi.module, None, 0)
    items = _fixed_items(ev._consume(ev.expr(loop.iter, fr)))
    if items is None or loop.orelse:
        raise AnalysisError('C05.RMD-STEPS', 'the iteration space of the loop at line %d is not a fixed table' % loop.lineno)
    out = []
    for item in items:
        fr2 = Frame(fi, dict(env), Facts(), fi.module, None, 0)
        ev.assign(loop.target, item, fr2)
        body = [s for s in loop.body if not (isinstance(s, ast.Expr) and isinstance(s.value, ast.Constant))]
        if len(body) == 1 and isinstance(body[0], ast.For):
            out.extend(_flatten(ev, fi, body[0], fr2.env))
        elif any(isinstance(s, (ast.For, ast.While)) for s in body):
            raise AnalysisError('C05.RMD-STEPS', 'loop nest with statements between the loops (line %d)' % loop.lineno)
        else:
            out.append((fr2.env, body))
    return out


def check_compress_generic(ctx, rule='C05.RMD-STEPS', lenient=False):
    """`lenient`: the helper-function form of the rounds exists and is checked by C05.RMD-ROUND; a structure this generic
    check does not recognise is then only noted (a recognised structure with a wrong step or a wide right shift is
    reported either way)."""
    p = ctx.p
    fc = p.get_function('ripemd.compress')
    if lenient:
        with ctx.obligation(rule, 'ripemd.compress (any representation)', None, fc.where) as ob:
            try:
                _generic(ctx, rule, ob, p, fc)
            except AnalysisError as e:
                ob.evaluations += 1
                ob.saw(fc.where)
                ob.note('structure not recognised by the representation-independent check (%s); the rounds are decided by C05.RMD-ROUND' % e)
        return
    with ctx.obligation(rule, 'ripemd.compress (any representation)', None, fc.where) as ob:
        _generic(ctx, rule, ob, p, fc)


def _generic(ctx, rule, ob, p, fc):
    if True:
        ev = Evaluator(p, 'ecdsa')
        from .common import S
        hs = [S('h%d' % i, type='int') for i in range(5)]
        block = S('block', type='bytes', len=64)
        body = [s for s in fc.node.body if not (isinstance(s, ast.Expr) and isinstance(s.value, ast.Constant))]
        idx = [i for i, s in enumerate(body) if isinstance(s, ast.For)]
        if not idx:
            raise AnalysisError(rule, 'compress contains no loop')
        # the round loops are the last run of consecutive loops whose innermost iterations number 80; loops before them
        # (building the message words) belong to the prologue
        chosen = None
        for k0 in range(len(idx)):
            run_ = idx[k0:]
            if run_ != list(range(run_[0], run_[-1] + 1)):
                continue
            pre_ = body[:run_[0]]
            try:
                _r, env_try, _f = ev.eval_fragment('ripemd.compress', pre_, dict(zip(fc.params, hs + [block])))
                n_ = sum(len(_flatten(ev, fc, body[i], dict(env_try))) for i in run_)
            except AnalysisError:
                continue
            if n_ == 80:
                chosen = run_
                break
        if chosen is None:
            raise AnalysisError(rule, 'compress is expected to consist of a prologue, loops performing 80 steps in all, and an epilogue')
        pre, loops, post = body[:chosen[0]], body[chosen[0]:chosen[-1] + 1], body[chosen[-1] + 1:]
        res, env0, _ = ev.eval_fragment('ripemd.compress', pre, dict(zip(fc.params, hs + [block])))
        # message words
        xs = [nm for nm, val in env0.items() if T.tag(val) in ('list', 'tuple') and len(val[1]) == 16 and nm not in fc.params]
        if len(xs) != 1:
            raise AnalysisError(rule, 'cannot identify the 16 message words in the prologue of compress')
        words_t = env0[xs[0]]
        for i in range(16):
            want = T.int_(T.slice_(block, T.const(4 * i), T.const(4 * i + 4)), T.const('little'))
            ob.require(words_t[1][i] == want, 'message word %d is little-endian bytes %d..%d of the block' % (i, 4 * i, 4 * i + 3), fc.where,
                       expected=T.show(want), found=T.show(words_t[1][i], maxdepth=3))
        X_ = [S('X%d' % i, type='int') for i in range(16)]
        words_c = [('v', 'X%d' % i) for i in range(16)]
        # slots: variables (or tuple/list positions) that start as one of h0..h4
        slots = []
        for nm, val in env0.items():
            if nm in fc.params:
                continue
            if val in hs:
                slots.append((nm, None, hs.index(val)))
            elif T.tag(val) in ('tuple', 'list') and val[1] and all(x in hs for x in val[1]):
                for i_, x in enumerate(val[1]):
                    slots.append((nm, i_, hs.index(x)))
        per_h = {}
        for sl in slots:
            per_h.setdefault(sl[2], []).append(sl)
        if len(slots) != 10 or any(len(per_h.get(i, [])) != 2 for i in range(5)):
            raise AnalysisError(rule, 'cannot identify the two lines of five state variables in the prologue of compress '
                                      '(%d variables start as one of h0..h4)' % len(slots))
        steps = []
        for lp in loops:
            steps.extend(_flatten(ev, fc, lp, {k: v for k, v in env0.items()}))
        ob.require(len(steps) == 80, 'the compression function performs 80 steps', fc.where, found=len(steps))
        if len(steps) != 80:
            return
        ssym = {sl: S('s_%s%s' % (sl[0], '' if sl[1] is None else sl[1]), type='int') for sl in slots}

        def bind(env, values):
            for (nm, pos, _h), v in values.items():
                if pos is None:
                    env[nm] = v
                else:
                    cur = env.get(nm)
                    kind = T.tag(env0[nm])
                    items = list(cur[1]) if cur is not None and T.tag(cur) == kind else [None] * len(env0[nm][1])
                    items[pos] = v
                    env[nm] = (kind, tuple(items))

        def read(env, sl):
            v_ = env.get(sl[0])
            if sl[1] is not None:
                v_ = v_[1][sl[1]] if v_ is not None and T.tag(v_) in ('tuple', 'list') and sl[1] < len(v_[1]) else None
            return v_

        def run_step(k, clean_slots):
            env, stmts = steps[k]
            env = dict(env)
            env[xs[0]] = (T.tag(words_t), tuple(X_))
            bind(env, {sl: ssym[sl] for sl in slots})
            res, env1, _ = ev.eval_fragment('ripemd.compress', stmts, env)
            lw = Low32(set(X_) | {ssym[sl] for sl in slots if clean_slots[sl]})
            out, cl = {}, {}
            for sl in slots:
                v = read(env1, sl)
                if v is None:
                    raise AnalysisError(rule, 'state variable %s is lost in step %d' % (sl[0], k))
                out[sl] = lw.low(v)
                cl[sl] = lw.clean(v)
            return out, cl

        def analyse(inputs_clean):
            clean = {sl: inputs_clean for sl in slots}
            # lines: which slots belong together (step 0 mixes the variables of one line only)
            out0, _ = run_step(0, clean)
            names = {('v', ssym[sl][1]): sl for sl in slots}

            def mentions(c, acc):
                if isinstance(c, tuple):
                    if c in names:
                        acc.add(names[c])
                    for x in c:
                        mentions(x, acc)
            groups = []
            for sl in slots:
                acc = set()
                mentions(out0[sl], acc)
                acc.add(sl)
                merged = [g for g in groups if g & acc]
                for g in merged:
                    acc |= g
                    groups.remove(g)
                groups.append(acc)
            if len(groups) != 2 or any(len(g) != 5 or {s_[2] for s_ in g} != set(range(5)) for g in groups):
                raise AnalysisError(rule, 'step 0 does not split the ten state variables into two lines of five')
            role = {}       # slot -> (line index, role letter)
            for gi, g in enumerate(groups):
                for sl in g:
                    role[sl] = (gi, 'ABCDE'[sl[2]])
            left_of = None
            for k in range(80):
                out, cl = run_step(k, clean)
                for gi in (0, 1):
                    cur = {r: ('v', ssym[sl][1]) for sl, (g_, r) in role.items() if g_ == gi}
                    st = [cur[r] for r in 'ABCDE']
                    cands = [left_of[gi]] if left_of is not None else [True, False]
                    matched = None
                    for left in cands:
                        want = spec_step(k, left, st, words_c)
                        got = {sl: out[sl] for sl, (g_, r) in role.items() if g_ == gi}
                        assign = {}
                        for sl, val in got.items():
                            rs = [r for r, w in want.items() if w == val and r not in assign.values()]
                            if rs:
                                assign[sl] = rs[0]
                        if len(assign) == 5:
                            matched = (left, assign)
                            break
                    if matched is None:
                        want = spec_step(k, cands[0], st, words_c)
                        bad = [(sl, val) for sl, val in got.items() if val not in want.values()]
                        sl, val = bad[0] if bad else list(got.items())[0]
                        return ('differs', k, gi, sl, val, want)
                    if left_of is None:
                        left_of = {gi: matched[0], 1 - gi: not matched[0]}
                    for sl, r in matched[1].items():
                        role[sl] = (gi, r)
                clean = cl
            # epilogue
            env = dict(zip(fc.params, hs + [block]))
            env.update({k_: v for k_, v in env0.items() if k_ not in env})
            bind(env, {sl: ssym[sl] for sl in slots})
            res, _, _ = ev.eval_fragment('ripemd.compress', post, env)
            if res is FALL or T.tag(res) not in ('tuple', 'list') or len(res[1]) != 5:
                raise AnalysisError(rule, 'compress does not return five words')
            lw = Low32(set(X_) | {ssym[sl] for sl in slots if clean[sl]} | (set(hs) if inputs_clean else set()))
            cur = {(('L' if left_of[g_] else 'R'), r): ('v', ssym[sl][1]) for sl, (g_, r) in role.items()}
            hv = [('v', 'h%d' % i) for i in range(5)]
            want = [c_sum([hv[1], cur[('L', 'C')], cur[('R', 'D')]]), c_sum([hv[2], cur[('L', 'D')], cur[('R', 'E')]]),
                    c_sum([hv[3], cur[('L', 'E')], cur[('R', 'A')]]), c_sum([hv[4], cur[('L', 'A')], cur[('R', 'B')]]),
                    c_sum([hv[0], cur[('L', 'B')], cur[('R', 'C')]])]
            got = [lw.low(x) for x in res[1]]
            outs_clean = all(lw.clean(x) for x in res[1])
            if got != want:
                return ('final', got, want)
            return ('ok', outs_clean)

        try:
            r = analyse(False)
        except Dirty as d:
            # a right shift of a possibly wide value: harmless only if every value compress receives is < 2^32, i.e. if
            # compress itself returns masked words (the initial chaining value is five 32-bit constants)
            try:
                r2 = analyse(True)
            except Dirty as d2:
                ob.require(False, 'compress shifts right a value that can exceed 32 bits even when its inputs are 32-bit words: %s' % d2, fc.where)
                return
            if r2[0] == 'ok' and r2[1]:
                r = r2
                ob.note('the steps rely on 32-bit inputs, and compress returns masked words: the invariant holds across blocks')
            elif r2[0] in ('differs', 'final'):
                r = r2          # wrong whatever the width of the inputs: report the differing step
            else:
                ob.require(False, 'compress shifts right a value that can exceed 32 bits - %s - and the words it returns are unmasked sums '
                           '(up to 3*2^32) that the next block receives as its chaining value: bits above 2^32 enter the rotation, '
                           'digests of messages longer than one block are wrong' % d, fc.where)
                return
        ob.evaluations += 80
        if r[0] == 'differs':
            _, k, gi, sl, val, want = r
            ob.require(False, 'step %d: what is stored in %s%s is none of the five values of the RIPEMD-160 step' % (
                k, sl[0], '' if sl[1] is None else '[%d]' % sl[1]), fc.where, expected=_show(want.get('B')), found=_show(val))
        elif r[0] == 'final':
            ob.require(False, 'the final combination of the chaining value with the two lines differs from the specification', fc.where,
                       expected=[_show(x) for x in r[2]], found=[_show(x) for x in r[1]])
        else:
            ob.note('80 steps and the final combination equal RIPEMD-160 modulo 2^32; no right shift of a possibly wide value')


def _show(c, depth=0):
    if not isinstance(c, tuple):
        return str(c)
    if depth > 4:
        return '…'
    if c[0] == 'c':
        return hex(c[1])
    if c[0] == 'v':
        return str(c[1])
    if c[0] == 'sum':
        return '(' + ' + '.join(_show(x, depth + 1) for x in c[1]) + (' + %s' % hex(c[2]) if c[2] else '') + ')'
    if c[0] == 'rol':
        return 'rol(%s, %d)' % (_show(c[1], depth + 1), c[2])
    if c[0] == 'bw':
        return 'f%s(%s)' % (bin(c[1]), ', '.join(_show(x, depth + 1) for x in c[2]))
    if c[0] == 'word':
        return 'word'
    return '%s(%s)' % (c[0], ', '.join(_show(x, depth + 1) for x in c[1:]))
