"""Loop-level obligations: comparison of loop-bodied functions with reference implementations at term level."""
from __future__ import annotations

import os

from ..loader import Program
from .. import refcmp
from .common import same_term

REF = os.path.join(os.path.dirname(os.path.dirname(os.path.abspath(__file__))), 'spec', 'ref')


def check_base58(ctx):
    p = ctx.p
    ref = Program(REF)
    for fn in ('encode_base58', 'decode_base58'):
        fi = p.get_function('helper.' + fn)
        with ctx.obligation('C10.LOOPS', 'helper.' + fn, None, fi.where) as ob:
            refcmp.compare(ob, p, ref, 'helper', fn, same_term)
