"""Loop-idiom obligations (placeholder: filled in by the deepening phase)."""


def check_base58(ctx):
    return
