"""C16 — mainnet and testnet artefacts never mix."""
from __future__ import annotations

import ast

from .. import terms as T
from ..evalr import Evaluator, Facts
from ..loader import FunctionInfo, ClassInfo
from ..spec import bip32 as SP
from ..spec import slip132
from .common import *
from .C05 import check_addresses, wallet_obj
from .C15 import paper_wallet

ALLOWED_SOURCES = ('self.testnet', 'testnet', 'version.testnet', 'args.testnet')
# call sites that deliberately do not forward the wallet's network (one line of reason each)
EXCEPTIONS = {
    ('BIP85DeterministicEntropy.wif', 'wif'): 'BIP85 fixes the WIF application to the mainnet encoding (its vectors are K/L...); C12 governs',
    ('BIP85DeterministicEntropy.xprv', 'PrvKeyNode'): 'BIP85 fixes the XPRV application to a mainnet xprv; C12 governs',
    ('BaseWallet.from_extended_key', 'parse#0'): 'first parse only sniffs the version bytes (.parsed_version); the node is re-parsed with version.testnet',
}


def _testnet_param_targets(p, cs):
    out = []
    for t in cs.targets:
        fi = None
        if isinstance(t, FunctionInfo):
            fi = t
        elif isinstance(t, ClassInfo):
            fi = t.find_method('__init__')
        if fi is not None and 'testnet' in fi.params:
            out.append(fi)
    return out


def run(ctx):
    p = ctx.p
    ctx.explanation = (
        'R-PASS over the whole call graph: every call site whose callee has a `testnet` parameter must pass it '
        'explicitly and from an allowed source (self.testnet, own parameter, version.testnet, args.testnet) - never a '
        'constant, never negated, never defaulted - with three named exceptions. R-CONST by partial evaluation over '
        'testnet in {True, False}: address prefixes/hrp (shared with C05), WIF prefix, default pub/prv versions, coin '
        'type of the BIP44/49/84 account paths, SLIP-132 version of account keys, Wasabi export key; children inherit '
        'the parent flag in both ckd; wallets built from an extended key take the network of its version.')
    ctx.not_decided = ['network classification of emitted strings by decoding them (the terms carry the prefix bytes instead)']
    # ---------------------------------------------------------------- R-PASS
    with ctx.obligation('C16.PASS', 'call sites with a testnet parameter', None, 'btc_hd_wallet/') as ob:
        n_sites = n_explicit = n_exc = 0
        per_fn_parse = {}
        for cs in p.build_callgraph():
            node = cs.node
            targets = _testnet_param_targets(p, cs)
            # self.__class__(...) constructs the receiver's class
            if not targets and isinstance(node.func, ast.Attribute) and node.func.attr == '__class__' and cs.caller and cs.caller.cls:
                init = cs.caller.cls.find_method('__init__')
                if init is not None and 'testnet' in init.params:
                    targets = [init]
            if not targets:
                continue
            n_sites += 1
            fi = targets[0]
            given = None
            for k in node.keywords:
                if k.arg == 'testnet':
                    given = k.value
            if given is None:
                params = [q for q in fi.params if q not in ('self', 'cls')]
                if 'testnet' in params and params.index('testnet') < len(node.args):
                    given = node.args[params.index('testnet')]
            callee = ast.unparse(node.func).split('.')[-1]
            owner = (cs.caller.cls.name + '.' if cs.caller is not None and cs.caller.cls else '') + (cs.caller.name if cs.caller else '<module>')
            if callee == 'parse':
                idx = per_fn_parse.get(owner, 0)
                per_fn_parse[owner] = idx + 1
                keyname = 'parse#%d' % idx
            else:
                keyname = callee
            if given is None:
                if (owner, keyname) in EXCEPTIONS:
                    n_exc += 1
                    ob.note('exception %s -> %s: %s' % (owner, callee, EXCEPTIONS[(owner, keyname)]))
                    ob.evaluations += 1
                    continue
                ob.require(False, '%s calls %s without passing testnet: the callee falls back to its default (mainnet) whatever the '
                           'wallet\'s network is' % (owner, ast.unparse(node.func)), cs.where, expected='testnet=<%s>' % '|'.join(ALLOWED_SOURCES))
                continue
            src = ast.unparse(given)
            ok = src in ALLOWED_SOURCES
            if not ok and isinstance(given, ast.Name) and cs.caller is not None and given.id not in cs.caller.params:
                # a local alias: bound exactly once in the caller, to an allowed source, and never re-bound
                stores = [n_ for n_ in ast.walk(cs.caller.node) if isinstance(n_, ast.Name) and n_.id == given.id
                          and isinstance(n_.ctx, (ast.Store, ast.Del))]
                binds = [n_ for n_ in ast.walk(cs.caller.node) if isinstance(n_, ast.Assign) and len(n_.targets) == 1
                         and isinstance(n_.targets[0], ast.Name) and n_.targets[0].id == given.id]
                if len(stores) == 1 and len(binds) == 1 and ast.unparse(binds[0].value) in ALLOWED_SOURCES \
                        and binds[0].lineno < node.lineno and binds[0] in cs.caller.node.body:
                    ok = True
                    ob.note('%s forwards %s through the local %s' % (owner, ast.unparse(binds[0].value), given.id))
            if ok:
                n_explicit += 1
            ob.require(ok, '%s passes testnet=%s to %s (must come unchanged from the wallet/node/version/arguments)'
                       % (owner, src, ast.unparse(node.func)), cs.where, expected='|'.join(ALLOWED_SOURCES), found=src)
        ob.note('%d call sites with a testnet parameter: %d explicit, %d named exceptions' % (n_sites, n_explicit, n_exc))
        if n_sites < 30:
            ob.undecided('instance floor not met: %d call sites with a testnet parameter (31+ confirmed by hand)' % n_sites)
    # ---------------------------------------------------------------- selection cells
    for be in BACKENDS:
        with ctx.obligation('C16.SELECT', 'network selection cells', be, 'btc_hd_wallet/') as ob:
            ev = Evaluator(p, be)
            for tn in (False, True):
                node, k = prv_node('32', testnet=T.const(tn))
                v, _ = ev.call_function('bip32.PubKeyNode.pub_version', [node])
                same_term(ob, v, T.const(SP.TPUB if tn else SP.XPUB), 'pub_version(testnet=%s)' % tn, p.get_function('bip32.PubKeyNode.pub_version').where)
                v, _ = ev.call_function('bip32.PrvKeyNode.prv_version', [node])
                same_term(ob, v, T.const(SP.TPRV if tn else SP.XPRV), 'prv_version(testnet=%s)' % tn, p.get_function('bip32.PrvKeyNode.prv_version').where)
                pk, _ = ev.call_function('bip32.PrvKeyNode.private_key', [node])
                v, _ = ev.call_function('keys.PrivateKey.wif', [pk], {'testnet': T.const(tn)})
                same_term(ob, v, SP.b58check(T.cat(T.const(b'\xef' if tn else b'\x80'), k, T.const(b'\x01'))), 'WIF prefix(testnet=%s)' % tn,
                          p.get_function('keys.PrivateKey.wif').where)
                # children inherit
                for q, nd in (('bip32.PrvKeyNode.ckd', node), ('bip32.PubKeyNode.ckd', pub_node(testnet=T.const(tn))[0])):
                    v, _ = ev.call_function(q, [nd, T.const(5)])
                    for leaf in distinct_normal_leaves(v):
                        same_term(ob, T.obj_fields(leaf)['testnet'], T.const(tn), 'child of a %s node is a %s node' % (
                            'testnet' if tn else 'mainnet', 'testnet' if tn else 'mainnet'), p.get_function(q).where)
    check_addresses(ctx, 'C16.ADDR')
    # ---------------------------------------------------------------- paper wallet: coin type, account key versions, rows, wasabi
    from .C06 import check_generate
    check_generate(ctx, 'C16.PAPER', network_only=True)
    from .C06 import check_node_versions
    check_node_versions(ctx, 'C16.NODEVERSION')
    # a wallet built from an extended key takes its network (wallet flag AND node flag) from the version prefix
    from .C07 import check_dispatch
    check_dispatch(ctx, 'C16.IMPORT')
    check_cli_network(ctx, 'C16.CLI')


def check_cli_network(ctx, rule):
    # the command line: a wallet made from an extended key takes its network from the key, the other commands from --testnet
    from .C20 import main_paths, attr, CTORS
    p = ctx.p
    fmain = p.get_function('__main__.main')
    with ctx.obligation(rule, '__main__.main network wiring', None, fmain.where) as ob:
        n = 0
        for rec in main_paths(p):
            if rec['kind'] != 'sink':
                continue
            data = rec['data']
            gen = data[2] if T.is_op(data, 'PARANOIA') else data
            if not T.is_op(gen, 'GENERATE') or T.tag(gen[2]) != 'sym':
                continue
            wallet = gen[2]
            ctor = T.sym_meta(wallet, 'ctor')
            kwargs = dict(T.sym_meta(wallet, 'kwargs') or ())
            n += 1
            if ctor == 'from_extended_key':
                for k_, v_ in kwargs.items():
                    if k_ in ('testnet', 'network', 'net'):
                        ob.require(v_ == T.NONE, 'the from-master-xprv command hands a network (%s) to from_extended_key: the wallet '
                                   'would not take its network from the key\'s version prefix (without --testnet a tprv/uprv/vprv key '
                                   'gives a mainnet-tagged wallet)' % T.show(v_, maxdepth=2), fmain.where)
                ob.evaluations += 1
            elif 'testnet' in kwargs:
                same_term(ob, kwargs['testnet'], attr('testnet'), 'command %r builds its wallet on the network of --testnet' % rec['command'],
                          fmain.where)
        if n < 5:
            ob.undecided('fewer wallet-producing paths of main() than sub-commands were recognised (%d)' % n, fmain.where)
