"""C02 — public derivation agrees with private derivation; hardened refused."""
from __future__ import annotations

from .. import terms as T
from ..evalr import Evaluator, Facts
from ..spec import bip32 as SP
from .common import *
from .common import _split
from .C01 import check_child_wiring

H = 2 ** 31


def run(ctx):
    p = ctx.p
    ctx.explanation = (
        'PubKeyNode.ckd is abstractly evaluated (both back ends) with the parent point, chain code, depth, index and '
        'network as free symbols: every non-raising exit must carry the fact index < 2^31, the hardened cell '
        '[2^31, 2^32) must raise before any state is touched, the child term must be the BIP32 CKDpub term, and the '
        'one-step simulation pub(CKDpriv(n, i)) == CKDpub(pub(n), i) must hold as an identity of value terms under '
        'the homomorphism law (a+b)G = aG + bG (the inductive step of the multi-level claim).')
    ctx.not_decided = ['the secp256k1 group law itself (trusted algebraic fact)', 'library point arithmetic on values']
    fi = p.get_function('bip32.PubKeyNode.ckd')
    i = S('i', type='int')
    for be in BACKENDS:
        ev = Evaluator(p, be)
        node, P = pub_node()
        c = T.obj_fields(node)['chain_code']
        with ctx.obligation('C02.GUARD', 'PubKeyNode.ckd', be, fi.where) as ob:
            v, f = ev.call_function('bip32.PubKeyNode.ckd', [node, i])
            nl = normal_leaves(v)
            ob.require(len(nl) >= 1, 'ckd can return a child', fi.where)
            for cs, leaf in nl:
                lo, hi = __import__('sa.evalr', fromlist=['bounds_of']).bounds_of(i, known_at(f, cs))
                ob.require(hi is not None and hi <= H - 1,
                           'a child can be returned for an index that is not known to be below 2^31', fi.where,
                           expected='guard index >= 2**31 that raises, dominating the derivation',
                           found='upper bound of index on this path: %s' % hi)
            # within the non-hardened range the only refusals BIP32 defines are IL >= n and K_i = infinity; a child
            # must remain derivable (some returning exit whose path conditions do not contradict the facts the
            # validating calls on that path establish)
            e3 = Evaluator(p, be)
            f3 = Facts().add(T.not_(T.lt(i, T.const(0)))).add(T.lt(i, T.const(H)))
            v3, r3 = e3.call_function('bip32.PubKeyNode.ckd', [node, i], facts=f3)
            IL = T.slice_(SP.hmac512(c, T.cat(T.sec(P, T.TRUE), SP.ser32(i))), T.const(0), T.const(32))
            il = T.int_(IL, BIG)
            # (IL == 0 is refused by both crypto libraries when IL is made a key object; an explicit test is the same)
            allowed = {T.not_(T.lt(il, T.CURVE_N)), T.eq(T.pt_add(T.pt(IL), P), T.INFINITY),
                       T.not_(T.raw_op('VALID_SK', IL)), T.lt(il, T.const(1)), T.eq(T.const(0), il),
                       T.not_(T.lt(T.const(0), il))}
            for cs, leaf in raise_leaves(v3):
                trig = T.hoist(cs[-1]) if cs else None
                ok = trig is not None and any(trig == T.hoist(a) or T.assume(trig, set(cs[:-1])) == T.assume(a, set(cs[:-1]))
                                              for a in allowed)
                ok = ok or depth_overflow(cs, node)
                ob.require(ok, 'PubKeyNode.ckd refuses (%s) under a condition that BIP32 does not declare invalid' % leaf[1],
                           fi.where, expected='only IL >= n or K_i == infinity',
                           found=T.show(cs[-1], maxdepth=5) if cs else 'unconditional')
            feas = [cs for cs, leaf in normal_leaves(v3) if not contradictory(known_at(r3, cs))]
            ob.require(len(feas) >= 1, 'no returning exit of PubKeyNode.ckd is feasible for a non-hardened index: every '
                       'path that returns a child assumes a condition the validating calls on it exclude', fi.where,
                       found=[[T.show(x, maxdepth=4) for x in cs] for cs, _ in normal_leaves(v3)][:3])
            for lo_, hi_ in ((H, H), (H + 1, 2 ** 32 - 1), (2 ** 32, None)):
                e2 = Evaluator(p, be)
                facts = Facts().add(T.not_(T.lt(i, T.const(lo_))))
                if hi_ is not None:
                    facts = facts.add(T.lt(i, T.const(hi_ + 1)))
                v2, f2 = e2.call_function('bip32.PubKeyNode.ckd', [node, i], facts=facts)
                ob.require(all(T.tag(x) == 'raise' for _, x in leaves(v2)),
                           'hardened index cell [%s, %s] is not refused' % (lo_, hi_), fi.where,
                           expected='raise', found=T.show(v2, maxdepth=3))
                ob.require(not [e for e in e2.effects if e[0] in ('mutating-call', 'attr-store', 'subscript-store')],
                           'state is modified before the hardened index is refused', fi.where, found=e2.effects[:3])
        with ctx.obligation('C02.CHILD', 'PubKeyNode.ckd', be, fi.where) as ob:
            ev = Evaluator(p, be)
            v, f = ev.call_function('bip32.PubKeyNode.ckd', [node, i])
            ept, echain = SP.ckd_pub(P, c, i)
            for cs, leaf in normal_leaves(v):
                if T.tag(leaf) != 'obj':
                    ob.undecided('ckd returns %s' % T.show(leaf, maxdepth=3))
                    continue
                check_child_wiring(ob, leaf, node, PUB, T.sec(ept, T.TRUE), echain, i, fi.where)
        # one-step simulation
        with ctx.obligation('C02.PROJ', 'PrvKeyNode.ckd ~ PubKeyNode.ckd', be, fi.where) as ob:
            for layout in ('32', '33'):
                ev = Evaluator(p, be)
                pn, k = prv_node(layout)
                pf = T.obj_fields(pn)
                facts = Facts().add(T.not_(T.lt(i, T.const(0)))).add(T.lt(i, T.const(H)))
                pv, pfx = ev.call_function('bip32.PrvKeyNode.ckd', [pn, i], facts=facts)
                # public projection of the parent: same chain code / depth / index / network, key = serP(point(k))
                qn = node_term(PUB, T.sec(T.pt(k), T.TRUE), chain=pf['chain_code'], depth=pf['depth'], index=pf['index'],
                               testnet=pf['testnet'])
                qv, _ = ev.call_function('bip32.PubKeyNode.ckd', [qn, i], facts=facts)
                pls, qls = normal_leaves(pv), normal_leaves(qv)
                if len(pls) != 1 or len(qls) < 1:
                    ob.undecided('unexpected exit structure (private %d, public %d normal exits)' % (len(pls), len(qls)))
                    continue
                pchild = pls[0][1]
                # what the private derivation established about its child (k_i != 0, ...) holds for the observations below
                pk_facts = Facts(known_at(pfx, pls[0][0]))
                for cs, qchild in qls:
                    qf, cf = T.obj_fields(qchild), T.obj_fields(pchild)
                    pk, _ = ev.call_function('bip32.PrvKeyNode.public_key', [pchild], facts=pk_facts)
                    psec, _ = ev.call_function('keys.PublicKey.sec', [pk])
                    same_term(ob, qf['key'], psec, 'public child key == serP(point(private child key)) [key%s]' % layout, fi.where)
                    same_term(ob, qf['chain_code'], cf['chain_code'], 'chain codes agree [key%s]' % layout, fi.where)
                    same_term(ob, qf['depth'], cf['depth'], 'depths agree', fi.where)
                    same_term(ob, qf['index'], cf['index'], 'child numbers agree', fi.where)
                    same_term(ob, qf['testnet'], cf['testnet'], 'network flags agree', fi.where)
                    a, _ = ev.call_function('bip32.PubKeyNode.fingerprint', [qchild])
                    b, _ = ev.call_function('bip32.PubKeyNode.fingerprint', [pchild], facts=pk_facts)
                    same_term(ob, a, b, 'fingerprints agree', fi.where)
                    a, _ = ev.call_function('bip32.PubKeyNode.parent_fingerprint', [qchild])
                    b, _ = ev.call_function('bip32.PubKeyNode.parent_fingerprint', [pchild], facts=pk_facts)
                    same_term(ob, a, b, 'parent fingerprints agree', fi.where)
                    ver = S('ver', type='int')
                    a, _ = ev.call_function('bip32.PubKeyNode.extended_public_key', [qchild], {'version': ver})
                    b, _ = ev.call_function('bip32.PubKeyNode.extended_public_key', [pchild], {'version': ver}, facts=pk_facts)
                    same_term(ob, a, b, 'serialised extended public keys agree', fi.where)
                    # ... and with the version left to the node (the default every caller outside BaseWallet gets)
                    a, _ = ev.call_function('bip32.PubKeyNode.extended_public_key', [qchild])
                    b, _ = ev.call_function('bip32.PubKeyNode.extended_public_key', [pchild], facts=pk_facts)
                    same_term(ob, a, b, 'serialised extended public keys agree (version chosen by the node)', fi.where)
                # the same with parents that were parsed from an extended key string (they remember the version they were
                # written with): the two routes must still print the same extended public keys for the children
                if 'parsed_version' in pf:
                    pvs = S('parsed_version', type='int')
                    pn2 = T.obj(pn[1], dict(pf, parsed_version=pvs))
                    qn2 = T.obj(qn[1], dict(T.obj_fields(qn), parsed_version=pvs))
                    ev2 = Evaluator(p, be)
                    pv2, pfx2 = ev2.call_function('bip32.PrvKeyNode.ckd', [pn2, i], facts=facts)
                    qv2, _ = ev2.call_function('bip32.PubKeyNode.ckd', [qn2, i], facts=facts)
                    pl2, ql2 = normal_leaves(pv2), normal_leaves(qv2)
                    if len(pl2) == 1 and ql2:
                        pk_facts2 = Facts(known_at(pfx2, pl2[0][0]))
                        for cs, qchild in ql2:
                            a, _ = ev2.call_function('bip32.PubKeyNode.extended_public_key', [qchild])
                            b, _ = ev2.call_function('bip32.PubKeyNode.extended_public_key', [pl2[0][1]], facts=pk_facts2)
                            same_term(ob, a, b, 'children of a parsed parent: serialised extended public keys agree (version chosen by '
                                      'the node) [key%s]' % layout, fi.where)

    # hardened children need the private key: a PrvKeyNode object that holds *public* data in its key field (what
    # PrvKeyNode.parse makes of an extended public key payload: 33 bytes 02/03 || x) must have no private key - else
    # hardened "derivation" from public data succeeds with x taken as the secret
    fpk = p.get_function('bip32.PrvKeyNode.private_key')
    for be in ('secp', 'ecdsa'):
        with ctx.obligation('C02.NOSECRET', 'PrvKeyNode.private_key on public key data', be, fpk.where) as ob:
            ev = Evaluator(p, be)
            ev.explicit_contracts = 1       # the validating library calls become explicit alternatives
            P = S('P', type='point')
            node = node_term(PRV, T.sec(P, T.TRUE), tagname='pubdata')
            v, f = ev.call_function('bip32.PrvKeyNode.private_key', [node])
            ob.evaluations += 1
            for cs, leaf in normal_leaves(v):
                infeasible = False
                for c in cs:
                    for x in _split(c):
                        if x == T.FALSE:
                            infeasible = True
                        if T.is_op(x, 'VALID_SK') and T.length_of(x[2]) is not None and T.length_of(x[2]) != 32:
                            infeasible = True       # the library refuses a scalar that is not 32 bytes long
                ob.require(infeasible, 'a private node whose key field is a 33-byte public key (02/03 || x) yields a private key: '
                           'hardened children can then be derived from public data', fpk.where,
                           found=T.show(leaf, maxdepth=4) + ' when ' + ', '.join(T.show(c, maxdepth=3) for c in cs))

    # public derivation must not depend on what was derived from the same node before (shared with C13)
    from . import C13
    sub = ctx.__class__('C02', ctx.tier, ctx.p, ctx.seed)
    C13.run(sub)
    for o in sub.obligations:
        if o.rule in ('C13.NOREAD', 'C13.INPLACE'):
            o.rule = 'C02.%s(=C13)' % o.rule.split('.')[1]
            ctx.obligations.append(o)
    # "deriving ... from the corresponding extended public key": the public parent is what parse makes of the string -
    # C07's layout obligation (fields at widths 4,1,4,4,32,33, unsigned) is part of this property
    from . import C07
    sub7 = ctx.__class__('C02', ctx.tier, ctx.p, ctx.seed)
    C07.run(sub7)
    for o in sub7.obligations:
        if o.rule in ('C07.LAYOUT',):
            o.rule = 'C02.PARSE(=C07.LAYOUT)'
            ctx.obligations.append(o)
    # agreement includes the failure cases: where public derivation refuses (IL >= n, point at infinity) private derivation
    # must refuse too (seed C02-O: `>` for `>=` in the private arm) - C18's obligations for both ckd functions
    from . import C18
    sub18 = ctx.__class__('C02', ctx.tier, ctx.p, ctx.seed)
    C18.run(sub18)
    for o in sub18.obligations:
        if o.rule in ('C18.CKDPRIV', 'C18.CKDPUB'):
            o.rule = 'C02.INVALID(=%s)' % o.rule
            ctx.obligations.append(o)
    # agreement along sub-paths (the multi-level claim) rests on derive_path being the left fold of ckd on both node kinds
    from . import C17
    C17.check_fold(ctx, 'C02.FOLD(=C17)')
    # bulk derivation must not bypass what ckd refuses or computes (hardened refusal, invalid-key refusals)
    from .C01 import check_bulk
    check_bulk(ctx, 'C02.BULK', kinds=('pub',))
