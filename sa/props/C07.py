"""C07 — extended keys round-trip; 12 versions; no private bytes in public serialisations."""
from __future__ import annotations

from .. import terms as T
from ..evalr import Evaluator, Facts
from .. import externals as X
from ..spec import bip32 as SP
from ..spec import slip132
from .common import *

VER = PKG + '.wallet_utils.Version'
KEY = PKG + '.wallet_utils.Key'
BIP = PKG + '.wallet_utils.Bip'
BW = PKG + '.base_wallet.BaseWallet'


def _payload(kind):
    ver, dep, fp, idx, ch = (S('ver4', type='bytes', len=4), S('depth1', type='bytes', len=1), S('fp4', type='bytes', len=4),
                             S('idx4', type='bytes', len=4), S('chain32', type='bytes', len=32))
    if kind == 'prv':
        k = S('k', type='bytes', len=32)
        keydata = T.cat(T.const(b'\x00'), k)
    else:
        k = S('P', type='point')
        keydata = T.sec(k, T.TRUE)
    return T.cat(ver, dep, fp, idx, ch, keydata), dict(ver=ver, dep=dep, fp=fp, idx=idx, ch=ch, keydata=keydata, k=k)


def _expected_node(cls, parts, testnet):
    return T.obj(cls, dict(key=parts['keydata'], chain_code=parts['ch'], depth=T.int_(parts['dep'], BIG),
                           index=T.int_(parts['idx'], BIG), parent=T.NONE, parsed_parent_fingerprint=parts['fp'],
                           parsed_version=T.int_(parts['ver'], BIG), testnet=testnet, children=T.lst([])))


def same_parsed_node(ob, ev, found, cls, parts, testnet, what, where, facts=None):
    """The node parsed from the 78-byte payload, compared through what its API returns (not through its field layout)."""
    kw = dict(chain=parts['ch'], depth=T.int_(parts['dep'], BIG), index=T.int_(parts['idx'], BIG), testnet=testnet,
              parent_fpr=parts['fp'])
    if cls == PRV:
        kw.update(prv=parts['k'], pub=T.pt(parts['k']))
    else:
        kw.update(pub=parts['k'])
    ok = same_node(ob, ev, found, cls, what, where, facts=facts, **kw)
    for cs, leaf in normal_leaves(found):
        if T.tag(leaf) == 'obj':
            ok &= bool(same_term(ob, attr_of(ev, leaf, 'parsed_version', facts), T.int_(parts['ver'], BIG), what + ': parsed_version', where))
    return ok


def run(ctx):
    p = ctx.p
    ctx.explanation = (
        'Reader/writer agreement on the 78-byte layout: PubKeyNode.parse/_parse are abstractly evaluated on a symbolic '
        'payload (three input forms: str via the checksummed decoder, bytes, BytesIO) and must produce the node whose '
        'fields are the slices [4,1,4,4,32,33]; re-serialising that node must give back the payload term (identity of '
        'terms); __eq__ must compare every serialised field; Version.parse is evaluated for each of the 12 SLIP-132 '
        'constants and for the complement cell (all other integers -> raise) and int(Version) must invert it; '
        'from_extended_key dispatches on the key type with the network of the version; the public serialisation of a '
        'private node may contain the scalar only under point(.) (taint).')
    ctx.not_decided = ['Base58 round-trip on values (C10)']
    fparse = p.get_function('bip32.PubKeyNode.parse')
    fp_ = p.get_function('bip32.PubKeyNode._parse')
    tn = S('testnet', type='bool')
    for be in BACKENDS:
        for kind, cls in (('prv', PRV), ('pub', PUB)):
            cfg = '%s/%s' % (be, kind)
            B, parts = _payload(kind)
            exp = _expected_node(cls, parts, tn)
            with ctx.obligation('C07.LAYOUT', 'PubKeyNode.parse', cfg, fparse.where) as ob:
                # bytes
                ev = Evaluator(p, be)
                v, f = ev.call_function('bip32.PubKeyNode.parse', [T.clsref(cls), B, tn])
                same_parsed_node(ob, ev, v, cls, parts, tn, 'parse(bytes) reads version, depth, fingerprint, child number, chain code, key at widths '
                                 '4,1,4,4,32,33', fp_.where, f)
                # stream
                ev = Evaluator(p, be)
                v, f = ev.call_function('bip32.PubKeyNode.parse', [T.clsref(cls), ev.new_stream(B), tn])
                same_parsed_node(ob, ev, v, cls, parts, tn, 'parse(BytesIO) is the same parser', fp_.where, f)
                # a stream that continues after the 78 bytes: exactly 78 are consumed, the key is 33 bytes
                ev = Evaluator(p, be)
                st = ev.new_stream(T.cat(B, S('trailing', type='bytes')))
                v, f = ev.call_function('bip32.PubKeyNode.parse', [T.clsref(cls), st, tn])
                same_parsed_node(ob, ev, v, cls, parts, tn, 'parse(BytesIO) of a longer stream reads exactly the 78-byte node', fp_.where, f)
                same_term(ob, ev.stream_state(st)[1], T.const(78), 'parse consumes exactly 78 bytes of the stream', fp_.where)
                # str: through the checksummed decoder
                summ = dict(X.DEFAULT_SUMMARIES)
                summ['helper.decode_base58_checksum'] = lambda ev_, fi, env, facts, B=B: (B, facts)
                ev = Evaluator(p, be, summaries=summ)
                v, f = ev.call_function('bip32.PubKeyNode.parse', [T.clsref(cls), S('xkey', type='str'), tn])
                same_parsed_node(ob, ev, v, cls, parts, tn, 'parse(str) decodes with decode_base58_checksum and uses the same parser', fp_.where, f)
                ob.require('helper.decode_base58_checksum' in {c for _, c in ev.calls},
                           'parse(str) goes through the checksummed decoder', fparse.where)
                # anything else is refused
                ev = Evaluator(p, be)
                v, f = ev.call_function('bip32.PubKeyNode.parse', [T.clsref(cls), S('n', type='int'), tn])
                ob.require(all(T.tag(x) == 'raise' for _, x in leaves(v)), 'an input that is not str/bytes/BytesIO is refused',
                           fparse.where, found=T.show(v, maxdepth=3))
                e9 = Evaluator(p, be)
                v, f = e9.call_function('bip32.PubKeyNode.parse', [T.clsref(cls), B])
                same_node(ob, e9, v, cls, 'default network is mainnet', fparse.where, facts=f, testnet=T.FALSE)
            with ctx.obligation('C07.ROUNDTRIP', 'parse ~ _serialize', cfg, fp_.where) as ob:
                ev = Evaluator(p, be)
                node, _ = ev.call_function('bip32.PubKeyNode.parse', [T.clsref(cls), B, tn])
                meth = 'bip32.PrvKeyNode.serialize_private' if kind == 'prv' else 'bip32.PubKeyNode.serialize_public'
                ver = T.int_(parts['ver'], BIG)
                v, f = ev.call_function(meth, [node], {'version': ver})
                # BIP32-valid payloads: depth >= 1 (derived node), or the master payload (depth 0, child number 0, zero fingerprint)
                d_int, i_int = T.int_(parts['dep'], BIG), T.int_(parts['idx'], BIG)
                nonmaster = T.assume(v, {T.not_(T.eq(T.const(0), d_int))})
                same_term(ob, T.hoist(nonmaster) if T.phi_conditions(nonmaster) else nonmaster, B,
                          're-serialising a parsed derived node (depth >= 1) reproduces the 78 payload bytes', fp_.where)
                m = T.assume(v, {T.eq(T.const(0), d_int), T.eq(T.const(0), i_int)})
                expm = T.cat(parts['ver'], parts['dep'], T.const(b'\x00' * 4), parts['idx'], parts['ch'], parts['keydata'])
                same_term(ob, T.hoist(m) if T.phi_conditions(m) else m, expm, 're-serialising a parsed master node writes a zero fingerprint', fp_.where)
                if kind == 'prv':
                    v2, _ = ev.call_function('bip32.PubKeyNode.serialize_public', [node], {'version': ver})
                    ob.require(not T.occurs_outside(v2, lambda x: x == parts['k'], lambda x: T.is_op(x, 'PT')),
                               'the public serialisation of a private node contains the private scalar outside point(k)',
                               fp_.where, found=T.show(v2, maxdepth=4))
    # ---------------------------------------------------------------- no private bytes in xpub (derived nodes too)
    fsp = p.get_function('bip32.PubKeyNode.serialize_public')
    for be in BACKENDS:
        with ctx.obligation('C07.NOPRIV', 'PubKeyNode.serialize_public', be, fsp.where) as ob:
            for layout in ('32', '33'):
                ev = Evaluator(p, be)
                node, k = prv_node(layout)
                for q in ('bip32.PubKeyNode.serialize_public', 'bip32.PubKeyNode.extended_public_key'):
                    v, f = ev.call_function(q, [node])
                    require_no_opaque(ob, v, q)
                    ob.require(not T.occurs_outside(v, lambda x: x == k, lambda x: T.is_op(x, 'PT')),
                               '%s of a private node contains the private scalar outside point(k) [key%s]' % (q.split('.')[-1], layout),
                               fsp.where, found=T.show(v, maxdepth=4))
                    ob.require(T.contains(v, lambda x: x == T.sec(T.pt(k), T.TRUE)),
                               '%s carries the compressed public key' % q.split('.')[-1], fsp.where)
            # a PubKeyNode object can hold key bytes that are not a compressed public key: PubKeyNode.parse accepts a private
            # payload (0x00 || k), the constructor an uncompressed key.  Whatever it holds, what it writes into an extended
            # *public* key is the compressed encoding of the point the bytes parse to - or nothing (an error)
            k = S('k', type='bytes', len=32)
            for what, keybytes, must_have in (
                    ('the 33-byte private form 0x00 || k (PubKeyNode.parse of an extended private key)', T.cat(T.const(b'\x00'), k), None),
                    ('a 65-byte uncompressed public key', T.sec(S('P', type='point'), T.FALSE), T.sec(S('P', type='point'), T.TRUE))):
                ev = Evaluator(p, be)
                node = node_term(PUB, keybytes)
                for q in ('bip32.PubKeyNode.serialize_public', 'bip32.PubKeyNode.extended_public_key'):
                    v, f = ev.call_function(q, [node])
                    for cs, leaf in normal_leaves(v):
                        if must_have is None:
                            ob.require(not T.occurs_outside(leaf, lambda x: x == k, lambda x: T.is_op(x, 'PT') or T.is_op(x, 'PARSEPUB')),
                                       '%s of a PubKeyNode holding %s writes those bytes into the extended public key: the private scalar '
                                       'is published under an xpub prefix' % (q.split('.')[-1], what), fsp.where, found=T.show(leaf, maxdepth=4))
                        else:
                            ob.require(not T.contains(leaf, lambda x: x == keybytes) or T.contains(leaf, lambda x: x == must_have),
                                       '%s of a PubKeyNode holding %s writes the uncompressed bytes (a 110-byte payload) instead of '
                                       'the compressed key' % (q.split('.')[-1], what), fsp.where, found=T.show(leaf, maxdepth=4))
    # ---------------------------------------------------------------- equality
    feq = p.get_function('bip32.PubKeyNode.__eq__')
    with ctx.obligation('C07.EQ', 'PubKeyNode.__eq__', None, feq.where) as ob:
        ev = Evaluator(p, 'ecdsa')
        a = node_term(PUB, S('ka', type='bytes', len=33), tagname='a', testnet=S('tna', type='bool'), ppf=S('fa', type='bytes', len=4))
        b = node_term(PUB, S('kb', type='bytes', len=33), tagname='b', testnet=S('tnb', type='bool'), ppf=S('fb', type='bytes', len=4))
        v, f = ev.call_function('bip32.PubKeyNode.__eq__', [a, b])
        fa, fb = T.obj_fields(a), T.obj_fields(b)
        want = {T.eq(T.int_(fa['key'], BIG), T.int_(fb['key'], BIG)), T.eq(fa['chain_code'], fb['chain_code']),
                T.eq(fa['depth'], fb['depth']), T.eq(fa['index'], fb['index']), T.eq(fa['testnet'], fb['testnet']),
                T.eq(fa['parsed_parent_fingerprint'], fb['parsed_parent_fingerprint'])}
        got = set(v[2:]) if T.is_op(v, 'AND') else {v}
        ob.require(want <= got, 'node equality ignores a serialised field', feq.where,
                   expected=sorted(T.show(x) for x in want), found=sorted(T.show(x) for x in got))
        c = node_term(PRV, S('kb', type='bytes', len=33), tagname='b')
        v, f = ev.call_function('bip32.PubKeyNode.__eq__', [a, c])
        same_term(ob, v, T.FALSE, 'nodes of different classes are unequal', feq.where)
    # ---------------------------------------------------------------- version table
    fvp = p.get_function('wallet_utils.Version.parse')
    with ctx.obligation('C07.TABLE', 'Version.parse / __int__', None, fvp.where) as ob:
        ev = Evaluator(p, 'ecdsa')
        seen = set()
        for (kt, net, bip), ver in sorted(slip132.TABLE.items(), key=lambda kv: kv[1]):
            v, f = ev.call_function('wallet_utils.Version.parse', [T.clsref(VER), T.const(ver)])
            if T.tag(v) != 'obj':
                ob.require(False, 'version 0x%08X (%s) is not accepted' % (ver, slip132.LABELS[ver]), fvp.where, found=T.show(v, maxdepth=3))
                continue
            vf = T.obj_fields(v)
            ok = T.tag(vf.get('key_type')) == 'enum' and vf['key_type'][2] == kt and \
                T.tag(vf.get('bip_type')) == 'enum' and vf['bip_type'][2] == bip and vf.get('testnet') == T.const(net == 'test')
            ob.require(ok, 'version 0x%08X (%s) must parse to (%s, %s, %s)' % (ver, slip132.LABELS[ver], kt, net, bip), fvp.where,
                       found=T.show(v, maxdepth=4))
            back, _ = ev.call_function('wallet_utils.Version.__int__', [v])
            same_term(ob, back, T.const(ver), 'int(Version.parse(0x%08X)) is the identity' % ver, fvp.where)
            idx, _ = ev.call_function('wallet_utils.Version.__index__', [v])
            same_term(ob, idx, T.const(ver), '__index__ agrees with __int__', fvp.where)
            seen.add(ver)
        # every (type, network, bip) triple constructs the SLIP-132 constant
        for (kt, net, bip), ver in slip132.TABLE.items():
            keyv = {'PRV': 0, 'PUB': 1}[kt]
            bipv = {'BIP44': 0, 'BIP49': 1, 'BIP84': 2}[bip]
            vo, _ = ev.construct('wallet_utils.Version', [], {'key_type': T.const(keyv), 'bip': T.const(bipv), 'testnet': T.const(net == 'test')})
            back, _ = ev.call_function('wallet_utils.Version.__int__', [vo])
            same_term(ob, back, T.const(ver), 'Version(%s, %s, %s) is 0x%08X' % (kt, net, bip, ver), fvp.where)
        # complement cell: any other integer raises
        x = S('version_int', type='int')
        facts = Facts()
        for ver in slip132.TABLE.values():
            facts = facts.add(T.not_(T.eq(T.const(ver), x)))
        v, f = ev.call_function('wallet_utils.Version.parse', [T.clsref(VER), x], facts=facts)
        ob.require(all(T.tag(l) == 'raise' for _, l in leaves(v)), 'an integer that is none of the 12 versions is accepted', fvp.where,
                   found=T.show(v, maxdepth=3))
        v, f = ev.call_function('wallet_utils.Version.parse', [T.clsref(VER), S('notint', type='str')])
        ob.require(all(T.tag(l) == 'raise' for _, l in leaves(v)), 'a non-integer version is accepted', fvp.where)
        # symbolic: acceptance implies membership in exactly the 12
        v, f = ev.call_function('wallet_utils.Version.parse', [T.clsref(VER), x])
        want = {T.eq(T.const(ver), x) for ver in slip132.TABLE.values()}
        for cs, leaf in normal_leaves(v):
            known = known_at(f, cs)
            ok = any(T.is_op(kx, 'OR') and set(kx[2:]) == want for kx in known) or any(w in known for w in want)
            ob.require(ok, 'Version.parse accepts on a path that does not establish membership in the 12 known versions', fvp.where)
            break
    check_dispatch(ctx, 'C07.DISPATCH')
    if not getattr(ctx, 'embedded', False):      # run as part of another property's check: that one has them already
        adopt_serialisation(ctx)


def adopt_serialisation(ctx):
    """The strings this property talks about are written by _serialize for *derived* nodes too (parent fingerprint taken
    from the parent object, default version from the node's network): C01's serialisation obligations are part of it."""
    from . import C01
    sub = ctx.__class__(ctx.pid, ctx.tier, ctx.p, ctx.seed)
    C01.run(sub)
    for o in sub.obligations:
        if o.rule in ('C01.SER', 'C01.PFPR'):
            o.rule = '%s.%s(=C01)' % (ctx.pid, o.rule.split('.')[1])
            ctx.obligations.append(o)


def check_dispatch(ctx, rule):
    p = ctx.p
    # ---------------------------------------------------------------- from_extended_key
    ffx = p.get_function('base_wallet.BaseWallet.from_extended_key')
    for be in BACKENDS:
        with ctx.obligation(rule, 'BaseWallet.from_extended_key', be, ffx.where) as ob:
            for (kt, net, bip), ver in sorted(slip132.TABLE.items(), key=lambda kv: kv[1]):
                kind = 'prv' if kt == 'PRV' else 'pub'
                cls = PRV if kt == 'PRV' else PUB
                B, parts = _payload(kind)
                vb = T.const(ver.to_bytes(4, 'big'))
                B = T.subst(B, {parts['ver']: vb})
                parts = dict(parts, ver=vb)
                summ = dict(X.DEFAULT_SUMMARIES)
                summ['helper.decode_base58_checksum'] = lambda ev_, fi, env, facts, B=B: (B, facts)
                ev = Evaluator(p, be, summaries=summ)
                v, f = ev.call_function('base_wallet.BaseWallet.from_extended_key', [T.clsref(BW), S('xkey', type='str')])
                tnc = T.const(net == 'test')
                if T.tag(v) != 'obj':
                    if T.opaques(v):
                        ob.undecided('from_extended_key is not computable by the evaluator for a %s key (%s)' % (
                            slip132.LABELS[ver], '; '.join(sorted({o[1] for o in T.opaques(v)}))[:200]), ffx.where)
                    else:
                        ob.require(False, 'a wallet cannot be built from a %s key' % slip132.LABELS[ver], ffx.where, found=T.show(v, maxdepth=3))
                    continue
                same_parsed_node(ob, ev, attr_of(ev, v, 'master', f), cls, parts, tnc,
                                 '%s: master node has the key type and network of the version prefix' % slip132.LABELS[ver], ffx.where, f)
                same_term(ob, attr_of(ev, v, 'testnet', f), tnc, '%s: wallet network' % slip132.LABELS[ver], ffx.where)
                wo, _ = ev.call_function('base_wallet.BaseWallet.watch_only', [v])
                same_term(ob, wo, T.const(kt == 'PUB'), '%s: watch_only' % slip132.LABELS[ver], ffx.where)
                same_term(ob, T.const(T.tag(attr_of(ev, v, 'bip85', f)) == 'obj'), T.const(kt == 'PRV'),
                          '%s: BIP85 only for private wallets' % slip132.LABELS[ver], ffx.where)
            # unknown version: no wallet
            B, parts = _payload('pub')
            vb = T.const((0x0488B21F).to_bytes(4, 'big'))
            B = T.subst(B, {parts['ver']: vb})
            summ = dict(X.DEFAULT_SUMMARIES)
            summ['helper.decode_base58_checksum'] = lambda ev_, fi, env, facts, B=B: (B, facts)
            ev = Evaluator(p, be, summaries=summ)
            v, f = ev.call_function('base_wallet.BaseWallet.from_extended_key', [T.clsref(BW), S('xkey', type='str')])
            ob.require(all(T.tag(l) == 'raise' for _, l in leaves(v)), 'a wallet is built from an unknown version prefix', ffx.where,
                       found=T.show(v, maxdepth=3))
