"""C15 — paranoia mode: no secret in the filtered output, public data unchanged (term-level taint)."""
from __future__ import annotations

from .. import terms as T
from ..evalr import Evaluator, Facts
from .common import *

PW = PKG + '.paper_wallet.PaperWallet'
B85 = PKG + '.bip85.BIP85DeterministicEntropy'
BIPKEY = T.const(b'bip-entropy-from-k')


_PROGRAM = [None]


def paper_wallet(kind, testnet, p=None, be='ecdsa'):
    """Symbolic PaperWallet: kind 'prv' (full) or 'pub' (watch-only).  Built by the class's own constructor (whatever
    fields it has today), then given a symbolic mnemonic and passphrase the way the from_* constructors do."""
    p = p or _PROGRAM[0]
    if kind == 'prv':
        m, k = master_prv(testnet=testnet)
        secrets = [k]
    else:
        m, P = pub_node(depth=T.const(0), index=T.const(0), parent=T.NONE, testnet=testnet)
        secrets = []
    mn, pw = S('mnemonic', type='str'), S('password', type='str')
    if p is not None:
        w = mk_wallet(p, be, m, testnet, cls=PW)
        fields = T.obj_fields(w)
        if 'mnemonic' in fields and 'password' in fields:
            w = T.obj_set(T.obj_set(w, 'mnemonic', mn), 'password', pw)
            return w, secrets + [mn, pw]
        raise AnalysisError('C15.WALLET', 'PaperWallet objects no longer carry mnemonic/password fields: %s' % sorted(fields))
    bip85 = T.obj(B85, dict(master_node=m, testnet=testnet)) if kind == 'prv' else T.NONE
    w = T.obj(PW, dict(master=m, testnet=testnet, mnemonic=mn, password=pw, bip85=bip85))
    return w, secrets + [mn, pw]


def shield(x):
    """Declassifiers: point(k) and the right half of a CKD / master HMAC (the chain code, public by BIP32)."""
    if T.is_op(x, 'PT'):
        return True
    if T.is_op(x, 'SLICE') and T.is_op(x[2], 'HMAC512') and x[3] == T.const(32) and x[4] == T.const(64) \
            and x[2][2] != BIPKEY:
        return True
    return False


def is_secret(t, secrets):
    return T.occurs_outside(t, lambda x: x in secrets, shield)


def flatten(t, path=''):
    """(access path, leaf term) for every leaf of a Dict/List/MAP shaped value."""
    from ..evalr import _strip_raise
    if T.tag(t) == 'phi':
        t = _strip_raise(t)        # a row whose derivation raises is not emitted at all
    if T.tag(t) == 'phi' and any(T.tag(x) in ('dict', 'list', 'tuple') or T.is_op(x, 'MAP') for x in (t[2], t[3])):
        # a shape that depends on a condition (an option of the filter): the leaves of every alternative
        seen = set()
        for alt in (t[2], t[3]):
            for pth, leaf in flatten(alt, path):
                if (pth, leaf) not in seen:
                    seen.add((pth, leaf))
                    yield pth, leaf
        return
    k = T.tag(t)
    if k == 'dict':
        for a, b in t[1]:
            yield from flatten(b, '%s[%s]' % (path, T.show(a)))
    elif k in ('list', 'tuple'):
        for i, x in enumerate(t[1]):
            yield from flatten(x, '%s[%d]' % (path, i))
    elif T.is_op(t, 'MAP'):
        yield from flatten(t[3], path + '[*]')
    else:
        yield path, t


def generate_variants(p, qual='paper_wallet.PaperWallet.generate', skip=3):
    """Keyword settings under which generate() must be filtered correctly: its defaults, and every optional parameter
    beyond (account, interval) switched away from its default (booleans flipped, anything else symbolic).  Also used for
    the optional parameters of the filter itself."""
    fi = p.get_function(qual)
    out = [('', {})]
    for name in fi.params[skip:]:
        d = fi.defaults.get(name)
        if isinstance(d, ast.Constant) and isinstance(d.value, bool):
            out.append((' %s=%s' % (name, not d.value), {name: T.const(not d.value)}))
        else:
            out.append((' %s=<any>' % name, {name: S('opt_' + name)}))
    return out


def generate_shape(p, be, kind, testnet, extra=None):
    ev = Evaluator(p, be)
    ev.step_budget = 3000000
    w, secrets = paper_wallet(kind, testnet, p, be)
    acct, iv = S('account', type='int'), S('interval', type='list')
    facts = Facts().add(T.not_(T.lt(acct, T.const(0)))).add(T.lt(acct, T.const(2 ** 31)))
    if kind == 'pub':
        # a watch-only wallet cannot derive the hardened account path: generate() refuses; use the row/keys builders
        return ev, w, secrets, None, facts
    v, f = ev.call_function('paper_wallet.PaperWallet.generate', [w, acct, iv], dict(extra or {}), facts=facts)
    nl = distinct_normal_leaves(v)
    if len(nl) != 1 or T.tag(nl[0]) != 'dict':
        raise AnalysisError('C15.SHAPE', 'generate() does not evaluate to one dictionary-shaped value (%d normal exits)' % len(nl))
    return ev, w, secrets, nl[0], facts


def run(ctx):
    p = ctx.p
    ctx.explanation = (
        'PaperWallet.generate() is abstractly evaluated on a symbolic wallet (master scalar, mnemonic, passphrase, '
        'account and interval as free symbols, both networks, both back ends) to a dictionary-shaped value whose leaves '
        'are value terms; a leaf is secret iff the master scalar, mnemonic or passphrase occurs in it outside the '
        'declassifiers point(k) and chain-code halves of CKD HMACs. paranoia_mode() is evaluated on that shape: no leaf '
        'of its result may be secret, and every leaf must be identical to the leaf at the same access path of the '
        'unfiltered output. In main(), the data reaching the output sinks under --paranoia must be the filtered value.')
    ctx.not_decided = ['JSON rendering of the filtered structure (json.dumps is trusted)']
    fpm = p.get_function('__main__.paranoia_mode')
    fvariants = generate_variants(p, '__main__.paranoia_mode', 1)
    # class-level switches and extension points (a lower-case class attribute holding True / False or an empty tuple / list,
    # there to be set by the user): the filter is decided again with each of them free; today's tree has none
    from .. import evalr as _ev
    if not getattr(ctx, '_c15_settings_run', False) and not _ev.Evaluator.SYMBOLIC_SETTINGS:
        settings = [s_ for s_ in _ev.class_settings(p) if s_.split('.')[0] in ('PaperWallet', 'BaseWallet')]
        if settings:
            sub = ctx.__class__(ctx.pid, ctx.tier, ctx.p, ctx.seed)
            sub._c15_settings_run = True
            _ev.Evaluator.SYMBOLIC_SETTINGS = True
            try:
                run(sub)
            finally:
                _ev.Evaluator.SYMBOLIC_SETTINGS = False
            for o in sub.obligations:
                if o.rule == 'C15.FILTER':
                    o.rule = 'C15.SETTINGS(=C15.FILTER, %s free)' % ', '.join(settings)
                    ctx.obligations.append(o)
    for be, tn, (vname, extra), (fname, fextra) in [(b_, t_, v_, f_) for b_ in BACKENDS for t_ in (False, True)
                                                     for v_ in generate_variants(p) for f_ in fvariants
                                                     if not (v_[0] and f_[0])]:
        if True:
            cfg = '%s/%s%s%s' % (be, 'testnet' if tn else 'mainnet', vname, (' filter' + fname) if fname else '')
            with ctx.obligation('C15.FILTER', '__main__.paranoia_mode', cfg, fpm.where) as ob:
                ev, w, secrets, full, facts = generate_shape(p, be, 'prv', T.const(tn), extra)
                full_leaves = dict(flatten(full))
                sec_paths = sorted(pth for pth, t in full_leaves.items() if is_secret(t, secrets))
                pub_paths = sorted(pth for pth, t in full_leaves.items() if not is_secret(t, secrets))
                ob.note('unfiltered output: %d leaves, %d secret (%s ...), %d public' % (
                    len(full_leaves), len(sec_paths), ', '.join(sec_paths[:4]), len(pub_paths)))
                if len(sec_paths) < 17 or len(pub_paths) < 15 or any(T.opaques(t) for t in full_leaves.values()):
                    ob.undecided('the shape of generate() is not fully computable by the evaluator (%d secret / %d public leaves; %s)' % (
                        len(sec_paths), len(pub_paths),
                        '; '.join(sorted({o[1] for t in full_leaves.values() for o in T.opaques(t)}))[:200] or 'floor 17/15 not met'), fpm.where)
                    continue
                ob.require(True, 'the shape of generate() was understood (secret and public leaves found)', fpm.where)
                v, f = ev.call_function('__main__.paranoia_mode', [full], dict(fextra))
                alts = distinct_normal_leaves(v)
                if not alts or any(T.tag(x) != 'dict' for x in alts):
                    ob.undecided('paranoia_mode does not evaluate to dictionary-shaped values: %s' % T.show(v, maxdepth=3))
                    continue
                if len(alts) > 1:
                    ob.note('the filter result depends on the data (%d alternatives)' % len(alts))
                # the sinks substitute a freshly generated, UNFILTERED wallet for a falsy `data`: the filtered value must
                # therefore be non-empty on every path (or the sinks must not have that fall-back)
                if any(len(x[1]) == 0 for x in alts):
                    from .C20 import sinks_fall_back_on_empty
                    ob.require(not sinks_fall_back_on_empty(p),
                               'for some wallet data (e.g. an empty interval) paranoia_mode returns an empty mapping, which '
                               'pprint/export_wallet treat as "no data" and replace by a freshly generated unfiltered wallet: '
                               'every secret is emitted although --paranoia was given', fpm.where,
                               found='alternatives with keys %s' % sorted({tuple(T.show(a) for a, _ in x[1]) for x in alts}))
                out = {}
                for alt in alts:
                    for pth, t in flatten(alt):
                        out.setdefault(pth, t)
                        if out[pth] != t and not fextra:
                            ob.require(False, 'filtered leaf %s differs between alternatives of the filter' % pth, fpm.where)
                        elif out[pth] != t:
                            out[pth + ' (alternative)'] = t
                # (a non-default setting of an optional parameter of the filter may legitimately drop more; the clauses about
                # what is kept are decided for the default filter)
                if not fextra:
                    ob.require(len(out) >= 15, 'the filtered output keeps the public records', fpm.where, found=len(out))
                for pth, t in sorted(out.items()):
                    require_no_opaque(ob, t, 'filtered leaf %s' % pth)
                    ob.require(not is_secret(t, secrets),
                               'paranoia-filtered output carries secret material at %s' % pth, fpm.where,
                               found=T.show(t, maxdepth=4))
                    pth0 = pth.replace(' (alternative)', '')
                    ob.require((pth0 in full_leaves and full_leaves[pth0] == t) or (bool(fextra) and t in full_leaves.values()),
                               'filtered leaf %s is not the unfiltered value at the same place' % pth, fpm.where,
                               expected=T.show(full_leaves.get(pth), maxdepth=3) if pth in full_leaves else 'same access path in generate()',
                               found=T.show(t, maxdepth=3))
                if len(alts) == 1:
                    pass
                # everything public in the BIP44/49/84 records survives the filter
                for pth in pub_paths:
                    if pth.startswith(("['BIP44']", "['BIP49']", "['BIP84']")) and len(alts) == 1:
                        if not fextra:
                            ob.require(pth in out, 'public leaf %s of the full output is missing from the filtered output' % pth, fpm.where)
    # ---------------------------------------------------------------- the sinks emit the data they are given
    from .C20 import check_sinks
    check_sinks(ctx, 'C15.SINKS')
    # ---------------------------------------------------------------- ordering in main(): see C20 (shared analysis)
    from .C20 import main_paths
    fmain = p.get_function('__main__.main')
    with ctx.obligation('C15.ORDER', '__main__.main', None, fmain.where) as ob:
        import ast as _ast
        tries = [n for n in _ast.walk(fmain.node) if isinstance(n, _ast.Try)]
        ob.require(not tries, 'main() routes around its sinks with a try/except: a handler (e.g. a fall-back to stdout when the file '
                   'cannot be written) can emit data that did not pass the paranoia filter', '%s:%d' % (
                       fmain.module.relpath, tries[0].lineno if tries else fmain.lineno))
        for path in main_paths(p):
            if path['kind'] != 'sink':
                continue
            filtered = T.is_op(path['data'], 'PARANOIA')
            ob.require(filtered == path['paranoia'],
                       'with --paranoia %s the data reaching %s is %s' % ('on' if path['paranoia'] else 'off', path['sink'],
                                                                         'filtered' if filtered else 'unfiltered'),
                       fmain.where, found=T.show(path['data'], maxdepth=3))
            if filtered:
                ob.require(T.is_op(path['data'][2], 'GENERATE'), 'the filter is applied to the generated wallet data', fmain.where)
    # the filter is switched by args.paranoia: it must be what the user gave (one parse of the full argument vector), and
    # every emitting call - not only the first one reached - must get the filtered data
    from .C20 import check_namespace, all_sink_calls
    check_namespace(ctx, 'C15.FLAGSOURCE(=C20.NAMESPACE)')
    from .C20 import check_onesink
    check_onesink(ctx, 'C15.EVERYSINK(=C20.ONESINK)')
