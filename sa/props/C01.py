"""C01 — CKDpriv matches BIP32 (R-TERM per back end and key layout)."""
from __future__ import annotations

from .. import terms as T
from ..evalr import Evaluator, Facts
from ..spec import bip32 as SP
from .common import *
from . import C17



def _cells_index():
    return ((0, 2 ** 31 - 1, False), (2 ** 31, 2 ** 32 - 1, True))


H = 2 ** 31


def check_child_wiring(ob, leaf, parent, cls, key, chain, i, where):
    f = T.obj_fields(leaf)
    pf = T.obj_fields(parent)
    ob.require(leaf[1] == cls, 'child has the class of its parent', where, expected=cls, found=leaf[1])
    same_term(ob, f.get('key'), key, 'child key', where)
    same_term(ob, f.get('chain_code'), chain, 'child chain code (IR)', where)
    same_term(ob, f.get('index'), i, 'child number', where)
    same_term(ob, f.get('depth'), T.add(pf['depth'], T.const(1)), 'child depth = parent depth + 1', where)
    same_term(ob, f.get('testnet'), pf['testnet'], 'child inherits the network flag', where)
    same_term(ob, f.get('parent'), parent, 'child records its parent (fingerprint source)', where)
    same_term(ob, f.get('parsed_parent_fingerprint'), T.NONE, 'derived child has no parsed fingerprint', where)


def check_bulk(ctx, rule, kinds=('prv', 'pub')):
    """generate_children(interval) is, for every interval - below, across and above 2^31 - exactly the list of what ckd
    gives index by index: same children (observed through their API), same refusals under the same conditions."""
    import ast as _ast
    from ..evalr import Frame, _map_leaves
    from .C13 import _observe
    p = ctx.p
    fgen = p.get_function('bip32.PubKeyNode.generate_children')
    expr = _ast.parse('[self.ckd(index=i) for i in range(*interval)]', mode='eval').body
    for be in BACKENDS:
        for kind in kinds:
            with ctx.obligation(rule, 'generate_children ~ ckd', '%s/%s' % (be, kind), fgen.where) as ob:
                node = prv_node('32')[0] if kind == 'prv' else pub_node()[0]
                for lo in (0, H - 1, H):
                    iv = T.tup([T.const(lo), T.const(lo + 2)])
                    ev = Evaluator(p, be)
                    found, f1 = ev.call_function('bip32.PubKeyNode.generate_children', [node], {'interval': iv})
                    e2 = Evaluator(p, be)
                    fr = Frame(fgen, {'self': node, 'interval': iv}, e2._with_domain(None), fgen.module, fgen.cls, 0)
                    expected = e2.expr(expr, fr)

                    def obs(ev_, v):
                        # which exception a refusal raises (and which of two refusing elements is met first) is not compared:
                        # refusing paths are refusing paths
                        def leaf(x):
                            if T.tag(x) in ('list', 'tuple'):
                                return _observe(ev_, x)
                            return T.raise_('refused') if T.tag(x) == 'raise' else x
                        return _map_leaves(v, leaf) if T.tag(v) == 'phi' else leaf(v)
                    same_term(ob, obs(ev, found), obs(e2, expected),
                              'generate_children((%d, %d)) on a %s node is [ckd(i) for i in range(%d, %d)] - same children, same refusals'
                              % (lo, lo + 2, 'private' if kind == 'prv' else 'public', lo, lo + 2), fgen.where)


def run(ctx):
    p = ctx.p
    ctx.explanation = (
        'R-TERM: PrvKeyNode.ckd, private_key/public_key, fingerprint/parent_fingerprint, _serialize, '
        'extended_*_key and PrivateKey/PublicKey constructors are abstractly evaluated with the parent scalar, chain '
        'code, depth, index and network as free symbols, for both crypto back ends and both stored key layouts '
        '(32 bytes / 00||32); the resulting value terms must equal the BIP32 specification terms (HMAC message '
        'layout per side of 2^31, IL/IR split, (IL + k) mod n as 32 bytes, field wiring, 78-byte layout).')
    ctx.not_decided = ['that hmac/hashlib/ecdsa/libsecp256k1 compute HMAC-SHA512 and secp256k1 arithmetic correctly',
                       'Base58 digit arithmetic (C10)']
    ctx.trusted = ['summary table of externals (sa/externals.py)', 'algebraic laws of sa/terms.py',
                   'BIP32 transcription sa/spec/bip32.py']
    fckd = p.get_function('bip32.PrvKeyNode.ckd')
    for be in BACKENDS:
        for layout in ('32', '33'):
            cfg = '%s/key%s' % (be, layout)
            ev = Evaluator(p, be)
            node, k = prv_node(layout)
            c = T.obj_fields(node)['chain_code']
            i = S('i', type='int')
            with ctx.obligation('C01.CHILD', 'PrvKeyNode.ckd', cfg, fckd.where) as ob:
                v, f = ev.call_function('bip32.PrvKeyNode.ckd', [node, i])
                nl = normal_leaves(v)
                ob.require(len(nl) >= 1, 'ckd can return a child', fckd.where)
                ekey, echain = SP.ckd_priv(k, c, i)
                for cs, leaf in nl:
                    if T.tag(leaf) != 'obj':
                        ob.undecided('ckd returns %s' % T.show(leaf, maxdepth=3))
                        continue
                    check_child_wiring(ob, T.assume(leaf, set(cs)), node, PRV, T.assume(ekey, set(cs)),
                                       T.assume(echain, set(cs)), i, fckd.where)
                # the only refusals BIP32 defines are IL >= n and k_i = 0: any other refusing condition rejects a valid child
                il = T.int_(T.slice_(SP.ckd_priv_I(k, c, i), T.const(0), T.const(32)), BIG)
                allowed = {T.not_(T.lt(il, T.CURVE_N)), T.eq(T.const(0), T.int_(ekey, BIG))}
                for cs, leaf in raise_leaves(v):
                    trig = T.hoist(cs[-1]) if cs else None
                    ok = trig is not None and any(trig == T.hoist(a) or T.assume(trig, set(cs[:-1])) == T.assume(a, set(cs[:-1])) for a in allowed)
                    ok = ok or depth_overflow(cs, node)
                    ob.require(ok, 'PrvKeyNode.ckd refuses (%s) under a condition that BIP32 does not declare invalid' % leaf[1], fckd.where,
                               expected='only IL >= n or k_i == 0', found=T.show(cs[-1], maxdepth=5) if cs else 'unconditional')
                feas = [cs for cs, leaf in nl if not contradictory(known_at(f, cs))]
                ob.require(len(feas) >= 1, 'no returning exit of PrvKeyNode.ckd is feasible: every path that returns a child '
                           'assumes a condition the validating calls on it exclude', fckd.where,
                           found=[[T.show(x, maxdepth=4) for x in cs] for cs, _ in nl][:3])
            fgen = p.get_function('bip32.PubKeyNode.generate_children')
            with ctx.obligation('C01.GENCHILD', 'generate_children on a private node', cfg, fgen.where) as ob:
                # children produced in bulk are the children ckd produces one by one - below, across and above 2^31
                pf = T.obj_fields(node)
                for lo in (0, H - 1, H):
                    v, f = ev.call_function('bip32.PubKeyNode.generate_children', [node], {'interval': T.tup([T.const(lo), T.const(lo + 2)])})
                    lists = normal_leaves(v)
                    ob.require(len(lists) >= 1 and all(T.tag(x) in ('list', 'tuple') and len(x[1]) == 2 for _, x in lists),
                               'generate_children((%d, %d)) returns the two children' % (lo, lo + 2), fgen.where,
                               found=T.show(v, maxdepth=2))
                    for cs_, x in lists:
                        if T.tag(x) not in ('list', 'tuple'):
                            continue
                        for j, child in enumerate(x[1]):
                            idx = T.const(lo + j)
                            ekey, echain = SP.ckd_priv(k, c, idx)
                            same_node(ob, ev, child, PRV, 'generate_children: child %d' % (lo + j), fgen.where,
                                      facts=Facts(known_at(f, cs_)), prv=ekey,
                                      chain=echain, depth=T.add(pf['depth'], T.const(1)), index=idx, testnet=pf['testnet'])
            with ctx.obligation('C01.BRANCH', 'PrvKeyNode.ckd', cfg, fckd.where) as ob:
                for lo, hi, hardened in _cells_index():
                    facts = Facts().add(T.not_(T.lt(i, T.const(lo)))).add(T.lt(i, T.const(hi + 1)))
                    v, f = ev.call_function('bip32.PrvKeyNode.ckd', [node, i], facts=facts)
                    msg = T.cat(T.const(b'\x00'), k, SP.ser32(i)) if hardened else T.cat(T.sec(T.pt(k), T.TRUE), SP.ser32(i))
                    I = SP.hmac512(c, msg)
                    for cs, leaf in normal_leaves(v):
                        if T.tag(leaf) != 'obj':
                            ob.undecided('ckd returns %s' % T.show(leaf, maxdepth=3))
                            continue
                        same_term(ob, T.obj_fields(leaf)['chain_code'], T.slice_(I, T.const(32), T.const(64)),
                                  'index in [%d, %d] uses the %s HMAC message' % (lo, hi, 'hardened (0x00||ser256(k)||ser32(i))'
                                                                                  if hardened else 'normal (serP(K)||ser32(i))'),
                                  fckd.where)
            fpk = p.get_function('bip32.PrvKeyNode.private_key')
            with ctx.obligation('C01.KEYNORM', 'PrvKeyNode.private_key', cfg, fpk.where) as ob:
                v, f = ev.call_function('bip32.PrvKeyNode.private_key', [node])
                same_priv(ob, ev, v, k, 'private_key is the scalar itself for either stored layout', fpk.where)
                raw_node, kraw = prv_node(layout, name='kraw')
                vr, fr_ = ev.call_function('bip32.PrvKeyNode.private_key', [raw_node])
                for cs, leaf in normal_leaves(vr):
                    ob.require(T.raw_op('VALID_SK', kraw) in known_at(fr_, cs),
                               'the scalar is range-checked when the key object is built', fpk.where)
                v2, _ = ev.call_function('bip32.PrvKeyNode.public_key', [node])
                same_pub(ob, ev, v2, T.pt(k), 'public_key is point(k)', fpk.where)
    # ------------------------------------------------------------------ fingerprints and serialisation
    ffp = p.get_function('bip32.PubKeyNode.fingerprint')
    fpfp = p.get_function('bip32.PubKeyNode.parent_fingerprint')
    fser = p.get_function('bip32.PubKeyNode._serialize')
    for be in BACKENDS:
        ev = Evaluator(p, be)
        for kind in ('prv32', 'prv33', 'pub'):
            cfg = '%s/%s' % (be, kind)
            if kind == 'pub':
                node, P = pub_node()
                cls = PUB
            else:
                node, k = prv_node(kind[3:])
                P = T.pt(k)
                cls = PRV
            with ctx.obligation('C01.FPR', 'PubKeyNode.fingerprint', cfg, ffp.where) as ob:
                v, f = ev.call_function('bip32.PubKeyNode.fingerprint', [node])
                same_term(ob, v, SP.fingerprint_of_point(P), 'fingerprint = first 4 bytes of HASH160(serP(K))', ffp.where)
            with ctx.obligation('C01.PFPR', 'PubKeyNode.parent_fingerprint', cfg, fpfp.where) as ob:
                child = node_term(cls, T.obj_fields(node)['key'], parent=node, tagname='2')
                v, f = ev.call_function('bip32.PubKeyNode.parent_fingerprint', [child])
                same_term(ob, v, SP.fingerprint_of_point(P), 'derived node: fingerprint of the parent object', fpfp.where)
                f4 = S('parsedfp', type='bytes', len=4)
                parsed = node_term(cls, T.obj_fields(node)['key'], parent=T.NONE, ppf=f4, tagname='3')
                v, f = ev.call_function('bip32.PubKeyNode.parent_fingerprint', [parsed])
                same_term(ob, v, f4, 'parsed node: the parsed fingerprint', fpfp.where)
                root = node_term(cls, T.obj_fields(node)['key'], parent=T.NONE, ppf=T.NONE, tagname='4')
                v, f = ev.call_function('bip32.PubKeyNode.parent_fingerprint', [root])
                same_term(ob, v, T.const(b'\x00' * 4), 'root without fingerprint: four zero bytes', fpfp.where)
            # serialisation: derived child (non-master) and master
            with ctx.obligation('C01.SER', 'PubKeyNode._serialize', cfg, fser.where) as ob:
                ver = S('version', type='int')
                child = node_term(cls, T.obj_fields(node)['key'], parent=node, tagname='2')
                cf = T.obj_fields(child)
                master = node_term(cls, T.obj_fields(node)['key'], parent=T.NONE, depth=T.const(0), index=T.const(0),
                                   tagname='5')
                mf = T.obj_fields(master)
                pubdata = T.sec(P, T.TRUE)
                cases = [('serialize_public', pubdata, 'pub_version', SP.TPUB, SP.XPUB)]
                if cls == PRV:
                    cases.append(('serialize_private', T.cat(T.const(b'\x00'), k), 'prv_version', SP.TPRV, SP.XPRV))
                # a derived node has depth >= 1 (its parent's depth + 1): depth 0 is the master case below
                derived = Facts().add(T.not_(T.lt(cf['depth'], T.const(1)))).add(T.lt(cf['depth'], T.const(256)))
                for meth, keydata, vname, tver, mver in cases:
                    owner = 'bip32.PubKeyNode.' if meth == 'serialize_public' else 'bip32.PrvKeyNode.'
                    v, f = ev.call_function(owner + meth, [child], {'version': ver}, facts=derived)
                    exp = SP.serialize(ver, cf['depth'], SP.fingerprint_of_point(P), cf['index'], cf['chain_code'], keydata)
                    same_term(ob, v, exp, '%s of a derived node (78-byte layout)' % meth, fser.where)
                    v, f = ev.call_function(owner + meth, [master], {'version': ver})
                    exp = SP.serialize(ver, T.const(0), T.const(b'\x00' * 4), T.const(0), mf['chain_code'], keydata)
                    same_term(ob, v, exp, '%s of a master node (zero depth, fingerprint, child number)' % meth, fser.where)
                    # default version follows the node's own network
                    v, f = ev.call_function(owner + meth, [child], facts=derived)
                    dv = T.phi(T.truth(cf['testnet']), T.const(tver), T.const(mver))
                    exp = SP.serialize(dv, cf['depth'], SP.fingerprint_of_point(P), cf['index'], cf['chain_code'], keydata)
                    same_term(ob, v, exp, '%s default version is the node network\'s %s' % (meth, vname), fser.where)
                    xk = 'extended_public_key' if meth == 'serialize_public' else 'extended_private_key'
                    v, f = ev.call_function(owner + xk, [child], {'version': ver}, facts=derived)
                    exp = SP.b58check(SP.serialize(ver, cf['depth'], SP.fingerprint_of_point(P), cf['index'],
                                                   cf['chain_code'], keydata))
                    same_term(ob, v, exp, '%s = Base58Check(serialisation)' % xk, fser.where)
    # ------------------------------------------------------------------ helpers are checked, not assumed
    with ctx.obligation('C01.HELPERS', 'helper.*', None, p.get_function('helper.hmac_sha512').where) as ob:
        ev = Evaluator(p, 'ecdsa')
        a, b, n = S('a', type='bytes'), S('b', type='bytes'), S('n', type='int')
        w = S('w', type='int')
        v, _ = ev.call_function('helper.hmac_sha512', [a, b])
        same_term(ob, v, SP.hmac512(a, b), 'hmac_sha512 is HMAC with SHA-512', p.get_function('helper.hmac_sha512').where)
        v, _ = ev.call_function('helper.int_to_big_endian', [n, w])
        same_term(ob, v, T.ser(n, w, BIG), 'int_to_big_endian is fixed-width big-endian',
                  p.get_function('helper.int_to_big_endian').where)
        v, _ = ev.call_function('helper.big_endian_to_int', [a])
        same_term(ob, v, T.int_(a, BIG), 'big_endian_to_int is big-endian', p.get_function('helper.big_endian_to_int').where)
        v, _ = ev.call_function('helper.hash160', [a])
        same_term(ob, v, SP.hash160(a), 'hash160 = RIPEMD160(SHA256(x))', p.get_function('helper.hash160').where)
        v, _ = ev.call_function('helper.hash256', [a])
        same_term(ob, v, SP.hash256(a), 'hash256 = SHA256(SHA256(x))', p.get_function('helper.hash256').where)
        v, _ = ev.call_function('helper.encode_base58_checksum', [a])
        same_term(ob, v, SP.b58check(a), 'encode_base58_checksum appends the first 4 bytes of hash256',
                  p.get_function('helper.encode_base58_checksum').where)
        hv = ev.module_const('bip32', 'HARDENED')
        same_term(ob, hv, T.const(2 ** 31), 'HARDENED is 2^31', 'btc_hd_wallet/bip32.py')
    # ------------------------------------------------------------------ back-end siblings of the key classes
    finit = p.get_function('keys.PrivateKey.__init__')
    with ctx.obligation('C01.BACKEND', 'keys.PrivateKey/PublicKey', None, finit.where) as ob:
        res = {}
        for be in BACKENDS:
            ev = Evaluator(p, be)
            b = S('b', type='bytes', len=32)
            n = S('n', type='int')
            c = S('compressed', type='bool')
            P = S('P', type='point')
            enc = S('enc', type='bytes')
            r = {}
            r['init_bytes'] = ev.construct('keys.PrivateKey', [b])
            r['init_int'] = ev.construct('keys.PrivateKey', [n])
            r['from_int'] = ev.call_function('keys.PrivateKey.from_int', [T.clsref(PRIVKEY), n])
            r['parse'] = ev.call_function('keys.PrivateKey.parse', [T.clsref(PRIVKEY), b])
            pubP = mk_pub(p, be, P)
            r['sec'] = ev.call_function('keys.PublicKey.sec', [pubP], {'compressed': c})
            r['sec_default'] = ev.call_function('keys.PublicKey.sec', [pubP])
            r['pub_parse'] = ev.call_function('keys.PublicKey.parse', [T.clsref(PUBKEY), enc])
            r['bytes'] = ev.call_function('keys.PrivateKey.__bytes__', [mk_priv(p, be, b)])
            res[be] = r
            nb = T.ser(n, T.const(32), BIG)
            same_priv(ob, ev, r['init_bytes'][0], b, 'PrivateKey(bytes) [%s]' % be, finit.where)
            for cs, leaf in normal_leaves(r['init_bytes'][0]):
                ob.require(T.raw_op('VALID_SK', b) in known_at(r['init_bytes'][1], cs),
                           'PrivateKey(bytes) validates the scalar [%s]' % be, finit.where)
            for nm in ('init_int', 'from_int'):
                same_priv(ob, ev, r[nm][0], nb, 'PrivateKey from int serialises to 32 bytes big-endian (%s) [%s]' % (nm, be), finit.where)
            same_priv(ob, ev, r['parse'][0], b, 'PrivateKey.parse == PrivateKey(bytes) [%s]' % be, finit.where)
            same_term(ob, r['sec'][0], T.sec(P, c), 'PublicKey.sec honours the compressed flag [%s]' % be,
                      p.get_function('keys.PublicKey.sec').where)
            same_term(ob, r['sec_default'][0], T.sec(P, T.TRUE), 'PublicKey.sec defaults to compressed [%s]' % be,
                      p.get_function('keys.PublicKey.sec').where)
            same_pub(ob, ev, r['pub_parse'][0], T.parse_pt(enc), 'PublicKey.parse [%s]' % be,
                     p.get_function('keys.PublicKey.parse').where)
            ob.require(T.raw_op('ON_CURVE', enc) in closure(r['pub_parse'][1]),
                       'PublicKey.parse uses a validating secp256k1 parser [%s]' % be,
                       p.get_function('keys.PublicKey.parse').where)
            same_term(ob, r['bytes'][0], b, 'bytes(PrivateKey) is the 32-byte scalar [%s]' % be, finit.where)
    # ------------------------------------------------------------------ CKDpriv's failure cases (shared with C18)
    from . import C18
    sub = ctx.__class__('C01', ctx.tier, ctx.p, ctx.seed)
    C18.run(sub)
    for o in sub.obligations:
        if o.rule in ('C18.CKDPRIV', 'C18.MASTER'):
            o.rule = 'C01.INVALID(=%s)' % o.rule
            ctx.obligations.append(o)
    # "for a derived node" includes nodes derived from a parent that was parsed from an extended key string: what parse
    # makes of the string (fields at their widths, the network handed on to the node) is part of this property (seed C01-N)
    from . import C07
    sub7 = ctx.__class__('C01', ctx.tier, ctx.p, ctx.seed)
    sub7.embedded = True
    C07.run(sub7)
    for o in sub7.obligations:
        if o.rule in ('C07.LAYOUT',):
            o.rule = 'C01.PARSE(=C07.LAYOUT)'
            ctx.obligations.append(o)
    check_bulk(ctx, 'C01.BULK', kinds=('prv',))
    # ------------------------------------------------------------------ transitivity: derive_path is a fold of ckd
    C17.check_fold(ctx, 'C01.FOLD')
