"""C11 — segwit addresses follow BIP173/BIP350 (agreement with the reference implementation at term level)."""
from __future__ import annotations

import os

from .. import terms as T
from ..evalr import Evaluator, Facts
from ..loader import Program
from .. import refcmp
from .. import externals as X
from .common import *

REF = os.path.join(os.path.dirname(os.path.dirname(os.path.abspath(__file__))), 'spec', 'ref')
FUNCS = ['bech32_polymod', 'bech32_hrp_expand', 'bech32_verify_checksum', 'bech32_create_checksum', 'bech32_encode',
         'bech32_decode', 'convertbits', 'decode', 'encode']
GEN = [0x3b6a57b2, 0x26508e6d, 0x1ea119fa, 0x3d4233dd, 0x2a1462b3]


def _skeleton(node):
    """The constant frame of a pattern expression: '...%s...' % x, f'...{x}...', a + b, with inserted text replaced by 'a'."""
    import ast as _ast
    import re as _re
    if isinstance(node, _ast.Constant) and isinstance(node.value, str):
        return node.value
    if isinstance(node, _ast.BinOp) and isinstance(node.op, _ast.Mod):
        left = _skeleton(node.left)
        return _re.sub(r'%(\([^)]*\))?[-#0 +]*\d*(\.\d+)?[sdrxXc]', 'a', left) if isinstance(left, str) else None
    if isinstance(node, _ast.BinOp) and isinstance(node.op, _ast.Add):
        a, b = _skeleton(node.left), _skeleton(node.right)
        return (a if isinstance(a, str) else 'a') + (b if isinstance(b, str) else 'a') if (isinstance(a, str) or isinstance(b, str)) else None
    if isinstance(node, _ast.JoinedStr):
        return ''.join(v.value if isinstance(v, _ast.Constant) else 'a' for v in node.values)
    if isinstance(node, _ast.Call) and isinstance(node.func, _ast.Attribute) and node.func.attr == 'format':
        base = _skeleton(node.func.value)
        return _re.sub(r'\{[^{}]*\}', 'a', base) if isinstance(base, str) else None
    return None


def check_regex_anchors(ctx, rule, modules):
    p = ctx.p
    # a regular expression that gates a whole string must be anchored at the very end: `$` also matches in front of a
    # trailing line feed, so `^...$` with match()/search() accepts "<valid string>\n" (only \Z or fullmatch() do not)
    with ctx.obligation(rule, 'regular expressions that gate whole strings', None, modules[0].relpath) as ob:
        import ast as _ast
        import re as _re
        n_re = 0
        for mod in modules:
            consts = {}
            for nm, nodes in mod.assigns.items():
                v_ = nodes[-1]
                if isinstance(v_, _ast.Call) and _ast.unparse(v_.func) in ('re.compile', 'compile') and v_.args:
                    consts[nm] = (v_.args[0], v_)
            for n in _ast.walk(mod.tree):
                if not isinstance(n, _ast.Call):
                    continue
                f_ = _ast.unparse(n.func)
                pat = None
                if f_ in ('re.match', 're.search') and n.args:
                    pat = n.args[0]
                elif isinstance(n.func, _ast.Attribute) and n.func.attr in ('match', 'search') and isinstance(n.func.value, _ast.Name) \
                        and n.func.value.id in consts:
                    pat = consts[n.func.value.id][0]
                if pat is None:
                    continue
                n_re += 1
                try:
                    src = _ast.literal_eval(pat)
                except Exception:
                    # concatenated / formatted pattern: evaluate the constant pieces
                    try:
                        ev_ = Evaluator(p, 'ecdsa')
                        from ..evalr import Frame
                        t_ = ev_.expr(pat, Frame(None, {}, Facts(), mod, None, 0))
                        src = t_[1] if T.is_const(t_) else None
                    except Exception:
                        src = None
                if not isinstance(src, (str, bytes)):
                    src = _skeleton(pat)       # constant frame of a formatted / concatenated pattern (inserted text as 'a')
                if not isinstance(src, (str, bytes)):
                    ob.undecided('regular expression at %s:%d is not a constant' % (mod.relpath, n.lineno))
                    continue
                try:
                    parsed = _re._parser.parse(src)
                except Exception:
                    ob.undecided('regular expression at %s:%d does not parse' % (mod.relpath, n.lineno))
                    continue
                items = list(parsed)
                last = items[-1] if items else None
                ends_soft = last is not None and str(last[0]) == 'AT' and str(last[1]) == 'AT_END'
                ob.require(not ends_soft, 'the pattern %r is anchored with `$`, which also matches before a trailing line feed: a valid '
                           'string followed by "\\n" is accepted (use \\Z or fullmatch)' % (src if len(src) < 60 else src[:57] + '...'),
                           '%s:%d' % (mod.relpath, n.lineno))
        if n_re == 0:
            ob.evaluations += 1
            ob.note('no regular expression gates a string in %s' % ', '.join(m_.relpath for m_ in modules))


_CASE_MAPS = {'lower', 'upper', 'casefold', 'swapcase', 'title', 'capitalize'}
_RANGE_PREDICATES = {'isascii', 'isprintable', 'isalnum', 'isalpha', 'isdigit', 'isdecimal', 'isidentifier'}


def _case_mapped(expr, folded):
    """does the expression denote a case-mapped / normalised copy of the input?"""
    for n in ast.walk(expr):
        if isinstance(n, ast.Call) and isinstance(n.func, ast.Attribute) and n.func.attr in _CASE_MAPS:
            return True
        if isinstance(n, ast.Call) and ast.unparse(n.func).endswith('normalize'):
            return True
        if isinstance(n, ast.Name) and n.id in folded:
            return True
    return False


def check_raw_range(ctx, rule):
    """Unicode case mapping sends some non-ASCII characters to ASCII letters (U+212A KELVIN SIGN -> 'k', U+017F -> 's'):
    a character-range test applied only to a case-mapped copy of the address lets them through.  Every test of the
    character range in bech32_decode (ord(c) comparisons over the characters, str predicates such as isascii /
    isprintable, encode('ascii')) is located and the value it inspects is traced back: at least one of them must inspect
    the parameter itself."""
    p = ctx.p
    fi = p.get_function('bech32.bech32_decode')
    with ctx.obligation(rule, 'bech32.bech32_decode', None, fi.where) as ob:
        param = fi.params[0]
        # statements in source order: names that hold a case-mapped copy from a given line on
        folded_from = {}
        for n in sorted((x for x in ast.walk(fi.node) if isinstance(x, ast.Assign)), key=lambda x: x.lineno):
            cur = {nm for nm, ln in folded_from.items() if ln <= n.lineno}
            if _case_mapped(n.value, cur):
                for t in n.targets:
                    if isinstance(t, ast.Name):
                        folded_from.setdefault(t.id, n.lineno + 0.5)
            else:
                for t in n.targets:
                    if isinstance(t, ast.Name) and t.id in folded_from and not _mentions(n.value, set(folded_from)):
                        pass
        sites = []

        def inspected(expr, line):
            cur = {nm for nm, ln in folded_from.items() if ln <= line}
            raw = isinstance(expr, ast.Name) and expr.id == param and param not in cur
            return 'raw' if raw else ('mapped' if _case_mapped(expr, cur) else 'other')
        for n in ast.walk(fi.node):
            if isinstance(n, (ast.GeneratorExp, ast.ListComp, ast.SetComp)) and len(n.generators) == 1:
                g = n.generators[0]
                tgt = {x.id for x in ast.walk(g.target) if isinstance(x, ast.Name)}
                uses_ord = any(isinstance(c, ast.Call) and isinstance(c.func, ast.Name) and c.func.id == 'ord'
                               and c.args and isinstance(c.args[0], ast.Name) and c.args[0].id in tgt for c in ast.walk(n.elt))
                cmp_ = any(isinstance(c, ast.Compare) for c in ast.walk(n.elt))
                if uses_ord and cmp_:
                    sites.append((n.lineno, 'ord() comparison over the characters of `%s`' % ast.unparse(g.iter), inspected(g.iter, n.lineno)))
            if isinstance(n, ast.For):
                tgt = {x.id for x in ast.walk(n.target) if isinstance(x, ast.Name)}
                body_ord = any(isinstance(c, ast.Call) and isinstance(c.func, ast.Name) and c.func.id == 'ord' and c.args
                               and isinstance(c.args[0], ast.Name) and c.args[0].id in tgt for s_ in n.body for c in ast.walk(s_))
                if body_ord and any(isinstance(c, ast.Compare) for s_ in n.body for c in ast.walk(s_)):
                    sites.append((n.lineno, 'ord() comparison in a loop over `%s`' % ast.unparse(n.iter), inspected(n.iter, n.lineno)))
            if isinstance(n, ast.Call) and isinstance(n.func, ast.Attribute):
                if n.func.attr in _RANGE_PREDICATES:
                    sites.append((n.lineno, '%s()' % ast.unparse(n.func), inspected(n.func.value, n.lineno)))
                if n.func.attr == 'encode' and n.args and isinstance(n.args[0], ast.Constant) and str(n.args[0].value).lower().replace('-', '') in ('ascii', 'usascii'):
                    sites.append((n.lineno, '%s' % ast.unparse(n), inspected(n.func.value, n.lineno)))
        # a test delegated to a helper of the module: helper(x) whose body tests the range of its own parameter
        for n in ast.walk(fi.node):
            if isinstance(n, ast.Call) and isinstance(n.func, ast.Name) and n.func.id in fi.module.functions and n.args:
                h = fi.module.functions[n.func.id]
                if h is fi or not h.params:
                    continue
                hp = h.params[0]
                inner = False
                for m in ast.walk(h.node):
                    if isinstance(m, (ast.GeneratorExp, ast.ListComp, ast.SetComp)) and len(m.generators) == 1 \
                            and isinstance(m.generators[0].iter, ast.Name) and m.generators[0].iter.id == hp \
                            and any(isinstance(c, ast.Call) and isinstance(c.func, ast.Name) and c.func.id == 'ord' for c in ast.walk(m.elt)) \
                            and any(isinstance(c, ast.Compare) for c in ast.walk(m.elt)):
                        inner = True
                    if isinstance(m, ast.For) and isinstance(m.iter, ast.Name) and m.iter.id == hp and any(
                            isinstance(c, ast.Call) and isinstance(c.func, ast.Name) and c.func.id == 'ord' for s_ in m.body for c in ast.walk(s_)):
                        inner = True
                    if isinstance(m, ast.Call) and isinstance(m.func, ast.Attribute) and m.func.attr in _RANGE_PREDICATES \
                            and isinstance(m.func.value, ast.Name) and m.func.value.id == hp:
                        inner = True
                if inner and not any(isinstance(x, ast.Assign) and any(isinstance(t, ast.Name) and t.id == hp for t in x.targets)
                                     for x in ast.walk(h.node)):
                    sites.append((n.lineno, 'range test in helper %s(%s)' % (h.name, ast.unparse(n.args[0])), inspected(n.args[0], n.lineno)))
        ob.evaluations += 1
        ob.saw('%d character-range test sites: %s' % (len(sites), [(ln, k) for ln, _w, k in sites]))
        if not sites:
            ob.undecided('no test of the character range was recognised in bech32_decode (expected: ord(c) comparisons over the '
                         'characters or a str predicate); whether characters outside 33..126 are refused is not decided here', fi.where)
            return
        if not any(k == 'raw' for _ln, _w, k in sites):
            mapped = [(ln, w) for ln, w, k in sites if k == 'mapped']
            if mapped and len(mapped) == len(sites):
                ob.require(False, 'the character range 33..126 is tested on a case-mapped copy of the address only (%s): a non-ASCII '
                           'character whose lower/upper case is an ASCII letter (U+212A KELVIN SIGN -> k) passes, and an address with '
                           'one character substituted decodes' % '; '.join(w for _ln, w in mapped),
                           '%s:%d' % (fi.module.relpath, mapped[0][0]))
            else:
                ob.undecided('the character-range tests inspect values whose relation to the parameter is not recognised: %s'
                             % [(ln, w) for ln, w, k in sites], fi.where)


def _mentions(expr, names):
    return any(isinstance(n, ast.Name) and n.id in names for n in ast.walk(expr))


def run(ctx):
    p = ctx.p
    ctx.explanation = (
        'Every function of the bech32 module is compared with the BIP-0173/0350 reference implementation (transcribed '
        'under sa/spec/ref) at the level of value terms: straight-line segments by the terms they assign and by their '
        'exits (rejecting returns and their conditions - thresholds 33/126, mixed case, separator position, 6-character '
        'checksum, 90-character limit, charset membership, hrp equality, strict padding, program length 2..40, version '
        '<= 16, v0 lengths 20/32, checksum-constant <-> version pairing), loops by iteration space and by the transfer '
        'function of their body (polymod step, convertbits accumulator, padding epilogue). Constants (charset, five '
        'generator words, Bech32m constant, initial value 1, Encoding values) are compared with the BIPs. The wallet '
        'helpers must pass hrp by network and witness version 0 and encode() re-validates its own output.')
    ctx.not_decided = ['the <=4-error detection theorem itself (it is a property of exactly these constants, established in '
                       'BIP173/BIP350; the check shows the code uses them in the reference algorithm)',
                       'polymod / convertbits arithmetic on concrete values']
    ref = Program(REF)
    mi = p.get_module('bech32')
    with ctx.obligation('C11.CONST', 'bech32 constants', None, mi.relpath) as ob:
        ev = Evaluator(p, 'ecdsa')
        same_term(ob, ev.module_const('bech32', 'CHARSET'), T.const('qpzry9x8gf2tvdw0s3jn54khce6mua7l'), 'CHARSET', mi.relpath)
        same_term(ob, ev.module_const('bech32', 'BECH32M_CONST'), T.const(0x2bc830a3), 'BECH32M_CONST', mi.relpath)
        enc = p.get_class('bech32.Encoding')
        members = dict(ev._enum_members(enc, 0))
        ob.require(set(members) == {'BECH32', 'BECH32M'} and members['BECH32'] != members['BECH32M'],
                   'Encoding has two distinct members BECH32 and BECH32M', mi.relpath, found=sorted(members))
        ob.require(len(set('qpzry9x8gf2tvdw0s3jn54khce6mua7l')) == 32, 'charset has 32 distinct characters', mi.relpath)
    for fn in FUNCS:
        fi = p.get_function('bech32.' + fn)
        with ctx.obligation('C11.REF', 'bech32.' + fn, None, fi.where) as ob:
            refcmp.compare(ob, p, ref, 'bech32', fn, same_term)
    # "an illegal version/length combination yields no address", "strings over 90 characters" are rejected: whatever
    # encode() returns must have been accepted by decode() (which enforces all of it, C11.REF) or, at least, have been
    # bounded to 90 characters - independently of how encode() is otherwise written
    fe = p.get_function('bech32.encode')
    check_raw_range(ctx, 'C11.RAWRANGE')
    with ctx.obligation('C11.LIMIT', 'bech32.encode', None, fe.where) as ob:
        names = set(mi.functions) - {'encode'}
        summ = refcmp._summaries_for(p, 'bech32', 'encode', names)
        ev = Evaluator(p, 'ecdsa', summaries=summ)
        hrp, wv, wp = S('hrp', type='str'), S('witver', type='int'), S('witprog', type='bytes')
        v, f = ev.call_function('bech32.encode', [hrp, wv, wp])
        nl = [(cs, leaf) for cs, leaf in normal_leaves(v) if leaf != T.NONE]
        ob.require(len(nl) >= 1, 'encode can return an address', fe.where)
        for cs, leaf in nl:
            known = known_at(f, cs)
            redecoded = any(T.contains(k, lambda x: T.is_op(x, 'CALL:decode') and x[3] == leaf) for k in known
                            if T.is_op(k, 'NOT') or T.is_op(k, 'EQ') or T.is_op(k, 'IS'))
            bounded = any((T.is_op(k, 'LT') and k[2] == T.len_(leaf) and T.is_const(k[3]) and k[3][1] <= 91) or
                          (T.is_op(k, 'NOT') and T.is_op(k[2], 'LT') and k[2][3] == T.len_(leaf) and T.is_const(k[2][2]) and k[2][2][1] <= 90)
                          for k in known)
            ob.require(redecoded or bounded, 'encode() returns a string that was neither re-validated by decode() nor bounded to 90 '
                       'characters: with a long prefix it hands out an address that every decoder (its own included) rejects',
                       fe.where, found=[T.show(k, maxdepth=3) for k in known][:6])
    check_regex_anchors(ctx, 'C11.REGEX', [mi, p.get_module('helper')])
    with ctx.obligation('C11.NOEXTRA', 'bech32 module surface', None, mi.relpath) as ob:
        ob.require(set(mi.functions) >= set(FUNCS), 'the module defines every reference function', mi.relpath,
                   expected=sorted(FUNCS), found=sorted(mi.functions))
        extra = sorted(set(mi.functions) - set(FUNCS))
        if extra:
            ob.note('helpers without a reference counterpart (inlined into their callers for the comparison): %s' % ', '.join(extra))
        refm = ref.get_module('bech32')
        for name in ('CHARSET', 'BECH32M_CONST'):
            ob.require(len(mi.assigns.get(name, [])) == 1, '%s is bound exactly once' % name, mi.relpath)
    # ---------------------------------------------------------------- callers
    with ctx.obligation('C11.CALLERS', 'helper.*_address / bech32_decode_address', None, 'btc_hd_wallet/helper.py') as ob:
        ev = Evaluator(p, 'ecdsa')
        h = S('h', type='bytes', len=20)
        for q in ('helper.h160_to_p2wpkh_address', 'helper.h256_to_p2wsh_address'):
            for tn in (False, True):
                v, _ = ev.call_function(q, [h], {'testnet': T.const(tn)})
                same_term(ob, v, T.raw_op('BECH32', T.const('tb' if tn else 'bc'), T.const(0), h), '%s(testnet=%s): hrp by network, witness version 0'
                          % (q.split('.')[-1], tn), p.get_function(q).where)
            wv = S('witver', type='int')
            v, _ = ev.call_function(q, [h], {'testnet': T.FALSE, 'witver': wv})
            same_term(ob, v, T.raw_op('BECH32', T.const('bc'), wv, h), '%s forwards an explicit witness version' % q.split('.')[-1],
                      p.get_function(q).where)
        addr = S('addr', type='str')
        v, _ = ev.call_function('helper.bech32_decode_address', [addr])
        exp = T.raw_op('BYTES', T.getitem(T.raw_op('BECH32DEC', T.slice_(addr, T.const(0), T.const(2)), addr), T.const(1)))
        # decode() may hand out a NamedTuple record: its fields read by name are the tuple positions
        fields = {}
        for ci_ in p.classes.values():
            if ci_.module.name.endswith('bech32') and ci_.is_record and any(b.split('.')[-1] == 'NamedTuple' for b in ci_.base_names):
                fields = {nm: i_ for i_, (nm, _d) in enumerate(ci_.fields)}
        if fields:
            dec = T.raw_op('BECH32DEC', T.slice_(addr, T.const(0), T.const(2)), addr)
            v = T.subst(v, {T.raw_op('ATTR', dec, T.const(nm)): T.getitem(dec, T.const(i_)) for nm, i_ in fields.items()})
        same_term(ob, v, exp, 'bech32_decode_address decodes with the address\'s own two-character prefix', p.get_function('helper.bech32_decode_address').where)
        enc = p.get_function('bech32.encode')
        for q in ('helper.h160_to_p2wpkh_address', 'helper.h256_to_p2wsh_address'):
            ob.require(enc in p.reachable_from([p.get_function(q)]), '%s encodes through bech32.encode (which re-validates its output)'
                       % q.split('.')[-1], p.get_function(q).where)


def _generator_constants(p):
    """The five generator words of bech32_polymod as written in the source (a list/tuple of five integer constants inside
    the function, or a module-level one it names)."""
    import ast as _ast
    fi = p.get_function('bech32.bech32_polymod')
    cands = []
    for n in _ast.walk(fi.node):
        if isinstance(n, (_ast.List, _ast.Tuple)) and len(n.elts) == 5 and all(isinstance(e, _ast.Constant) and isinstance(e.value, int) for e in n.elts):
            cands.append([e.value for e in n.elts])
    if not cands:
        for name, vals in fi.module.assigns.items():
            for v in vals:
                if isinstance(v, (_ast.List, _ast.Tuple)) and len(v.elts) == 5 and all(isinstance(e, _ast.Constant) and isinstance(e.value, int) for e in v.elts) \
                        and any(isinstance(x, _ast.Name) and x.id == name for x in _ast.walk(fi.node)):
                    cands.append([e.value for e in v.elts])
    return cands[0] if len(cands) == 1 else None


def _ref_vectors(ctx):
    """C11.REFVEC: the specification side validated - the reference transcription (sa/spec/ref/.../bech32.py, what C11.REF compares
    the repository's functions with) reproduces published BIP173 / BIP350 vectors and is its own inverse for every
    (version, program length) pair.  Only the reference is executed, never the repository."""
    import os, random
    refp = os.path.join(os.path.dirname(os.path.dirname(os.path.abspath(__file__))), 'spec', 'ref', 'btc_hd_wallet', 'bech32.py')
    with ctx.obligation('C11.REFVEC', 'reference Bech32 implementation (specification side)', None, 'sa/spec/ref/btc_hd_wallet/bech32.py') as ob:
        ns = {}
        exec(compile(open(refp).read(), refp, 'exec'), ns)
        dec, enc = ns['decode'], ns['encode']
        VALID = [("BC1QW508D6QEJXTDG4Y5R3ZARVARY0C5XW7KV8F3T4", "0014751e76e8199196d454941c45d1b3a323f1433bd6"),
                 ("tb1qrp33g0q5c5txsp9arysrx4k6zdkfs4nce4xj0gdcccefvpysxf3q0sl5k7", "00201863143c14c5166804bd19203356da136c985678cd4d27a1b8c6329604903262"),
                 ("bc1pw508d6qejxtdg4y5r3zarvary0c5xw7kw508d6qejxtdg4y5r3zarvary0c5xw7kt5nd6y", "5128751e76e8199196d454941c45d1b3a323f1433bd6751e76e8199196d454941c45d1b3a323f1433bd6"),
                 ("BC1SW50QGDZ25J", "6002751e"), ("bc1zw508d6qejxtdg4y5r3zarvaryvaxxpcs", "5210751e76e8199196d454941c45d1b3a323"),
                 ("tb1qqqqqp399et2xygdj5xreqhjjvcmzhxw4aywxecjdzew6hylgvsesrxh6hy", "0020000000c4a5cad46221b2a187905e5266362b99d5e91c6ce24d165dab93e86433"),
                 ("tb1pqqqqp399et2xygdj5xreqhjjvcmzhxw4aywxecjdzew6hylgvsesf3hn0c", "5120000000c4a5cad46221b2a187905e5266362b99d5e91c6ce24d165dab93e86433"),
                 ("bc1p0xlxvlhemja6c4dqv22uapctqupfhlxm9h8z3k2e72q4k9hcz7vqzk5jj0", "512079be667ef9dcbbac55a06295ce870b07029bfcdb2dce28d959f2815b16f81798")]
        INVALID = ["tc1qw508d6qejxtdg4y5r3zarvary0c5xw7kg3g4ty", "bc1qw508d6qejxtdg4y5r3zarvary0c5xw7kv8f3t5",
                   "bc1qw508d6qejxtdg4y5r3zarvary0c5xw7kemeawh", "tb1q0xlxvlhemja6c4dqv22uapctqupfhlxm9h8z3k2e72q4k9hcz7vq24jc47",
                   "bc1p38j9r5y49hruaue7wxjce0updqjuyyx0kh56v8s25huc6995vvpql3jow4", "BC130XLXVLHEMJA6C4DQV22UAPCTQUPFHLXM9H8Z3K2E72Q4K9HCZ7VQ7ZWS8R",
                   "bc1pw5dgrnzv", "bc1p0xlxvlhemja6c4dqv22uapctqupfhlxm9h8z3k2e72q4k9hcz7v8n0nx0muaewav253zgeav",
                   "tb1p0xlxvlhemja6c4dqv22uapctqupfhlxm9h8z3k2e72q4k9hcz7vq47Zagq", "bc1p0xlxvlhemja6c4dqv22uapctqupfhlxm9h8z3k2e72q4k9hcz7v07qwwzcrf",
                   "tb1p0xlxvlhemja6c4dqv22uapctqupfhlxm9h8z3k2e72q4k9hcz7vpggkg4j", "bc1gmk9yu"]
        bad = []
        n = 0
        for a, spk in VALID:
            n += 1
            hrp = a[:2].lower()
            v, prog = dec(hrp, a)
            want = bytes.fromhex(spk)
            if v is None or bytes([v + 0x50 if v else 0, len(prog)]) + bytes(prog) != want or enc(hrp, v, prog) != a.lower():
                bad.append(('valid vector', a))
        for a in INVALID:
            n += 1
            if any(dec(h, a) != (None, None) for h in ('bc', 'tb')):
                bad.append(('invalid vector accepted', a))
        rnd = random.Random(ctx.seed)
        for ver in range(0, 18):
            for ln in range(0, 43):
                prog = [rnd.randrange(256) for _ in range(ln)]
                legal = 0 <= ver <= 16 and 2 <= ln <= 40 and (ver != 0 or ln in (20, 32))
                for hrp in ('bc', 'tb'):
                    n += 1
                    a = enc(hrp, ver, prog)
                    if legal:
                        if a is None or dec(hrp, a) != (ver, prog) or len(a) > 90:
                            bad.append(('round trip', hrp, ver, ln))
                        elif dec('tb' if hrp == 'bc' else 'bc', a) != (None, None) or dec(hrp, a.upper()) != (ver, prog):
                            bad.append(('prefix / case', hrp, ver, ln))
                    elif a is not None:
                        bad.append(('illegal combination encoded', hrp, ver, ln))
        ob.evaluations += n
        ob.saw('sa/spec/ref/btc_hd_wallet/bech32.py')
        ob.require(not bad, 'the reference Bech32 / Bech32m implementation reproduces the published vectors and round-trips every '
                   '(version, length) pair', 'sa/spec/ref/btc_hd_wallet/bech32.py', found=bad[:4])
        ob.note('%d cases: 8 valid and 12 invalid published addresses, all (version, length) pairs in 0..17 x 0..42 on two prefixes' % n)


def thorough(ctx):
    _ref_vectors(ctx)
    _distance(ctx)


def _distance(ctx):
    """C11.DISTANCE: the error-detection clause, decided by exhaustive enumeration over the checksum's linear structure for the
    generator words and the Bech32m constant *as written in the repository* (C11.REF shows that the code is the BIP173
    algorithm over these constants; here the algorithm with these constants is shown to have the distance the property
    states).  Nothing of the repository is executed: the polymod step below is the reference algorithm, parametrised by the
    extracted constants.  An error pattern e (values XOR-ed onto symbols) changes the polymod of a string by the linear
    residue syn(e); it goes undetected iff syn(e) = 0 (same constant) or syn(e) = 1 xor BECH32M_CONST (the other constant)."""
    p = ctx.p
    fi = p.get_function('bech32.bech32_polymod')
    with ctx.obligation('C11.DISTANCE', 'bech32 checksum: every error pattern of weight <= 4', None, fi.where) as ob:
        gen = _generator_constants(p)
        ev = Evaluator(p, 'ecdsa')
        mconst = ev.module_const('bech32', 'BECH32M_CONST')
        if gen is None or not (T.is_const(mconst) and isinstance(mconst[1], int)):
            ob.undecided('generator words / Bech32m constant not found as constants in the source', fi.where)
            return
        D = 1 ^ mconst[1]
        N = 88          # data part incl. checksum of a 90-character string with the shortest prefix

        def step(chk, value):
            top = chk >> 25
            chk = (chk & 0x1ffffff) << 5 ^ value
            for i in range(5):
                if (top >> i) & 1:
                    chk ^= gen[i]
            return chk
        # syn[p][v]: residue of the error value v at the symbol p places before the end (linear part: start from 0)
        syn = []
        base = {}
        for b in range(5):
            c = step(0, 1 << b)
            col = [c]
            for _ in range(N - 1):
                c = step(c, 0)
                col.append(c)
            base[b] = col
        for pos in range(N):
            row = [0] * 32
            for v in range(1, 32):
                x = 0
                for b in range(5):
                    if (v >> b) & 1:
                        x ^= base[b][pos]
                row[v] = x
            syn.append(row)
        singles = {}
        for pos in range(N):
            for v in range(1, 32):
                singles.setdefault(syn[pos][v], []).append(pos)
        ob.evaluations += N * 31
        ob.require(0 not in singles, 'a single substituted character is always detected (no weight-1 pattern has residue 0)', fi.where)
        ob.require(all(len(v_) == 1 for v_ in singles.values()), 'single residues are pairwise distinct (no undetected pattern of two '
                   'changes at one or two positions)', fi.where)
        # (a) one checksum constant: no pattern of weight <= 4 has residue 0, over all 88 positions
        seen = bytearray(1 << 27)       # bitmap over the 30-bit residues of all weight-2 patterns
        bad2 = bad3 = bad4 = 0
        first_bad = None
        npairs = 0
        for p1 in range(N):
            r1 = syn[p1]
            for p2 in range(p1 + 1, N):
                r2 = syn[p2]
                for v1 in range(1, 32):
                    a = r1[v1]
                    for v2 in range(1, 32):
                        x = a ^ r2[v2]
                        npairs += 1
                        if x == 0:
                            bad2 += 1
                            first_bad = first_bad or ('weight 2', p1, p2)
                        hit = singles.get(x)
                        if hit and hit[0] != p1 and hit[0] != p2:
                            bad3 += 1
                            first_bad = first_bad or ('weight 3', p1, p2, hit[0])
                        byte, bit = x >> 3, 1 << (x & 7)
                        if seen[byte] & bit:
                            bad4 += 1
                            first_bad = first_bad or ('weight 4 (two weight-2 patterns with one residue)', p1, p2)
                        else:
                            seen[byte] |= bit
        ob.evaluations += npairs
        ob.require(bad2 == 0, 'every substitution of two characters is detected', fi.where, found=first_bad)
        ob.require(bad3 == 0, 'every substitution of three characters is detected', fi.where, found=first_bad)
        ob.require(bad4 == 0, 'every substitution of four characters is detected under one checksum constant (two different '
                   'two-character patterns never share a residue)', fi.where, found=first_bad)
        # (b) across the two constants: a pattern with residue 1 xor BECH32M_CONST turns a valid Bech32 checksum into a valid
        # Bech32m one (and back).  decode() pairs the constant with the witness version (C11.REF), so such a pattern is accepted
        # only if it also switches the version symbol - the first data symbol, position n-1 of an address with n symbols -
        # between 0 and non-zero.  For every length a segwit address can have (program of 2..40 bytes: n = 1 + ceil(8L/5) + 6)
        # no pattern of weight <= 3 with that residue may include position n-1; with four changes it may (the property's
        # stated exception).
        lengths = sorted({1 + (8 * L_ + 4) // 5 + 6 for L_ in range(2, 41)})
        cross = []
        for n_ in lengths:
            top = n_ - 1
            below = {}
            for pos in range(top):
                for v in range(1, 32):
                    below[syn[pos][v]] = pos
            for v in range(1, 32):
                t1 = syn[top][v] ^ D
                if t1 == 0:
                    cross.append((n_, 'weight 1'))
                if t1 in below:
                    cross.append((n_, 'weight 2', below[t1]))
                for pos in range(top):
                    rp = syn[pos]
                    for v1 in range(1, 32):
                        h = below.get(t1 ^ rp[v1])
                        if h is not None and h != pos:
                            cross.append((n_, 'weight 3', pos, h))
                ob.evaluations += 31 * top
        ob.require(not cross, 'no substitution of up to three characters that switches the version symbol between 0 and non-zero '
                   'turns one checksum constant into the other, at any length a segwit address can have (%d..%d symbols)'
                   % (lengths[0], lengths[-1]), fi.where, found=cross[:3])
        ob.note('enumerated %d single and %d two-character error patterns over %d symbol positions; three- and four-character '
                'patterns decided by residue collisions (linearity); cross-constant patterns through the version symbol checked '
                'for %d address lengths' % (N * 31, npairs, N, len(lengths)))
        ctx.extra['bech32_distance'] = {'positions': N, 'single_patterns': N * 31, 'pair_patterns': npairs,
                                        'generator': ['0x%08x' % g for g in gen], 'bech32m_const': '0x%08x' % mconst[1]}
