"""C12 — BIP85 child secrets."""
from __future__ import annotations

from .. import terms as T
from ..evalr import Evaluator, Facts
from .. import externals as X
from ..spec import bip32 as SP
from .common import *

B85 = PKG + '.bip85.BIP85DeterministicEntropy'
H = 2 ** 31
BIPKEY = T.const(b'bip-entropy-from-k')
ROOT = 83696968
APPS = {'bip39': 39, 'wif': 2, 'xprv': 32, 'hex': 128169, 'pwd': 707764}


def hardened_chain(k, c, idxs):
    for ix in idxs:
        I = SP.hmac512(c, T.cat(T.const(b'\x00'), k, SP.ser32(ix)))
        k, c = T.sk_add(T.slice_(I, T.const(0), T.const(32)), k), T.slice_(I, T.const(32), T.const(64))
    return k, c


def spec_entropy(k, c, comps):
    kk, _ = hardened_chain(k, c, [T.add(T.const(H), x) for x in comps])
    return SP.hmac512(BIPKEY, kk)


def _in_range(i, lo, hi):
    f = Facts().add(T.not_(T.lt(i, T.const(lo))))
    if hi is not None:
        f = f.add(T.lt(i, T.const(hi + 1)))
    return f


def _the_normal_leaf(ob, v, what, where):
    for x in distinct_leaves(v):
        if T.tag(x) == 'raise' and x[1] not in ('InvalidKeyError', 'MalformedPointError'):
            ob.require(False, '%s refuses allowed parameters with %s (only the 2^-127 invalid-key cases may fail)' % (what, x[1]), where)
    nl = normal_leaves(v)
    if len(nl) != 1:
        ob.undecided('%s: expected exactly one non-raising exit, found %d' % (what, len(nl)), where)
        return None, None
    return nl[0]


def run(ctx):
    p = ctx.p
    ctx.explanation = (
        'Each BIP85 application is abstractly evaluated with the master key, the index (free symbol constrained to '
        '[0, 2^31) by interval facts) and the application parameter symbolic: the path text is split and converted '
        'symbolically, so the derived entropy term must be HMAC-SHA512("bip-entropy-from-k", k(m/83696968\'/app\'/...)) '
        'along a fully hardened chain with the specified application code; the output must be the prescribed slice / '
        'split of that entropy; parameters and indexes outside their allowed cells must raise on every path; the facts '
        'that can make wif/xprv raise must concern the key half only.')
    ctx.not_decided = ['HMAC/Base64/Base58 on values', 'the mnemonic bit assembly (C04)']
    i = S('index', type='int')
    summ = dict(X.DEFAULT_SUMMARIES)
    summ['bip39.mnemonic_from_entropy'] = lambda ev_, fi, env, facts: (T.raw_op('MNEMONIC', env[fi.params[0]]), facts)
    T.STR_OPS.add('MNEMONIC')
    for be in BACKENDS:
        m, k = master_prv()
        c = T.obj_fields(m)['chain_code']
        b = T.obj(B85, dict(master_node=m, testnet=S('testnet', type='bool')))
        ok_i = _in_range(i, 0, H - 1)

        def E(*comps):
            return spec_entropy(k, c, [T.const(ROOT)] + [x if isinstance(x, tuple) else T.const(x) for x in comps])
        # ------------------------------------------------------------ entropy(): HMAC over the key at the parsed path
        fe = p.get_function('bip85.BIP85DeterministicEntropy.entropy')
        with ctx.obligation('C12.HMAC', 'BIP85DeterministicEntropy.entropy', be, fe.where) as ob:
            ev = Evaluator(p, be, summaries=summ)
            v, f = ev.call_function('bip85.BIP85DeterministicEntropy.entropy', [b, T.const("m/83696968'/2'/7'")])
            cs, leaf = _the_normal_leaf(ob, v, 'entropy', fe.where)
            if leaf is not None:
                same_term(ob, leaf, E(2, 7), 'entropy(path) = HMAC-SHA512("bip-entropy-from-k", ser256(k at path))', fe.where)
            same_term(ob, ev.getattr(b, 'KEY', __import__('sa.evalr', fromlist=['Frame']).Frame(None, {}, Facts(), fe.module, None, 0)),
                      BIPKEY, 'HMAC key constant', fe.where)
        # a master parsed from an extended private key stores 00||k: the same entropy must come out
        with ctx.obligation('C12.HMAC', 'BIP85DeterministicEntropy.entropy (parsed master, key stored as 00||k)', be, fe.where) as ob:
            m33, k33 = master_prv(layout='33')
            c33 = T.obj_fields(m33)['chain_code']
            b33 = T.obj(B85, dict(master_node=m33, testnet=S('testnet', type='bool')))
            ev = Evaluator(p, be, summaries=summ)
            v, f = ev.call_function('bip85.BIP85DeterministicEntropy.entropy', [b33, T.const("m/83696968'/2'/7'")])
            cs, leaf = _the_normal_leaf(ob, v, 'entropy', fe.where)
            if leaf is not None:
                same_term(ob, leaf, spec_entropy(k33, c33, [T.const(ROOT), T.const(2), T.const(7)]),
                          'entropy(path) for a master parsed from an xprv string', fe.where)
        # ------------------------------------------------------------ applications
        fm = p.get_function('bip85.BIP85DeterministicEntropy.bip39_mnemonic')
        with ctx.obligation('C12.BIP39', 'BIP85DeterministicEntropy.bip39_mnemonic', be, fm.where) as ob:
            for wc, width in ((12, 16), (15, 20), (18, 24), (21, 28), (24, 32)):
                ev = Evaluator(p, be, summaries=summ)
                v, f = ev.call_function('bip85.BIP85DeterministicEntropy.bip39_mnemonic', [b], {'word_count': T.const(wc), 'index': i},
                                        facts=ok_i)
                cs, leaf = _the_normal_leaf(ob, v, 'bip39_mnemonic(%d)' % wc, fm.where)
                if leaf is not None:
                    ent = E(APPS['bip39'], 0, wc, i)
                    same_term(ob, leaf, T.raw_op('MNEMONIC', T.raw_op('HEX', T.slice_(ent, T.const(0), T.const(width)))),
                              '%d words: first %d bytes of the entropy at m/83696968\'/39\'/0\'/%d\'/i\'' % (wc, width, wc), fm.where)
            wcs = S('word_count', type='int')
            facts = ok_i
            for wc in (12, 15, 18, 21, 24):
                facts = facts.add(T.not_(T.eq(T.const(wc), wcs)))
            ev = Evaluator(p, be, summaries=summ)
            v, f = ev.call_function('bip85.BIP85DeterministicEntropy.bip39_mnemonic', [b], {'word_count': wcs, 'index': i}, facts=facts)
            ob.require(all(T.tag(x) == 'raise' for _, x in leaves(v)), 'a word count outside {12,15,18,21,24} is not refused', fm.where,
                       found=T.show(v, maxdepth=3))
            v, f = ev.call_function('bip85.BIP85DeterministicEntropy.bip39_mnemonic', [b], facts=ok_i)
            v2, _ = ev.call_function('bip85.BIP85DeterministicEntropy.bip39_mnemonic', [b], {'word_count': T.const(24), 'index': T.const(0)})
            same_term(ob, v, v2, 'defaults are 24 words, index 0', fm.where)
        fw = p.get_function('bip85.BIP85DeterministicEntropy.wif')
        with ctx.obligation('C12.WIF', 'BIP85DeterministicEntropy.wif', be, fw.where) as ob:
            ev = Evaluator(p, be, summaries=summ)
            v, f = ev.call_function('bip85.BIP85DeterministicEntropy.wif', [b], {'index': i}, facts=ok_i)
            cs, leaf = _the_normal_leaf(ob, v, 'wif', fw.where)
            if leaf is not None:
                ent = E(APPS['wif'], i)
                key = T.slice_(ent, T.const(0), T.const(32))
                same_term(ob, leaf, SP.b58check(T.cat(T.const(b'\x80'), key, T.const(b'\x01'))),
                          'WIF of the first 32 entropy bytes at m/83696968\'/2\'/i\' (compressed, mainnet encoding as BIP85 specifies)',
                          fw.where)
                _only_key_facts(ob, known_at(f, cs), ent, key, fw.where)
        fx = p.get_function('bip85.BIP85DeterministicEntropy.xprv')
        with ctx.obligation('C12.XPRV', 'BIP85DeterministicEntropy.xprv', be, fx.where) as ob:
            ev = Evaluator(p, be, summaries=summ)
            v, f = ev.call_function('bip85.BIP85DeterministicEntropy.xprv', [b], {'index': i}, facts=ok_i)
            cs, leaf = _the_normal_leaf(ob, v, 'xprv', fx.where)
            if leaf is not None:
                ent = E(APPS['xprv'], i)
                chain, key = T.slice_(ent, T.const(0), T.const(32)), T.slice_(ent, T.const(32), T.const(64))
                exp = SP.b58check(SP.serialize(T.const(SP.XPRV), T.const(0), T.const(b'\x00' * 4), T.const(0), chain,
                                               T.cat(T.const(b'\x00'), key)))
                same_term(ob, leaf, exp, 'XPRV: chain code = first 32 bytes, key = last 32 bytes, master-shaped mainnet xprv', fx.where)
                _only_key_facts(ob, known_at(f, cs), ent, key, fx.where)
        fh = p.get_function('bip85.BIP85DeterministicEntropy.hex')
        with ctx.obligation('C12.HEX', 'BIP85DeterministicEntropy.hex', be, fh.where) as ob:
            n = S('num_bytes', type='int')
            for lo, hi, ok in ((None, 15, False), (16, 16, True), (17, 63, True), (64, 64, True), (65, None, False)):
                facts = ok_i
                if lo is not None:
                    facts = facts.add(T.not_(T.lt(n, T.const(lo))))
                if hi is not None:
                    facts = facts.add(T.lt(n, T.const(hi + 1)))
                ev = Evaluator(p, be, summaries=summ)
                v, f = ev.call_function('bip85.BIP85DeterministicEntropy.hex', [b], {'num_bytes': n, 'index': i}, facts=facts)
                if not ok:
                    ob.require(all(T.tag(x) == 'raise' for _, x in leaves(v)), 'num_bytes in [%s, %s] is not refused' % (lo, hi), fh.where)
                    continue
                cs, leaf = _the_normal_leaf(ob, v, 'hex', fh.where)
                if leaf is not None:
                    ent = E(APPS['hex'], n, i)
                    same_term(ob, leaf, T.raw_op('HEX', T.slice_(ent, T.const(0), n)),
                              'hex: first num_bytes bytes at m/83696968\'/128169\'/n\'/i\' for n in [%s, %s]' % (lo, hi), fh.where)
        fp_ = p.get_function('bip85.BIP85DeterministicEntropy.pwd')
        with ctx.obligation('C12.PWD', 'BIP85DeterministicEntropy.pwd', be, fp_.where) as ob:
            n = S('pwd_len', type='int')
            for lo, hi, ok in ((None, 19, False), (20, 20, True), (21, 85, True), (86, 86, True), (87, None, False)):
                facts = ok_i
                if lo is not None:
                    facts = facts.add(T.not_(T.lt(n, T.const(lo))))
                if hi is not None:
                    facts = facts.add(T.lt(n, T.const(hi + 1)))
                ev = Evaluator(p, be, summaries=summ)
                v, f = ev.call_function('bip85.BIP85DeterministicEntropy.pwd', [b], {'pwd_len': n, 'index': i}, facts=facts)
                if not ok:
                    ob.require(all(T.tag(x) == 'raise' for _, x in leaves(v)), 'pwd_len in [%s, %s] is not refused' % (lo, hi), fp_.where)
                    continue
                cs, leaf = _the_normal_leaf(ob, v, 'pwd', fp_.where)
                if leaf is not None:
                    ent = E(APPS['pwd'], n, i)
                    same_term(ob, leaf, T.slice_(T.raw_op('B64STR', ent), T.const(0), n),
                              'pwd: first pwd_len characters of Base64(entropy) at m/83696968\'/707764\'/len\'/i\' for len in [%s, %s]'
                              % (lo, hi), fp_.where)
        # ------------------------------------------------------------ index bounds (all applications)
        with ctx.obligation('C12.INDEX', 'BIP85 index range', be, fe.where) as ob:
            for name, kw in (('bip39_mnemonic', {'word_count': T.const(12)}), ('wif', {}), ('xprv', {}),
                             ('hex', {'num_bytes': T.const(32)}), ('pwd', {'pwd_len': T.const(21)})):
                for lo, hi in ((None, -1), (H, H), (H + 1, None)):
                    facts = Facts()
                    if lo is not None:
                        facts = facts.add(T.not_(T.lt(i, T.const(lo))))
                    if hi is not None:
                        facts = facts.add(T.lt(i, T.const(hi + 1)))
                    ev = Evaluator(p, be, summaries=summ)
                    v, f = ev.call_function('bip85.BIP85DeterministicEntropy.' + name, [b], dict(kw, index=i), facts=facts)
                    ob.require(all(T.tag(x) == 'raise' for _, x in leaves(v)),
                               '%s: an index in [%s, %s] is not refused (it would be mapped onto some other path)' % (name, lo, hi),
                               p.get_function('bip85.BIP85DeterministicEntropy.' + name).where, found=T.show(v, maxdepth=3))
    # ---------------------------------------------------------------- injectivity of the templates
    with ctx.obligation('C12.INJECTIVE', 'BIP85 application codes', None, 'btc_hd_wallet/bip85.py') as ob:
        codes = sorted(APPS.values())
        ob.require(len(set(codes)) == len(codes), 'application codes are pairwise distinct', 'btc_hd_wallet/bip85.py')
        ob.note('distinct (application, parameter, index) triples give distinct index lists because each level is an injective '
                'function of its argument (n -> n + 2^31 on [0, 2^31)) and the application code is the second level; the term '
                'comparisons above establish that each application uses exactly its code')
    # ---------------------------------------------------------------- the paper wallet's BIP85 block
    # every entry the wallet prints under a BIP85 path label must be what the application gives for the parameters the
    # label spells (seed C12-O: the row labelled .../32'/2' holds xprv(index=1)) - compared with the API's own value, which
    # the obligations above tie to the specification
    fpw = p.get_function('paper_wallet.PaperWallet.bip85_data')
    with ctx.obligation('C12.PAPER', 'PaperWallet.bip85_data', None, fpw.where) as ob:
        from .C15 import paper_wallet as _pw
        w_, _ = _pw('prv', T.FALSE, p)
        ev = Evaluator(p, 'ecdsa', summaries=summ)
        tbl, _ = ev.call_function('paper_wallet.PaperWallet.bip85_data', [w_])
        tl = distinct_normal_leaves(tbl)
        if len(tl) != 1 or T.tag(tl[0]) != 'dict':
            ob.undecided('bip85_data does not evaluate to one mapping: %s' % T.show(tbl, maxdepth=3), fpw.where)
        else:
            b85 = attr_of(ev, w_, 'bip85')
            B = 'bip85.BIP85DeterministicEntropy.'
            n_rows = 0
            for lab, val in tl[0][1]:
                if not (T.is_const(lab) and isinstance(lab[1], str) and lab[1].startswith("m/%d'/" % ROOT)):
                    ob.note('entry %s is not labelled with a BIP85 path' % T.show(lab))
                    continue
                comps = lab[1].split('/')[2:]
                if not all(c_.endswith(("'", 'h')) and c_[:-1].isdigit() for c_ in comps) or len(comps) < 2:
                    ob.require(False, 'label %r is not a fully hardened BIP85 path' % lab[1], fpw.where)
                    continue
                nums = [int(c_[:-1]) for c_ in comps]
                app, rest = nums[0], nums[1:]
                call = None
                if app == APPS['bip39'] and len(rest) == 3 and rest[0] == 0:
                    call = ('bip39_mnemonic', {'word_count': T.const(rest[1]), 'index': T.const(rest[2])})
                elif app == APPS['wif'] and len(rest) == 1:
                    call = ('wif', {'index': T.const(rest[0])})
                elif app == APPS['xprv'] and len(rest) == 1:
                    call = ('xprv', {'index': T.const(rest[0])})
                elif app == APPS['hex'] and len(rest) == 2:
                    call = ('hex', {'num_bytes': T.const(rest[0]), 'index': T.const(rest[1])})
                elif app == APPS['pwd'] and len(rest) == 2:
                    call = ('pwd', {'pwd_len': T.const(rest[0]), 'index': T.const(rest[1])})
                if call is None:
                    ob.require(False, 'label %r names no BIP85 application of this library' % lab[1], fpw.where)
                    continue
                want, _ = ev.call_function(B + call[0], [b85], call[1])
                n_rows += 1
                # the invalid-key refusals (2^-127) are lifted out of the table by the evaluator: the values proper are compared
                vl, wl = distinct_normal_leaves(val), distinct_normal_leaves(want)
                what = 'the entry labelled %s is %s(%s)' % (lab[1], call[0], ', '.join('%s=%s' % (k_, T.show(v_)) for k_, v_ in call[1].items()))
                if len(vl) == 1 and len(wl) == 1:
                    same_term(ob, vl[0], wl[0], what, fpw.where)
                else:
                    ob.require({T.hoist(x) for x in vl} == {T.hoist(x) for x in wl}, what, fpw.where,
                               expected=[T.show(x, maxdepth=4) for x in wl][:2], found=[T.show(x, maxdepth=4) for x in vl][:2])
            if n_rows == 0:
                ob.undecided('no BIP85-labelled entry found in bip85_data', fpw.where)
    # "the private key at the application's fully hardened path" and "indexes outside the allowed sets are rejected rather
    # than mapped onto some other path" both rest on CKDpriv: the child is the BIP32 child and the index enters only through
    # the unsigned 4-byte serialisation (which refuses a negative or too large number) - C01's obligations on PrvKeyNode.ckd
    from . import C01
    sub = ctx.__class__('C12', ctx.tier, ctx.p, ctx.seed)
    C01.run(sub)
    for o in sub.obligations:
        if o.rule in ('C01.CHILD', 'C01.DATA') and 'PrvKeyNode' in (o.construct or ''):
            o.rule = 'C12.%s(=C01)' % o.rule.split('.')[1]
            ctx.obligations.append(o)


def _only_key_facts(ob, known, ent, key, where):
    """Facts about entropy slices may only concern the key slice (a guard on another slice rejects valid output)."""
    for fct in known:
        for sub in T.walk(fct):
            if T.is_op(sub, 'SLICE') and sub[2] == ent and sub != key:
                ob.require(False, 'a validity condition is imposed on an entropy slice that is not the key (valid outputs would '
                           'be refused)', where, expected='conditions on %s only' % T.show(key, maxdepth=2), found=T.show(fct, maxdepth=4))
                return
    ob.require(True, 'validity conditions concern the key slice only', where)
