"""C14 — watch-only wallets reproduce public data and can never yield private data."""
from __future__ import annotations

import ast

from .. import terms as T
from ..evalr import Evaluator, Facts, _strip_raise
from .common import *
from .C05 import expected_addresses, wallet_obj
from .C15 import paper_wallet, is_secret

BW = PKG + '.base_wallet.BaseWallet'
PWQ = PKG + '.paper_wallet.PaperWallet'
PRIVATE_SURFACE = ('private_key', 'prv_version', 'serialize_private', 'extended_private_key', 'master_key')


def run(ctx):
    p = ctx.p
    ctx.explanation = (
        'Class-surface rule: PubKeyNode itself defines none of the private accessors. watch_only / bip85 are evaluated '
        'for both master classes; node_extended_private_key, node_extended_keys and the group rows are evaluated on a '
        'symbolic watch-only wallet: private requests raise or give None and no returned term contains private '
        'material (there is none to contain: the only key term is a point). The five address methods and the extended '
        'public key evaluated on a PubKeyNode with key serP(point(k)) equal the same methods on the PrvKeyNode with '
        'scalar k (public-only dependence); sub-path agreement is C02.PROJ, hardened refusal C02.GUARD, dispatch on the '
        'six public version prefixes C07.DISPATCH (re-run here).')
    ctx.not_decided = ['group law (C02)']
    pub = p.get_class('bip32.PubKeyNode')
    with ctx.obligation('C14.SURFACE', 'class PubKeyNode', None, '%s:%d' % (pub.module.relpath, pub.node.lineno)) as ob:
        for name in PRIVATE_SURFACE:
            m = None
            for c in pub.mro():
                if name in c.methods or name in c.attrs:
                    m = c
            ob.require(m is None, 'the public node class (or a base of it) offers the private accessor %s' % name,
                       '%s:%d' % (pub.module.relpath, pub.node.lineno))
        prv = p.get_class('bip32.PrvKeyNode')
        for name in PRIVATE_SURFACE:
            ob.require(prv.find_method(name) is not None, 'PrvKeyNode offers %s' % name, '%s:%d' % (prv.module.relpath, prv.node.lineno))
        ob.require(pub in prv.mro(), 'PrvKeyNode extends PubKeyNode', prv.module.relpath)
        slots = pub.slots or ()
        ob.require('key' in slots, 'node fields are fixed by __slots__ (no ad-hoc private attribute can be attached)', pub.module.relpath)
    finit = p.get_function('base_wallet.BaseWallet.__init__')
    for be in BACKENDS:
        with ctx.obligation('C14.PRED', 'BaseWallet.watch_only / bip85', be, finit.where) as ob:
            ev = Evaluator(p, be)
            pn, P = pub_node(depth=T.const(0), index=T.const(0))
            sn, k = prv_node('32', depth=T.const(0), index=T.const(0))
            for cls in (BW, PWQ):
                tn = S('testnet', type='bool')
                wp, _ = ev.construct(cls[len(PKG) + 1:], [], {'master': pn, 'testnet': tn})
                ws, _ = ev.construct(cls[len(PKG) + 1:], [], {'master': sn, 'testnet': tn})
                v, _ = ev.call_function('base_wallet.BaseWallet.watch_only', [wp])
                same_term(ob, v, T.TRUE, 'a wallet over a PubKeyNode is watch-only', finit.where)
                v, _ = ev.call_function('base_wallet.BaseWallet.watch_only', [ws])
                same_term(ob, v, T.FALSE, 'a wallet over a PrvKeyNode is not watch-only', finit.where)
                same_term(ob, T.obj_fields(wp).get('bip85'), T.NONE, 'a watch-only wallet has no BIP85 object', finit.where)
                ob.require(T.tag(T.obj_fields(ws).get('bip85')) == 'obj', 'a full wallet has a BIP85 object', finit.where)
                same_term(ob, T.obj_fields(wp).get('master'), pn, 'the wallet keeps the node it was given', finit.where)
                same_term(ob, T.obj_fields(wp).get('testnet'), tn, 'and the network it was given', finit.where)
        fnp = p.get_function('base_wallet.BaseWallet.node_extended_private_key')
        with ctx.obligation('C14.EMPTY', 'private requests on a watch-only wallet', be, fnp.where) as ob:
            ev = Evaluator(p, be)
            w, secrets = paper_wallet('pub', T.FALSE, p, be)
            master = T.obj_fields(w)['master']
            child, _ = ev.call_function('bip32.PubKeyNode.ckd', [master, T.const(0)])
            child = _strip_raise(child)
            for nd in (master, child):
                v, _ = ev.call_function('base_wallet.BaseWallet.node_extended_private_key', [w, nd])
                ob.require(all(T.tag(x) == 'raise' for x in distinct_leaves(v)),
                           'node_extended_private_key returns a value for a public node', fnp.where, found=T.show(v, maxdepth=3))
                v, _ = ev.call_function('base_wallet.BaseWallet.node_extended_keys', [w, nd])
                for leaf in distinct_normal_leaves(v):
                    prv = T.getitem(leaf, T.const('prv')) if T.tag(leaf) == 'dict' else None
                    same_term(ob, prv, T.NONE, 'node_extended_keys(...)["prv"] is None for a watch-only wallet', fnp.where)
            rows, _ = ev.call_function('paper_wallet.PaperWallet.group', [w, T.lst([child]), T.bound(w, PKG + '.base_wallet.BaseWallet.p2wpkh_address')])
            for leaf in distinct_normal_leaves(rows):
                ok = T.tag(leaf) == 'list' and len(leaf[1]) == 1 and T.tag(leaf[1][0]) == 'list' and leaf[1][0][1][-1] == T.NONE
                ob.require(ok, 'the WIF column of a watch-only row is None', p.get_function('paper_wallet.PaperWallet.group').where,
                           found=T.show(leaf, maxdepth=3))
            # hardened derivation is refused (so generate(), which needs m/purpose'/..., cannot produce anything)
            v, _ = ev.call_function('paper_wallet.PaperWallet.bip44', [w, T.const(0), T.tup([T.const(0), T.const(2)])])
            ob.require(all(T.tag(x) == 'raise' for x in distinct_leaves(v)), 'bip44() on a watch-only wallet derives hardened children',
                       p.get_function('paper_wallet.PaperWallet.bip44').where, found=T.show(v, maxdepth=3))
            # a PubKeyNode object has no private attribute to read
            v = ev.getattr(master, 'private_key', __import__('sa.evalr', fromlist=['Frame']).Frame(None, {}, Facts(), fnp.module, None, 0))
            ob.require(T.is_op(v, 'ATTR'), 'PubKeyNode has no private_key attribute', fnp.where, found=T.show(v, maxdepth=2))
        fa = p.get_function('base_wallet.BaseWallet.p2pkh_address')
        with ctx.obligation('C14.PUBLIC-ONLY', 'address / xpub methods', be, fa.where) as ob:
            ev = Evaluator(p, be)
            for tn in (False, True):
                sn, k = prv_node('32', testnet=T.const(tn))
                sf = T.obj_fields(sn)
                pn = node_term(PUB, T.sec(T.pt(k), T.TRUE), chain=sf['chain_code'], depth=sf['depth'], index=sf['index'], testnet=sf['testnet'])
                ww = wallet_obj(BW, pn, T.const(tn))
                ws = wallet_obj(BW, sn, T.const(tn))
                for meth in ('p2pkh_address', 'p2wpkh_address', 'p2sh_p2wpkh_address', 'p2wsh_address', 'p2sh_p2wsh_address'):
                    a, _ = ev.call_function('base_wallet.BaseWallet.' + meth, [ww, pn])
                    b, _ = ev.call_function('base_wallet.BaseWallet.' + meth, [ws, sn])
                    same_term(ob, a, b, '%s is the same for the exported public node and the private node (%s)' % (meth, 'testnet' if tn else 'mainnet'),
                              p.get_function('base_wallet.BaseWallet.' + meth).where)
                a, _ = ev.call_function('bip32.PubKeyNode.extended_public_key', [pn])
                b, _ = ev.call_function('bip32.PubKeyNode.extended_public_key', [sn])
                same_term(ob, a, b, 'extended public keys agree', fa.where)
                a, _ = ev.call_function('bip32.PubKeyNode.fingerprint', [pn])
                b, _ = ev.call_function('bip32.PubKeyNode.fingerprint', [sn])
                same_term(ob, a, b, 'fingerprints agree', fa.where)
    from .C06 import check_node_versions
    check_node_versions(ctx, 'C14.NODEVERSION')
    # re-use the dispatch / projection / guard obligations that this property shares
    from . import C07, C02
    C07.check_dispatch(ctx, 'C14.DISPATCH')
    sub = ctx.__class__('C14', ctx.tier, ctx.p, ctx.seed)
    C02.run(sub)
    for o in sub.obligations:
        if o.rule in ('C02.GUARD', 'C02.PROJ', 'C02.CHILD'):
            o.rule = 'C14.' + o.rule.split('.', 1)[1] + '(=C02)'
            ctx.obligations.append(o)
    # public derivation on a long-lived watch-only node must not depend on what was derived before
    from . import C13
    sub = ctx.__class__('C14', ctx.tier, ctx.p, ctx.seed)
    C13.run(sub)
    for o in sub.obligations:
        if o.rule in ('C13.NOREAD', 'C13.WRITES', 'C13.INPLACE'):
            o.rule = 'C14.' + o.rule.split('.', 1)[1] + '(=C13)'
            ctx.obligations.append(o)
    # "for every non-hardened sub-path ... refuses hardened derivation": sub-paths given to by_path on a wallet over an
    # exported node are applied component by component from that node (nothing dropped or re-rooted), and path
    # look-up is the fold of ckd (whose hardened refusal is C14.GUARD)
    from . import C17
    C17.check_bypath(ctx, 'C14.BYPATH(=C17)')
    C17.check_fold(ctx, 'C14.FOLD(=C17)')
    # bulk derivation must not bypass what ckd refuses or computes (hardened refusal, invalid-key refusals)
    from .C01 import check_bulk
    check_bulk(ctx, 'C14.BULK(=C01)', kinds=('pub',))

    # ---------------------------------------------------------------- class-level settings
    # a lower-case class attribute holding True / False is a switch for the user.  Whatever its position, a watch-only wallet
    # must reproduce the full wallet: the derivation rules of C02 (child wiring of both ckd, one-step projection) are decided
    # again with every such switch a free boolean
    from .. import evalr as _ev
    settings = _ev.class_settings(p)
    with ctx.obligation('C14.SETTINGS', 'class-level switches', None, 'btc_hd_wallet/') as ob:
        ob.evaluations += 1
        ob.saw('btc_hd_wallet/keys.py')
        if not settings:
            ob.note('no class-level boolean switch in the package')
    if settings:
        from . import C02
        sub = ctx.__class__('C14', ctx.tier, ctx.p, ctx.seed)
        _ev.Evaluator.SYMBOLIC_SETTINGS = True
        try:
            C02.run(sub)
        finally:
            _ev.Evaluator.SYMBOLIC_SETTINGS = False
        for o in sub.obligations:
            if o.rule.startswith('C02.') and not o.rule.startswith('C02.INVALID'):
                o.rule = 'C14.SETTINGS(=%s, switches %s free)' % (o.rule, ', '.join(settings))
                ctx.obligations.append(o)
