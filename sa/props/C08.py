"""C08 — new wallets draw all entropy from the OS CSPRNG."""
from __future__ import annotations

import ast

from .. import terms as T
from ..evalr import Evaluator, Facts
from .. import externals as X
from ..loader import ModuleInfo
from .common import *

CSPRNG_CTORS = ('random.SystemRandom', 'secrets.SystemRandom')
PLANTED = """
import random
import random as rnd
from random import getrandbits, Random
import time, os
def a(): return random.getrandbits(128)
def b(): return rnd.randint(0, 5)
def c(): return getrandbits(8)
def d(): return Random(5).getrandbits(8)
def e(): return int(time.time()) ^ os.getpid()
"""


def _weak_randomness(tree, rebound):
    """Constructs that draw from a seedable / non-cryptographic source.  `rebound`: names that no longer
    refer to the stdlib random module at use sites (e.g. `random = random.SystemRandom()`)."""
    hits = []
    mod_aliases, from_names = set(), set()
    for n in ast.walk(tree):
        if isinstance(n, ast.Import):
            for a in n.names:
                if a.name == 'random' or a.name.startswith('numpy.random') or a.name == 'numpy':
                    mod_aliases.add(a.asname or a.name.split('.')[0])
        if isinstance(n, ast.ImportFrom) and n.module in ('random', 'numpy.random'):
            for a in n.names:
                if a.name not in ('SystemRandom',):
                    from_names.add(a.asname or a.name)
                    hits.append(('import of %s from the seedable random module' % a.name, n))
    for n in ast.walk(tree):
        if isinstance(n, ast.Call):
            f = n.func
            if isinstance(f, ast.Attribute) and isinstance(f.value, ast.Name) and f.value.id in mod_aliases \
                    and f.value.id not in rebound and f.attr != 'SystemRandom':
                hits.append(('call of %s.%s on the seedable Mersenne-Twister module' % (f.value.id, f.attr), n))
            if isinstance(f, ast.Name) and f.id in from_names:
                hits.append(('call of %s imported from the seedable random module' % f.id, n))
            d = ast.unparse(f)
            if d in ('time.time', 'time.time_ns', 'time.monotonic', 'time.perf_counter', 'os.getpid', 'id', 'hash', 'uuid.uuid1'):
                hits.append(('time/pid/address derived value %s' % d, n))
    return hits


# ---------------------------------------------------------------------------------------------------------------------
# bit provenance of an entropy value: which bit of which draw reaches which bit of the bytes handed to the sentence
# encoder.  Every bit is a set of contributions XOR-ed together: ('d', key, k) = bit k of draw `key`; ('o',) = something
# that does not depend on a draw (a hash of caller-supplied bytes, a constant).  XOR with draw-free material is a
# bijection of the draw, so it keeps every entropy bit free; a bit without a draw contribution is not random at all.
class _NoProv(Exception):
    pass


def _draw_free(t):
    return not T.contains(t, lambda x: T.is_op(x) and x[1] in ('RANDBITS', 'RANDBYTES', 'RANDVAL', 'PRNG', 'CSPRNG'))


def _int_prov(t, draws):
    """List (least significant bit first) of contribution sets of the non-negative integer t."""
    if T.is_const(t) and isinstance(t[1], int) and not isinstance(t[1], bool) and t[1] >= 0:
        return [frozenset([('o',)]) if (t[1] >> k) & 1 else frozenset() for k in range(t[1].bit_length())]
    if T.is_op(t, 'RANDBITS') and T.is_const(t[3]) and isinstance(t[3][1], int):
        draws.setdefault(t, len(draws))
        return [frozenset([('d', draws[t], k)]) for k in range(t[3][1])]
    if T.is_op(t, 'INT') and t[3] == T.const('big'):
        return _bytes_prov(t[2], draws)
    if T.is_op(t, 'BITXOR'):
        a, b = _int_prov(t[2], draws), _int_prov(t[3], draws)
        n = max(len(a), len(b))
        a, b = a + [frozenset()] * (n - len(a)), b + [frozenset()] * (n - len(b))
        return [x ^ y if not (('o',) in x and ('o',) in y) else (x | y) for x, y in zip(a, b)]
    if T.is_op(t, 'BITAND') and any(T.is_const(x) and isinstance(x[1], int) for x in t[2:4]):
        m, x = (t[2], t[3]) if T.is_const(t[2]) else (t[3], t[2])
        a = _int_prov(x, draws)
        return [c if (m[1] >> k) & 1 else frozenset() for k, c in enumerate(a)]
    if T.is_op(t, 'RSHIFT') and T.is_const(t[3]) and isinstance(t[3][1], int) and t[3][1] >= 0:
        return _int_prov(t[2], draws)[t[3][1]:]
    if T.is_op(t, 'LSHIFT') and T.is_const(t[3]) and isinstance(t[3][1], int) and 0 <= t[3][1] <= 4096:
        return [frozenset()] * t[3][1] + _int_prov(t[2], draws)
    if T.is_op(t, 'MOD') and T.is_const(t[3]) and isinstance(t[3][1], int) and t[3][1] > 0 and t[3][1] & (t[3][1] - 1) == 0:
        return _int_prov(t[2], draws)[:t[3][1].bit_length() - 1]
    if _draw_free(t) and T.type_of(t) == 'int':
        raise _NoProv('integer of unknown width: %s' % T.show(t, maxdepth=3))
    raise _NoProv('integer expression %s' % T.show(t, maxdepth=3))


def _bytes_prov(t, draws):
    """Contribution sets of the bits of a byte string read as a big-endian integer (least significant bit first)."""
    n = T.length_of(t)
    if T.is_op(t, 'SER') and t[4] == T.const('big') and T.is_const(t[3]) and isinstance(t[3][1], int):
        a = _int_prov(t[2], draws)
        w = 8 * t[3][1]
        return (a + [frozenset()] * w)[:w]
    if T.is_op(t, 'SLICE') and T.is_const(t[3]) and (T.is_const(t[4])) and T.length_of(t[2]) is not None:
        N = T.length_of(t[2])
        lo = t[3][1] or 0
        hi = N if t[4][1] is None else t[4][1]
        if lo < 0:
            lo += N
        if hi < 0:
            hi += N
        lo, hi = max(0, min(N, lo)), max(0, min(N, hi))
        a = _bytes_prov(t[2], draws)
        return a[8 * (N - hi):8 * (N - lo)]
    if T.is_op(t, 'CAT'):
        out = []
        for seg in reversed(t[2:]):
            out += _bytes_prov(seg, draws)
        return out
    if T.is_op(t, 'RANDBYTES') and T.is_const(t[3]) and isinstance(t[3][1], int):
        draws.setdefault(t, len(draws))
        return [frozenset([('d', draws[t], k)]) for k in range(8 * t[3][1])]
    if T.is_const(t) and isinstance(t[1], bytes):
        return _int_prov(T.const(int.from_bytes(t[1], 'big')), draws) + [frozenset()] * 0 if False else \
            [frozenset([('o',)]) if (int.from_bytes(t[1], 'big') >> k) & 1 else frozenset() for k in range(8 * len(t[1]))]
    if n is not None and _draw_free(t):
        return [frozenset([('o',)])] * (8 * n)
    raise _NoProv('byte string %s' % T.show(t, maxdepth=3))


def entropy_provenance(b, bits):
    """(True, None) when every one of the `bits` bits of b carries its own bit of one CSPRNG draw (possibly XOR-ed with
    draw-free material); (False, reason) when some bit does not; (None, reason) when the value is not understood."""
    draws = {}
    try:
        pv = _bytes_prov(b, draws)
    except _NoProv as e:
        return None, 'the entropy value is built in a way the bit-provenance analysis does not follow (%s)' % e
    if len(pv) != bits:
        return False, 'the entropy handed to the sentence encoder is %d bits wide, %d were requested' % (len(pv), bits)
    used = set()
    for j, c in enumerate(pv):
        ds = [x for x in c if x[0] == 'd']
        if not ds:
            return False, 'bit %d of the entropy does not depend on the CSPRNG draw (it is %s)' % (
                j, 'determined by the other inputs alone' if c else 'always zero')
        if len(ds) > 1:
            return None, 'bit %d of the entropy combines several drawn bits' % j
        if ds[0] in used:
            return False, 'drawn bit %d is used for more than one bit of the entropy' % ds[0][2]
        used.add(ds[0])
    for d in draws:
        if not T.is_op(d[2], 'CSPRNG'):
            return False, 'the draw is not made on the OS CSPRNG (%s)' % T.show(d[2])
    if len({x[1] for x in used}) != 1:
        return None, 'the entropy bits come from several draws'
    return True, None


_MISSING = object()


def _draw_interval(src, conds, bits):
    """Interval of the integer draw `src` that the conditions leave: comparisons of the draw (or of its bit_length()) with
    constants are read off; anything else is ignored (no restriction)."""
    lo, hi = 0, (1 << bits) - 1

    def apply(c, neg):
        nonlocal lo, hi
        if T.is_op(c, 'NOT') and len(c) == 3:
            return apply(c[2], not neg)
        if T.is_op(c, 'AND') and not neg:
            for d in c[2:]:
                apply(d, False)
            return
        if T.is_op(c, 'OR') and neg:
            for d in c[2:]:
                apply(d, True)
            return
        if T.is_op(c, 'LT') and len(c) == 4 and T.is_const(c[3]) and isinstance(c[3][1], int):
            a, k = c[2], c[3][1]
            if a == src:                      # src < k   /  not: src >= k
                if not neg:
                    hi = min(hi, k - 1)
                else:
                    lo = max(lo, k)
            elif T.is_op(a, 'METHOD') and a[2] == src and a[3] == T.const('bit_length'):
                # bit_length(src) < k  <=>  src < 2^(k-1)
                if k >= 1:
                    if not neg:
                        hi = min(hi, (1 << (k - 1)) - 1)
                    else:
                        lo = max(lo, 1 << (k - 1))
    for c in conds:
        apply(c, False)
    return lo, max(hi, lo - 1)


def _param_default(fi, name):
    a = fi.node.args
    pos = list(a.posonlyargs) + list(a.args)
    dfl = [_MISSING] * (len(pos) - len(a.defaults)) + list(a.defaults)
    for x, d in zip(pos, dfl):
        if x.arg == name:
            return d
    for x, d in zip(a.kwonlyargs, a.kw_defaults):
        if x.arg == name:
            return _MISSING if d is None else d
    return _MISSING


def _passed(fi, call, name):
    """The expression a call hands to parameter `name` of fi: ast node, None (not passed) or 'unknown' (star args)."""
    if any(isinstance(a, ast.Starred) for a in call.args) or any(k.arg is None for k in call.keywords):
        return 'unknown'
    for k in call.keywords:
        if k.arg == name:
            return k.value
    params = [q for q in fi.params]
    off = 1 if fi.cls is not None and fi.kind in ('method', 'classmethod', 'property') and isinstance(call.func, ast.Attribute) else 0
    if name in params:
        i = params.index(name) - off
        if 0 <= i < len(call.args):
            return call.args[i]
    return None


def _local_receiver(p, ob, fi, name, where):
    from ..evalr import Frame
    work, seen = [(fi, name)], set()
    while work:
        f, prm = work.pop()
        if (f.qual, prm) in seen:
            continue
        seen.add((f.qual, prm))
        d = _param_default(f, prm)
        key = f.qual[len(PKG) + 1:]
        if d is _MISSING:
            ob.require(False, '%s draws entropy from its parameter `%s`, which has no default: there is no built-in OS-CSPRNG route' % (key, prm), f.where)
            continue
        # default route: evaluate with the parameter left out, every draw in the result must be on the CSPRNG
        e = Evaluator(p, 'ecdsa')
        args, sig = [], f.node.args
        npos = len(sig.posonlyargs) + len(sig.args)
        required = (list(sig.posonlyargs) + list(sig.args))[:npos - len(sig.defaults)]
        for x in required:
            args.append(T.clsref(f.cls.qual) if f.kind == 'classmethod' and x is required[0] and f.cls is not None
                        else S(x.arg, type='int' if 'bits' in x.arg or 'len' in x.arg else None))
        if f is fi:
            try:
                v, _ = e.call_function(key, args)
            except AnalysisError as ex:
                ob.undecided('default route of %s could not be evaluated: %s' % (key, ex), f.where)
                continue
            dr = [x for x in T.walk(v) if T.is_op(x) and x[1] in ('RANDBITS', 'RANDBYTES', 'RANDVAL')]
            if not dr:
                ob.undecided('no draw is visible in the result of %s with `%s` left at its default' % (key, prm), f.where)
            for x in dr:
                ob.require(T.is_op(x[2], 'CSPRNG'), 'with `%s` left at its default, %s draws from something that is not the OS CSPRNG' % (prm, key),
                           where, expected='random.SystemRandom() / secrets / os.urandom', found=T.show(x[2]))
            ob.evaluations += 1
        for cs in p.callers_of(f):
            a = _passed(f, cs.node, prm)
            if a is None or (isinstance(a, ast.Constant) and a.value is None):
                continue
            if a == 'unknown':
                ob.undecided('call with star arguments: what reaches `%s` of %s is not visible' % (prm, key), cs.where)
                continue
            if isinstance(a, ast.Name) and cs.caller is not None and a.id in cs.caller.params:
                stores = [m for m in ast.walk(cs.caller.node) if isinstance(m, ast.Name) and m.id == a.id and isinstance(m.ctx, ast.Store)]
                if not stores:
                    work.append((cs.caller, a.id))
                    continue
            fr = Frame(cs.caller, {}, Facts(), cs.module, cs.caller.cls if cs.caller else None, 0)
            try:
                val = Evaluator(p, 'ecdsa').expr(a, fr)
            except Exception:
                val = T.opaque('unevaluated')
            if T.is_op(val, 'CSPRNG'):
                continue
            if T.is_op(val, 'PRNG'):
                ob.require(False, 'a caller inside the package hands the seedable generator %s to `%s` of %s' % (ast.unparse(a), prm, key), cs.where,
                           found=T.show(val))
            else:
                ob.undecided('a caller inside the package hands `%s` to `%s` of %s; what generator that is could not be decided'
                             % (ast.unparse(a), prm, key), cs.where)


def run(ctx):
    p = ctx.p
    ctx.explanation = (
        '"Entropy from nowhere else" is an absence, decided by who-may-call rules: the receiver of getrandbits in bip39 '
        'must be bound (last module-level binding) to random.SystemRandom() (or a secrets/os.urandom equivalent); the '
        'argument of the draw must be the validated entropy_bits itself and the drawn value must reach '
        'mnemonic_from_entropy through width-preserving steps only (fixed-width big-endian serialisation of bits/8 '
        'bytes, hex) - no mask, shift, modulo or arithmetic - for each of the five sizes, all other sizes raising; '
        'new_wallet -> from_entropy_bits -> mnemonic_from_entropy_bits is the only route and the length table is 32N/3; '
        'package-wide there is no call on the seedable random module, no from-import of it, no time/pid-derived value '
        '(zero-count rule with a planted positive control).')
    ctx.not_decided = ['quality of the operating system\'s CSPRNG']
    ev = Evaluator(p, 'ecdsa')
    mi = p.get_module('bip39')
    DRAW_METHODS = ('getrandbits', 'randbits', 'token_bytes', 'token_hex', 'urandom', 'randbytes', 'randint', 'randrange', 'choice',
                    'choices', 'sample', 'shuffle', 'random', 'seed', 'uniform')
    draws = []
    for fi in p.functions.values():
        for n in ast.walk(fi.node):
            if isinstance(n, ast.Call) and isinstance(n.func, ast.Attribute) and n.func.attr in DRAW_METHODS:
                draws.append((fi, n))
    with ctx.obligation('C08.SOURCE', 'randomness draw sites', None, mi.relpath) as ob:
        ob.require(len(draws) >= 1, 'the package draws randomness somewhere', mi.relpath)
        for fi, n in draws:
            where = '%s:%d' % (fi.module.relpath, n.lineno)
            r = ast.unparse(n.func.value)
            name = r.split('.')[0]
            m = fi.module
            if name in m.assigns:
                v = Evaluator(p, 'ecdsa').module_const(m.name.split('.')[-1], name)
            elif name in m.imports:
                v = X.ext_value(m.imports[name][1])
            elif name in fi.params and '.' not in r:
                # a generator handed in by the caller, with a default: the default route must be the OS CSPRNG and no
                # caller inside the package may hand in anything else (C08.AMOUNT decides the public routes semantically)
                _local_receiver(p, ob, fi, name, where)
                ob.require(n.func.attr in ('getrandbits', 'randbits', 'token_bytes', 'urandom', 'randbytes'),
                           'entropy is drawn with %s (not a bit/byte draw of stated size)' % n.func.attr, where)
                continue
            else:
                # a local bound exactly once to `<default source> if prm is None else prm` (either arm order): the default arm is
                # judged here, what a caller hands in is judged like a generator parameter
                binds = [a_ for a_ in ast.walk(fi.node) if isinstance(a_, ast.Assign) and len(a_.targets) == 1
                         and isinstance(a_.targets[0], ast.Name) and a_.targets[0].id == name]
                v = None
                if '.' not in r and len(binds) == 1 and isinstance(binds[0].value, ast.IfExp):
                    ie = binds[0].value
                    t_ = ie.test
                    if isinstance(t_, ast.Compare) and len(t_.ops) == 1 and isinstance(t_.ops[0], (ast.Is, ast.IsNot)) \
                            and isinstance(t_.left, ast.Name) and t_.left.id in fi.params \
                            and isinstance(t_.comparators[0], ast.Constant) and t_.comparators[0].value is None:
                        prm = t_.left.id
                        none_arm, other = (ie.body, ie.orelse) if isinstance(t_.ops[0], ast.Is) else (ie.orelse, ie.body)
                        d_ = _param_default(fi, prm)
                        if isinstance(other, ast.Name) and other.id == prm and isinstance(d_, ast.Constant) and d_.value is None:
                            from ..evalr import Frame
                            try:
                                v = Evaluator(p, 'ecdsa').expr(none_arm, Frame(fi, {}, Facts(), fi.module, fi.cls, 0))
                            except Exception:
                                v = None
                            _local_receiver(p, ob, fi, prm, where)
                if v is None:
                    v = T.opaque('receiver %s is not a module-level name' % r)
            ok = T.is_op(v, 'CSPRNG') or (T.tag(v) == 'ext' and v[1] in ('secrets', 'os'))
            ob.require(ok, 'the entropy source `%s` used in %s is not the operating system CSPRNG' % (r, fi.qual[len(PKG) + 1:]), where,
                       expected='random.SystemRandom() / secrets / os.urandom', found=T.show(v))
            ob.require(n.func.attr in ('getrandbits', 'randbits', 'token_bytes', 'urandom', 'randbytes'),
                       'entropy is drawn with %s (not a bit/byte draw of stated size)' % n.func.attr, where)

    def fresh_ok(t, bits):
        """t == MNEMONIC(HEX(<bits//8 bytes drawn from the CSPRNG, all bits free>))"""
        if not (T.is_op(t, 'MNEMONIC') and T.is_op(t[2], 'HEX')):
            return False
        b = t[2][2]
        if T.is_op(b, 'SER') and b[3] == T.const(bits // 8) and b[4] == BIG and T.is_op(b[2], 'RANDBITS'):
            d = b[2]
            return T.is_op(d[2], 'CSPRNG') and d[3] == T.const(bits)
        if T.is_op(b, 'RANDBYTES') and T.is_op(b[2], 'CSPRNG') and b[3] == T.const(bits // 8):
            return True
        return False
    summ = dict(X.DEFAULT_SUMMARIES)
    summ['bip39.mnemonic_from_entropy'] = lambda ev_, fi, env, facts: (T.raw_op('MNEMONIC', env[fi.params[0]]), facts)
    T.STR_OPS.update({'MNEMONIC'})
    BW = PKG + '.base_wallet.BaseWallet'
    fb = p.get_function('bip39.mnemonic_from_entropy_bits')
    entry = [
        ('bip39.mnemonic_from_entropy_bits', lambda e, bits, words: e.call_function('bip39.mnemonic_from_entropy_bits', [T.const(bits)]), False),
        ('BaseWallet.from_entropy_bits', lambda e, bits, words: e.call_function('base_wallet.BaseWallet.from_entropy_bits', [T.clsref(BW), T.const(bits)]), True),
        ('BaseWallet.new_wallet', lambda e, bits, words: e.call_function('base_wallet.BaseWallet.new_wallet', [T.clsref(BW), T.const(words)]), True),
    ]
    with ctx.obligation('C08.AMOUNT', 'fresh mnemonics and wallets', None, fb.where) as ob:
        for nm, call, is_wallet in entry:
            e2 = Evaluator(p, 'ecdsa', summaries=summ)
            for words, bits in ((12, 128), (15, 160), (18, 192), (21, 224), (24, 256)):
                v, f = call(e2, bits, words)
                nl = normal_leaves(v)
                ob.require(len(nl) >= 1, '%s produces a result for %d words' % (nm, words), fb.where)
                for cs, leaf in nl:
                    mn = attr_of(e2, leaf, 'mnemonic', Facts(known_at(f, cs))) if is_wallet else leaf
                    ob.require(fresh_ok(mn, bits), '%s: %d bits are drawn from the CSPRNG and serialised to %d bytes without masking, '
                               'shifting or arithmetic' % (nm, bits, bits // 8), fb.where, found=T.show(mn, maxdepth=6))
                    srcs = [x for x in T.walk(mn) if T.is_op(x) and x[1] in ('RANDBITS', 'RANDBYTES', 'RANDVAL', 'PRNG')]
                    # "every one of the ENT bits, including the most significant one, varies": the draw that is used must not
                    # have been *selected* by a test that cuts away a noticeable part of its range (rejection sampling with a
                    # floor such as bit_length() >= 128 pins the top bit of a 128-bit draw).  Decided on the path conditions:
                    # the interval of the draw they leave must still be (almost) all of [0, 2^bits).
                    for src in [x for x in srcs if x[1] == 'RANDBITS']:
                        lo_, hi_ = _draw_interval(src, list(cs) + list(known_at(f, cs)), bits)
                        kept = hi_ - lo_ + 1
                        ob.require(kept * (1 << 32) >= (1 << bits) * ((1 << 32) - 1),
                                   '%s: the %d-bit draw is used only when it passes a test that excludes part of its range (the '
                                   'conditions of this exit leave [%s, %s]): not every entropy bit varies freely (with a floor on '
                                   'bit_length() the most significant bit is always 1)' % (nm, bits, hex(lo_), hex(hi_)), fb.where,
                                   found=[T.show(c_, maxdepth=4) for c_ in cs if T.contains(c_, lambda y: y == src)][:3])
                    ob.require(len({x for x in srcs if x[1] != 'PRNG'}) == 1 and not any(x[1] in ('PRNG', 'RANDVAL') for x in srcs),
                               '%s: the sentence depends on exactly one draw from the CSPRNG and on nothing else that varies' % nm,
                               fb.where, found=[T.show(x, maxdepth=3) for x in srcs])
        # optional parameters switched away from their defaults (a feature added to the generating routes must keep every
        # entropy bit a bit of the OS draw: XOR with caller-supplied material is fine, replacing or truncating the draw is not)
        ANN = {'bytes': 'bytes', 'str': 'str', 'int': 'int', 'bool': 'bool'}
        bound = {'bip39.mnemonic_from_entropy_bits': 1, 'BaseWallet.from_entropy_bits': 2, 'BaseWallet.new_wallet': 2}
        quals = {'bip39.mnemonic_from_entropy_bits': 'bip39.mnemonic_from_entropy_bits',
                 'BaseWallet.from_entropy_bits': 'base_wallet.BaseWallet.from_entropy_bits', 'BaseWallet.new_wallet': 'base_wallet.BaseWallet.new_wallet'}
        for nm, call, is_wallet in entry:
            fe = p.get_function(quals[nm])
            extra = {}
            for prm in fe.params[bound[nm]:]:
                if prm not in fe.defaults:
                    continue
                an = next((a_.annotation for a_ in fe.node.args.args + fe.node.args.kwonlyargs if a_.arg == prm), None)
                ty = ANN.get(ast.unparse(an)) if an is not None else None
                if ty is None:
                    continue
                extra[prm] = S('opt_' + prm, type=ty)
            if not set(extra) - {'password', 'testnet'}:
                continue
            for words, bits in ((12, 128), (24, 256)):
                e3 = Evaluator(p, 'ecdsa', summaries=summ)
                args = [T.const(bits)] if bound[nm] == 1 else [T.clsref(BW), T.const(bits if 'bits' in nm else words)]
                v, f = e3.call_function(quals[nm], args, dict(extra))
                for cs, leaf in normal_leaves(v):
                    mn = attr_of(e3, leaf, 'mnemonic', Facts(known_at(f, cs))) if is_wallet else leaf
                    hexes = []
                    for mleaf in distinct_normal_leaves(mn):
                        if not T.is_op(mleaf, 'MNEMONIC'):
                            ob.undecided('%s with optional parameters %s: the sentence is not MNEMONIC(HEX(entropy)): %s'
                                         % (nm, sorted(extra), T.show(mleaf, maxdepth=4)), fe.where)
                            continue
                        hexes.extend(distinct_normal_leaves(mleaf[2]))
                    for hx in hexes:
                        if not T.is_op(hx, 'HEX'):
                            ob.undecided('%s with optional parameters %s: the sentence is not MNEMONIC(HEX(entropy)): %s'
                                         % (nm, sorted(extra), T.show(hx, maxdepth=4)), fe.where)
                            continue
                        okp, why = entropy_provenance(hx[2], bits)
                        if okp is None:
                            ob.undecided('%s with optional parameters %s set: %s' % (nm, sorted(extra), why), fe.where)
                        else:
                            ob.require(okp, '%s with optional parameters %s set (%d bits): %s' % (nm, sorted(extra), bits, why), fe.where,
                                       expected='every entropy bit is a bit of the OS draw (XOR with other material allowed)',
                                       found=T.show(hx[2], maxdepth=7))
        e2 = Evaluator(p, 'ecdsa', summaries=summ)
        x = S('bits', type='int')
        facts = Facts()
        for b in (128, 160, 192, 224, 256):
            facts = facts.add(T.not_(T.eq(T.const(b), x)))
        for q, args in (('bip39.mnemonic_from_entropy_bits', [x]), ('base_wallet.BaseWallet.from_entropy_bits', [T.clsref(BW), x])):
            v, f = e2.call_function(q, args, facts=facts)
            ob.require(all(T.tag(l) == 'raise' for l in distinct_leaves(v)), '%s: a size outside {128,...,256} is not refused' % q.split('.', 1)[1],
                       p.get_function(q).where)
        v, f = e2.call_function('bip39.mnemonic_from_entropy_bits', [])
        ob.require(all(fresh_ok(l, 256) for l in distinct_normal_leaves(v)) and distinct_normal_leaves(v), 'default is 256 bits', fb.where)
        tbl = e2.module_const('bip39', 'MNEMONIC_LENGTH_TO_ENTROPY_BITS')
        same_term(ob, tbl, T.dct([(T.const(n), T.const(32 * n // 3)) for n in (12, 15, 18, 21, 24)]), 'N words need 32N/3 bits',
                  mi.relpath)
    with ctx.obligation('C08.NOPRNG', 'package-wide weak randomness', None, 'btc_hd_wallet/') as ob:
        ctrl = _weak_randomness(ast.parse(PLANTED), set())
        gen_roots = [p.get_function(q) for q in ('bip39.mnemonic_from_entropy_bits', 'base_wallet.BaseWallet.new_wallet',
                                                 'base_wallet.BaseWallet.from_entropy_bits')] + [fi for fi, _ in draws]
        gen_closure = set(p.reachable_from(gen_roots))
        if len(ctrl) < 8:
            ob.undecided('positive control failed: %d of 8+ planted constructs recognised' % len(ctrl))
        for m in p.modules.values():
            rebound = set()
            for name, nodes in m.assigns.items():
                if name in m.imports and m.imports[name] == ('module', 'random'):
                    v = Evaluator(p, 'ecdsa').module_const(m.name, name)
                    if T.is_op(v, 'CSPRNG'):
                        rebound.add(name)
            for what, node in _weak_randomness(m.tree, rebound):
                if what.startswith('time/pid/address'):
                    # such a value matters where entropy is produced: in the functions the generating entry points reach
                    # (a __hash__ method calling hash(), a timestamp in an export helper are not entropy sources)
                    holder = [f_ for f_ in p.functions.values() if f_.module is m
                              and f_.node.lineno <= node.lineno <= getattr(f_.node, 'end_lineno', f_.node.lineno)]
                    if holder and not any(f_ in gen_closure for f_ in holder):
                        ob.note('%s at %s:%d is outside the entropy-generating closure' % (what, m.relpath, node.lineno))
                        continue
                ob.require(False, what, '%s:%d' % (m.relpath, node.lineno), found=ast.unparse(node)[:80])
            ob.evaluations += 1
            ob.saw(m.relpath)
