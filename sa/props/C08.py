"""C08 — new wallets draw all entropy from the OS CSPRNG."""
from __future__ import annotations

import ast

from .. import terms as T
from ..evalr import Evaluator, Facts
from .. import externals as X
from ..loader import ModuleInfo
from .common import *

CSPRNG_CTORS = ('random.SystemRandom', 'secrets.SystemRandom')
PLANTED = """
import random
import random as rnd
from random import getrandbits, Random
import time, os
def a(): return random.getrandbits(128)
def b(): return rnd.randint(0, 5)
def c(): return getrandbits(8)
def d(): return Random(5).getrandbits(8)
def e(): return int(time.time()) ^ os.getpid()
"""


def _weak_randomness(tree, rebound):
    """Constructs that draw from a seedable / non-cryptographic source.  `rebound`: names that no longer
    refer to the stdlib random module at use sites (e.g. `random = random.SystemRandom()`)."""
    hits = []
    mod_aliases, from_names = set(), set()
    for n in ast.walk(tree):
        if isinstance(n, ast.Import):
            for a in n.names:
                if a.name == 'random' or a.name.startswith('numpy.random') or a.name == 'numpy':
                    mod_aliases.add(a.asname or a.name.split('.')[0])
        if isinstance(n, ast.ImportFrom) and n.module in ('random', 'numpy.random'):
            for a in n.names:
                if a.name not in ('SystemRandom',):
                    from_names.add(a.asname or a.name)
                    hits.append(('import of %s from the seedable random module' % a.name, n))
    for n in ast.walk(tree):
        if isinstance(n, ast.Call):
            f = n.func
            if isinstance(f, ast.Attribute) and isinstance(f.value, ast.Name) and f.value.id in mod_aliases \
                    and f.value.id not in rebound and f.attr != 'SystemRandom':
                hits.append(('call of %s.%s on the seedable Mersenne-Twister module' % (f.value.id, f.attr), n))
            if isinstance(f, ast.Name) and f.id in from_names:
                hits.append(('call of %s imported from the seedable random module' % f.id, n))
            d = ast.unparse(f)
            if d in ('time.time', 'time.time_ns', 'time.monotonic', 'time.perf_counter', 'os.getpid', 'id', 'hash', 'uuid.uuid1'):
                hits.append(('time/pid/address derived value %s' % d, n))
    return hits


def run(ctx):
    p = ctx.p
    ctx.explanation = (
        '"Entropy from nowhere else" is an absence, decided by who-may-call rules: the receiver of getrandbits in bip39 '
        'must be bound (last module-level binding) to random.SystemRandom() (or a secrets/os.urandom equivalent); the '
        'argument of the draw must be the validated entropy_bits itself and the drawn value must reach '
        'mnemonic_from_entropy through width-preserving steps only (fixed-width big-endian serialisation of bits/8 '
        'bytes, hex) - no mask, shift, modulo or arithmetic - for each of the five sizes, all other sizes raising; '
        'new_wallet -> from_entropy_bits -> mnemonic_from_entropy_bits is the only route and the length table is 32N/3; '
        'package-wide there is no call on the seedable random module, no from-import of it, no time/pid-derived value '
        '(zero-count rule with a planted positive control).')
    ctx.not_decided = ['quality of the operating system\'s CSPRNG']
    ev = Evaluator(p, 'ecdsa')
    mi = p.get_module('bip39')
    with ctx.obligation('C08.SOURCE', 'bip39.random', None, mi.relpath) as ob:
        fb = p.get_function('bip39.mnemonic_from_entropy_bits')
        recv = set()
        for n in ast.walk(fb.node):
            if isinstance(n, ast.Call) and isinstance(n.func, ast.Attribute) and n.func.attr in ('getrandbits', 'randbits', 'token_bytes', 'urandom', 'randbytes'):
                recv.add(ast.unparse(n.func.value))
        ob.require(len(recv) == 1, 'mnemonic_from_entropy_bits draws from exactly one source', fb.where, found=sorted(recv))
        for r in recv:
            name = r.split('.')[0]
            v = ev.module_const('bip39', name) if name in mi.assigns else X.ext_value(mi.imports[name][1]) if name in mi.imports else T.opaque('?')
            ok = T.is_op(v, 'CSPRNG') or (T.tag(v) == 'ext' and v[1] in ('secrets', 'os'))
            ob.require(ok, 'the entropy source `%s` is not the operating system CSPRNG' % r, mi.relpath,
                       expected='random.SystemRandom() / secrets / os.urandom', found=T.show(v))
    fb = p.get_function('bip39.mnemonic_from_entropy_bits')
    with ctx.obligation('C08.AMOUNT', 'bip39.mnemonic_from_entropy_bits', None, fb.where) as ob:
        summ = dict(X.DEFAULT_SUMMARIES)
        summ['bip39.mnemonic_from_entropy'] = lambda ev_, fi, env, facts: (T.raw_op('MNEMONIC', env[fi.params[0]]), facts)
        e2 = Evaluator(p, 'ecdsa', summaries=summ)
        src = e2.module_const('bip39', 'random')
        for words, bits in ((12, 128), (15, 160), (18, 192), (21, 224), (24, 256)):
            v, f = e2.call_function('bip39.mnemonic_from_entropy_bits', [T.const(bits)])
            draw = T.raw_op('RANDBITS', src, T.const(bits))
            exp = T.raw_op('MNEMONIC', T.raw_op('HEX', T.ser(draw, T.const(bits // 8), BIG)))
            same_term(ob, v, exp, '%d bits are drawn and serialised to %d bytes without masking or arithmetic' % (bits, bits // 8), fb.where)
        x = S('bits', type='int')
        facts = Facts()
        for b in (128, 160, 192, 224, 256):
            facts = facts.add(T.not_(T.eq(T.const(b), x)))
        v, f = e2.call_function('bip39.mnemonic_from_entropy_bits', [x], facts=facts)
        ob.require(all(T.tag(l) == 'raise' for l in distinct_leaves(v)), 'a size outside {128,...,256} is not refused', fb.where)
        v, f = e2.call_function('bip39.mnemonic_from_entropy_bits', [])
        v2, _ = e2.call_function('bip39.mnemonic_from_entropy_bits', [T.const(256)])
        same_term(ob, v, v2, 'default is 256 bits', fb.where)
        tbl = e2.module_const('bip39', 'MNEMONIC_LENGTH_TO_ENTROPY_BITS')
        same_term(ob, tbl, T.dct([(T.const(n), T.const(32 * n // 3)) for n in (12, 15, 18, 21, 24)]), 'N words need 32N/3 bits',
                  mi.relpath)
    with ctx.obligation('C08.ROUTE', 'fresh-entropy route', None, fb.where) as ob:
        callers = {cs.caller.qual[len(PKG) + 1:] for cs in p.callers_of(fb) if cs.caller is not None}
        ob.require(callers == {'base_wallet.BaseWallet.from_entropy_bits'}, 'mnemonic_from_entropy_bits is reached only from from_entropy_bits',
                   fb.where, found=sorted(callers))
        feb = p.get_function('base_wallet.BaseWallet.from_entropy_bits')
        callers = {cs.caller.qual[len(PKG) + 1:] for cs in p.callers_of(feb) if cs.caller is not None}
        ob.require(callers == {'base_wallet.BaseWallet.new_wallet'}, 'from_entropy_bits is reached only from new_wallet', feb.where,
                   found=sorted(callers))
        draws = []
        for fi in p.functions.values():
            for n in ast.walk(fi.node):
                if isinstance(n, ast.Call) and isinstance(n.func, ast.Attribute) and n.func.attr in (
                        'getrandbits', 'randbits', 'token_bytes', 'urandom', 'randbytes', 'randint', 'randrange', 'choice', 'random', 'seed'):
                    draws.append((fi.qual[len(PKG) + 1:], n.lineno))
        ob.require([d[0] for d in draws] == ['bip39.mnemonic_from_entropy_bits'], 'randomness is drawn in exactly one place', fb.where, found=draws)
    with ctx.obligation('C08.NOPRNG', 'package-wide weak randomness', None, 'btc_hd_wallet/') as ob:
        ctrl = _weak_randomness(ast.parse(PLANTED), set())
        if len(ctrl) < 8:
            ob.undecided('positive control failed: %d of 8+ planted constructs recognised' % len(ctrl))
        for m in p.modules.values():
            rebound = set()
            for name, nodes in m.assigns.items():
                if name in m.imports and m.imports[name] == ('module', 'random'):
                    v = Evaluator(p, 'ecdsa').module_const(m.name, name)
                    if T.is_op(v, 'CSPRNG'):
                        rebound.add(name)
            for what, node in _weak_randomness(m.tree, rebound):
                ob.require(False, what, '%s:%d' % (m.relpath, node.lineno), found=ast.unparse(node)[:80])
            ob.evaluations += 1
            ob.saw(m.relpath)
