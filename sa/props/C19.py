"""C19 — script and varint wire encodings (R-PARTITION over interval cells, reader/writer agreement,
byte accounting, length-checked reads)."""
from __future__ import annotations

import ast

from .. import terms as T
from ..evalr import Evaluator, Facts, FALL, _strip_raise
from ..spec import wire
from .common import *

LITTLE = T.const('little')
SCRIPT = PKG + '.script.Script'


def _int_consts(fi):
    out = set()
    for n in ast.walk(fi.node):
        if isinstance(n, ast.Constant) and isinstance(n.value, int) and not isinstance(n.value, bool):
            out.add(n.value)
    return out


def _cells(spec_points, code_consts, lo, hi):
    """Elementary inclusive cells [a,b] covering [lo,hi] such that no breakpoint lies strictly inside."""
    pts = set()
    for c in set(spec_points) | set(code_consts):
        for d in (c - 1, c, c + 1):
            if lo <= d <= hi:
                pts.add(d)
    pts |= {lo, hi}
    pts = sorted(pts)
    cells = []
    for i, a in enumerate(pts):
        cells.append((a, a))
        if i + 1 < len(pts) and pts[i + 1] > a + 1:
            cells.append((a + 1, pts[i + 1] - 1))
    return cells


def _range_facts(t, lo, hi):
    f = Facts()
    f = f.add(T.not_(T.lt(t, T.const(lo))))
    if hi is not None:
        f = f.add(T.lt(t, T.const(hi + 1)))
    return f


def _check_push(ctx):
    p = ctx.p
    fi = p.get_function('script.Script.raw_serialize')
    consts = _int_consts(fi)
    spec_pts = [1, 75, 76, 255, 256, 520, 521]
    top = max(list(consts) + [70000]) + 5
    cells = _cells(spec_pts, consts, 1, top) + [(top + 1, None)]
    with ctx.obligation('C19.PUSH', 'Script.raw_serialize', None, fi.where) as ob:
        ev = Evaluator(p, 'ecdsa')
        for lo, hi in cells:
            elem = S('elem', type='bytes')
            L = T.len_(elem)
            facts = _range_facts(L, lo, hi)
            me = T.obj(SCRIPT, {'cmds': T.lst([elem])})
            v, f = ev.call_function('script.Script.raw_serialize', [me], facts=facts)
            cell = '[%s,%s]' % (lo, hi if hi is not None else 'inf')
            exp = None
            for a, b, prefix, width, nm in wire.PUSH_CELLS:
                if a <= lo and (hi is not None and hi <= b):
                    exp = T.cat(T.const(prefix), T.ser(L, T.const(width), LITTLE), elem)
                    expname = nm
            if exp is None:
                if lo > wire.PUSH_MAX:
                    ok = all(T.tag(x) == 'raise' for _, x in leaves(v))
                    ob.require(ok, 'element length %s must be refused (over %d bytes)' % (cell, wire.PUSH_MAX), fi.where,
                               expected='raise', found=T.show(v, maxdepth=4))
                else:
                    ob.undecided('cell %s straddles specification intervals' % cell)
                continue
            if T.tag(v) == 'raise' or all(T.tag(x) == 'raise' for _, x in leaves(v)):
                ob.require(False, 'element length %s reaches the refusing arm; the specification arm is "%s"'
                           % (cell, expname), fi.where, expected=T.show(exp), found=T.show(v, maxdepth=4))
                continue
            tables = [x for x in T.walk(v) if T.is_op(x, 'GETITEM') and len(x) == 4 and x[3] == L and T.tag(x[2]) in ('tuple', 'list')
                      and all(T.is_const(y) for y in x[2][1])]
            if tables and hi is not None and hi - lo <= 600:
                # the prefix is looked up in a constant table indexed by the element's length: the cell is decided length by
                # length (a finite case analysis over the table's entries, nothing is executed)
                bad = None
                for k in range(lo, hi + 1):
                    vk, ek = T.subst(v, {L: T.const(k)}), T.subst(exp, {L: T.const(k)})
                    if vk != ek:
                        bad = (k, vk, ek)
                        break
                ob.evaluations += hi - lo + 1
                ob.require(bad is None, 'serialisation of a %s-byte element (%s), push prefix taken from a table: the entry for '
                           'length %s' % (cell, expname, bad[0] if bad else ''), fi.where,
                           expected=T.show(bad[2], maxdepth=4) if bad else None, found=T.show(bad[1], maxdepth=4) if bad else None)
                continue
            same_term(ob, v, exp, 'serialisation of a %s-byte element (%s)' % (cell, expname), fi.where)
        # opcodes: an int command is one byte
        for opc in (0, 0x4b, 0x4c, 0x4e, 0x51, 0x87, 0xac, 0xff):
            me = T.obj(SCRIPT, {'cmds': T.lst([T.const(opc)])})
            v, f = ev.call_function('script.Script.raw_serialize', [me])
            same_term(ob, v, T.const(bytes([opc])), 'serialisation of opcode 0x%02x' % opc, fi.where)
        # order and concatenation of several commands
        e1, e2 = S('e1', type='bytes', len=20), S('e2', type='bytes', len=80)
        me = T.obj(SCRIPT, {'cmds': T.lst([T.const(0x76), e1, T.const(0x88), e2])})
        v, f = ev.call_function('script.Script.raw_serialize', [me])
        same_term(ob, v, T.cat(T.const(b'\x76\x14'), e1, T.const(b'\x88\x4c\x50'), e2),
                  'serialisation of a mixed command list keeps order', fi.where)


def _check_varint_writer(ctx):
    p = ctx.p
    fi = p.get_function('helper.encode_varint')
    consts = _int_consts(fi)
    spec_pts = [0, 0xfc, 0xfd, 0xffff, 0x10000, 0xffffffff, 2 ** 32, 2 ** 64 - 1, 2 ** 64]
    top = max(list(consts) + [2 ** 64]) + 5
    cells = _cells(spec_pts, consts, 0, top) + [(top + 1, None)]
    with ctx.obligation('C19.VARINT-WRITE', 'helper.encode_varint', None, fi.where) as ob:
        ev = Evaluator(p, 'ecdsa')
        for lo, hi in cells:
            i = S('i', type='int')
            v, f = ev.call_function('helper.encode_varint', [i], facts=_range_facts(i, lo, hi))
            cell = '[%s,%s]' % (hex(lo), hex(hi) if hi is not None else 'inf')
            exp = None
            for a, b, marker, width in wire.VARINT_CELLS:
                if a <= lo and hi is not None and hi <= b:
                    exp = T.cat(T.const(marker), T.ser(i, T.const(width), LITTLE))
            if exp is None:
                if lo > wire.VARINT_MAX:
                    ok = all(T.tag(x) == 'raise' for _, x in leaves(v))
                    ob.require(ok, 'value %s must be refused (>= 2^64)' % cell, fi.where, expected='raise',
                               found=T.show(v, maxdepth=4))
                else:
                    ob.undecided('cell %s straddles specification intervals' % cell)
                continue
            if all(T.tag(x) == 'raise' for _, x in leaves(v)):
                ob.require(False, 'value %s is refused; the specification encodes it in %d byte(s)'
                           % (cell, len(T.length_of(exp) and b'' or b'') or (T.length_of(exp) or 0)), fi.where,
                           expected=T.show(exp), found=T.show(v, maxdepth=4))
                continue
            same_term(ob, v, exp, 'CompactSize of a value in %s' % cell, fi.where)


def _read_known(obr, r, n, where):
    """a read whose size (or data) the evaluator could not compute cannot be judged: UNDECIDED, not a violation"""
    if (isinstance(n, tuple) and T.opaques(n)) or (isinstance(r, tuple) and T.opaques(r)):
        obr.undecided('a stream read whose size is not computable by the evaluator (%s): its length check cannot be judged'
                      % T.show(n, maxdepth=3), where)
        return False
    return True


def _read_ok(ev, r, n, env_terms, known):
    """A stream read of n bytes is length-checked if the fact LEN(r) == n holds on the exit, or if n == 1
    and r is only ever indexed (IndexError on a short read)."""
    if T.is_const(r):
        return True
    if T.eq(T.len_(r), n) in known:
        return True
    if T.is_const(n) and isinstance(n[1], int):
        def shield(x):
            return (T.is_op(x, 'GETITEM') and x[2] == r and T.is_const(x[3]) and isinstance(x[3][1], int)
                    and 0 <= x[3][1] < n[1]) or (T.is_op(x, 'LEN') and x[2] == r)
        used = False
        indexed = False
        for t in env_terms:
            if t == r:
                continue          # a bare alias is not a use
            if T.occurs_outside(t, lambda x: x == r, shield):
                used = True
            if T.contains(t, lambda x: T.is_op(x, 'GETITEM') and x[2] == r):
                indexed = True
        if not used and indexed and n[1] >= 1:
            return True
        if not used and not indexed:
            return True            # value never consumed
    return False


def _check_varint_reader(ctx):
    p = ctx.p
    fi = p.get_function('helper.read_varint')
    with ctx.obligation('C19.VARINT-READ', 'helper.read_varint', None, fi.where) as ob, \
            ctx.obligation('C19.READ', 'helper.read_varint', None, fi.where) as obr:
        for m in range(256):
            ev = Evaluator(p, 'ecdsa')
            rest = S('rest', type='bytes')
            s = ev.new_stream(T.cat(T.const(bytes([m])), rest))
            v, f = ev.call_function('helper.read_varint', [s])
            width = {0xfd: 2, 0xfe: 4, 0xff: 8}.get(m)
            val = _strip_raise(v)
            if width is None:
                same_term(ob, val, T.const(m), 'marker byte 0x%02x is the value itself' % m, fi.where)
            else:
                same_term(ob, val, T.int_(T.slice_(rest, T.const(0), T.const(width)), LITTLE),
                          'marker 0x%02x is followed by a %d-byte little-endian value' % (m, width), fi.where)
            if m in (0, 0xfc, 0xfd, 0xfe, 0xff):
                for conds, leaf in normal_leaves(v):
                    known = known_at(f, conds)
                    for r, n, fq, line in ev.reads:
                        if not _read_known(obr, r, n, '%s:%d' % (fi.module.relpath, line)):
                            continue
                        obr.require(_read_ok(ev, r, n, [leaf], known),
                                    'stream read of %s byte(s) is used without a length check (a short read at end of '
                                    'input is silently accepted)' % T.show(n),
                                    '%s:%d' % (fi.module.relpath, line), expected='guard LEN(data) == n that raises, or '
                                    'indexing-only use', found=T.show(r, maxdepth=3))
        # first byte read with nothing known about the stream
        ev = Evaluator(p, 'ecdsa')
        D = S('D', type='bytes')
        v, f = ev.call_function('helper.read_varint', [ev.new_stream(D)])
        first = [x for x in ev.reads if x[0] == T.slice_(D, T.const(0), T.const(1))]
        if not first:
            obr.undecided('the marker read of read_varint was not recognised')
        for r, n, fq, line in first:
            obr.require(_read_ok(ev, r, n, [v], known_at(f, ())), 'marker byte read is used without a length check',
                        '%s:%d' % (fi.module.relpath, line))


def _check_roundtrip(ctx):
    """The reader accepts what the writer writes: for every cell of the specification the reader is evaluated on the
    writer's own encoding of a symbolic value in that cell.  Every exit must hand the value back - a refusal (a
    "canonical form" or "minimal push" test that is stricter than the writer) breaks the round trip."""
    p = ctx.p
    fr_ = p.get_function('helper.read_varint')
    with ctx.obligation('C19.VARINT-RT', 'read_varint(encode_varint(i))', None, fr_.where) as ob:
        for a, b, marker, width in wire.VARINT_CELLS:
            i = S('i', type='int')
            facts = _range_facts(i, a, b)
            ev = Evaluator(p, 'ecdsa')
            enc, _ = ev.call_function('helper.encode_varint', [i], facts=facts)
            enc = _strip_raise(enc)
            if T.tag(enc) == 'raise':
                continue            # reported by C19.VARINT-WRITE
            ev2 = Evaluator(p, 'ecdsa')
            rest = S('rest', type='bytes')
            v, f = ev2.call_function('helper.read_varint', [ev2.new_stream(T.cat(enc, rest))], facts=facts)
            cell = '[%s, %s]' % (hex(a), hex(b))
            lv = list(leaves(v))
            ob.evaluations += 1
            bad = [(cs, x) for cs, x in lv if T.tag(x) == 'raise' and x[1] != 'ValueError:short-read']
            # a read of the writer's own bytes cannot be short: raises that depend on LEN(rest) do not count
            bad = [(cs, x) for cs, x in bad if not any(T.contains(c, lambda y: y == rest) for c in cs)]
            ob.require(not bad, 'read_varint refuses the encoding encode_varint writes for a value in %s: the round trip fails for '
                       'standard shortest-form input' % cell, fr_.where,
                       found=['%s when %s' % (x[1], ' and '.join(T.show(c, maxdepth=4) for c in cs[-2:])) for cs, x in bad][:2])
            for cs, x in lv:
                if T.tag(x) != 'raise':
                    same_term(ob, T.assume(x, set(cs)), i, 'read_varint(encode_varint(i)) is i for i in %s' % cell, fr_.where)
    fp_ = p.get_function('script.Script.parse')
    with ctx.obligation('C19.PUSH-RT', 'Script.parse(Script([e]).serialize())', None, fp_.where) as ob:
        for a, b, prefix, width, nm in wire.PUSH_CELLS:
            elem = S('elem', type='bytes')
            L = T.len_(elem)
            facts = _range_facts(L, a, b)
            ev = Evaluator(p, 'ecdsa')
            me = T.obj(SCRIPT, {'cmds': T.lst([elem])})
            enc, _ = ev.call_function('script.Script.serialize', [me], facts=facts)
            enc = _strip_raise(enc)
            if T.tag(enc) == 'raise' or T.opaques(enc):
                ob.note('serialize of a %s element is not a plain term (decided by C19.PUSH / C19.SERIALIZE)' % nm)
                continue
            ev2 = Evaluator(p, 'ecdsa')
            try:
                v, f = ev2.call_function('script.Script.parse', [T.clsref(SCRIPT), ev2.new_stream(enc)], facts=facts)
            except Exception as e:      # the loop form of parse may be beyond the evaluator: decided by C19.READER then
                ob.note('parse of the serialised %s element could not be evaluated whole (%s); see C19.READER' % (nm, type(e).__name__))
                continue
            ob.evaluations += 1
            lv = list(leaves(v))
            if any(T.opaques(x) for _, x in lv):
                ob.note('parse of the serialised %s element is not a plain term; see C19.READER' % nm)
                continue
            bad = [(cs, x) for cs, x in lv if T.tag(x) == 'raise']
            ob.require(not bad, 'Script.parse refuses the bytes Script.serialize writes for one %s element (%d..%d bytes): the round '
                       'trip fails for a standard push' % (nm, a, b), fp_.where,
                       found=['%s when %s' % (x[1], ' and '.join(T.show(c, maxdepth=4) for c in cs[-2:])) for cs, x in bad][:2])


def _find_while(fi):
    ws = [n for n in fi.node.body if isinstance(n, ast.While)]
    if len(ws) != 1:
        raise AnalysisError('C19.READER', 'Script.parse is expected to contain exactly one top-level while loop '
                                          '(found %d)' % len(ws))
    i = fi.node.body.index(ws[0])
    return fi.node.body[:i], ws[0], fi.node.body[i + 1:]


def _check_script_reader(ctx):
    p = ctx.p
    fi = p.get_function('script.Script.parse')
    pre, loop, post = _find_while(fi)
    LEN = None
    with ctx.obligation('C19.READER', 'Script.parse loop body', None, fi.where) as ob, \
            ctx.obligation('C19.ACCT', 'Script.parse loop body', None, fi.where) as oba, \
            ctx.obligation('C19.READ', 'Script.parse', None, fi.where) as obr:
        # names used for the loop state are discovered from the loop test and the prologue
        ev0 = Evaluator(p, 'ecdsa')
        D0 = S('D0', type='bytes')
        params = fi.params
        env0 = {params[0]: T.clsref(SCRIPT), params[1]: ev0.new_stream(D0)}
        res, env_pre, facts_pre = ev0.eval_fragment('script.Script.parse', pre, env0)
        # the declared length comes from read_varint on the same stream
        # loop test `count < length` names the counter and the declared length; the command list is the empty list
        # the body appends to; the stream is the stream-valued variable the body reads from
        tst = loop.test
        if not (isinstance(tst, ast.Compare) and len(tst.ops) == 1 and isinstance(tst.ops[0], ast.Lt)
                and isinstance(tst.left, ast.Name) and isinstance(tst.comparators[0], ast.Name)):
            raise AnalysisError('C19.READER', 'the loop test of Script.parse is not `<counter> < <declared length>`: %s' % ast.unparse(tst))
        cnts, lens = [tst.left.id], [tst.comparators[0].id]
        appended = {n.func.value.id for n in ast.walk(loop) if isinstance(n, ast.Call) and isinstance(n.func, ast.Attribute)
                    and n.func.attr == 'append' and isinstance(n.func.value, ast.Name)}
        lists = [k for k, v in env_pre.items() if _strip_raise(v) == T.lst([]) and k in appended]
        body_names = {n.id for n in ast.walk(loop) if isinstance(n, ast.Name)}
        streams = [k for k, v in env_pre.items() if T.is_op(_strip_raise(v), 'STREAM') and k in body_names]
        BUF = None
        HYBRID = False
        if streams:
            # a buffer walked by position next to the stream (pushes that run past the buffer are completed from the stream)?
            bufs = [k for k, v in env_pre.items() if k in body_names and k not in (cnts[0], lens[0]) and k not in streams
                    and T.type_of(_strip_raise(v)) == 'bytes' and T.contains(_strip_raise(v), lambda x: x == D0)]
            if len(bufs) == 1 and len(streams) == 1:
                raise AnalysisError('C19.READER', 'Script.parse walks a buffer (%s) by position and also reads from the stream (%s) '
                                    'inside its loop: which bytes an element is made of then depends on conditions across '
                                    'iterations that this per-iteration analysis does not follow' % (bufs[0], streams[0]))
        if not streams:
            # buffer form: the whole body is read once (checked against the declared length) and walked by position
            bufs = [k for k, v in env_pre.items() if k in body_names and k not in (cnts[0], lens[0])
                    and T.type_of(_strip_raise(v)) == 'bytes' and T.contains(_strip_raise(v), lambda x: x == D0)]
            if len(bufs) == 1:
                BUF = bufs[0]
                streams = [BUF]
        if env_pre.get(cnts[0]) is None or _strip_raise(env_pre[cnts[0]]) != T.const(0) or len(lists) != 1 or len(streams) != 1 \
                or lens[0] not in env_pre:
            raise AnalysisError('C19.READER', 'cannot identify the loop state of Script.parse (length=%s, count=%s, '
                                              'cmds=%s, stream=%s)' % (lens, cnts, lists, streams))
        LEN, CNT, CMDS, STREAM = lens[0], cnts[0], lists[0], streams[0]
        ob.note('loop state: length=%s count=%s cmds=%s stream=%s' % (LEN, CNT, CMDS, STREAM))
        # loop test: count < length
        evt = Evaluator(p, 'ecdsa')
        cs, ls = S('count', type='int'), S('length', type='int')
        from ..evalr import Frame
        fr = Frame(fi, {CNT: cs, LEN: ls}, Facts(), fi.module, fi.cls, 0)
        test = T.truth(evt.expr(loop.test, fr))
        oba.require(test == T.lt(cs, ls), 'loop continues exactly while fewer bytes were consumed than declared',
                    '%s:%d' % (fi.module.relpath, loop.lineno), expected='LT(count, length)', found=T.show(test))
        # per first byte: element produced, bytes consumed, count increment
        for b in range(256):
            ev = Evaluator(p, 'ecdsa')
            rest = S('rest', type='bytes')
            if BUF is None:
                env = {params[0]: T.clsref(SCRIPT), STREAM: ev.new_stream(T.cat(T.const(bytes([b])), rest)),
                       CNT: T.const(0), CMDS: T.lst([]), LEN: ls}
                res, env2, facts2 = ev.eval_fragment('script.Script.parse', loop.body, env)
            else:
                # the buffer holds exactly the declared number of bytes (the prologue's read is checked below)
                buf = T.cat(T.const(bytes([b])), rest)
                env = {params[0]: T.clsref(SCRIPT), BUF: buf, CNT: T.const(0), CMDS: T.lst([]), LEN: ls}
                if HYBRID:
                    # the stream stands right behind the buffer it was read from
                    env[STREAM] = ev.new_stream(T.cat(buf, S('tail', type='bytes')), T.len_(buf))
                res, env2, facts2 = ev.eval_fragment('script.Script.parse', loop.body, env,
                                                     Facts().add(T.eq(T.len_(buf), ls)).add(T.lt(T.const(0), ls)))
            cm, cnt, st = env2.get(CMDS), env2.get(CNT), env2.get(STREAM)
            where = '%s:%d' % (fi.module.relpath, loop.lineno)
            if not (T.tag(cm) == 'list' and len(cm[1]) == 1 and (BUF is not None or T.is_op(st, 'STREAM'))):
                ob.undecided('first byte 0x%02x: loop body does not append exactly one command (%s)'
                             % (b, T.show(cm, maxdepth=3)), where)
                continue
            elem = _strip_raise(cm[1][0])
            if HYBRID and T.tag(elem) == 'phi':
                # an element completed from beyond the buffer appears only where the slice of the buffer came out shorter than
                # the command declares; the buffer holds exactly the declared number of bytes, so the new position lies behind
                # the declared length there and the epilogue refuses (C19.ACCT-FINAL) - those alternatives are not results
                def short_slice(c_):
                    return T.is_op(c_, 'LT') and T.is_op(c_[2], 'LEN') and T.is_op(c_[2][2], 'SLICE') \
                        and T.contains(c_[2][2], lambda y: y == rest)
                kept = [lf for cs_, lf in normal_leaves(elem) if not any(short_slice(c_) for c_ in cs_)]
                if len(kept) == 1:
                    ob.note('first byte 0x%02x: alternatives completed from the stream exist only past the declared length' % b)
                    elem = kept[0]
            consumed = ev.stream_state(st)[1] if BUF is None else None
            if 1 <= b <= 75:
                exp_elem = T.slice_(rest, T.const(0), T.const(b))
                exp_used = T.const(1 + b)
            elif b in (76, 77):
                w = b - 75
                Lf = T.int_(T.slice_(rest, T.const(0), T.const(w)), LITTLE)
                exp_elem = T.slice_(rest, T.const(w), T.add(T.const(w), Lf))
                exp_used = T.add(T.const(1 + w), Lf)
            else:
                exp_elem = T.const(b)
                exp_used = T.const(1)
            # a length-checked read has exactly the requested length: LEN(read) may stand for the requested count
            lens = {}
            for k_ in known_at(facts2, ()):
                if T.is_op(k_, 'EQ'):
                    for x_, y_ in ((k_[2], k_[3]), (k_[3], k_[2])):
                        if T.is_op(x_, 'LEN'):
                            lens[x_] = y_
            if lens:
                cnt = T.subst(cnt, lens)
                consumed = T.subst(consumed, lens) if consumed is not None else None
            same_term(ob, elem, exp_elem, 'first byte 0x%02x: parsed command' % b, where)
            if consumed is not None:
                same_term(oba, consumed, exp_used, 'first byte 0x%02x: bytes taken from the stream' % b, where)
            same_term(oba, _strip_raise(cnt) if BUF is not None else cnt, exp_used,
                      'first byte 0x%02x: %s' % (b, 'increment of the consumed-byte counter' if BUF is None else
                                                 'the position advances by the bytes the command declares (a slice that '
                                                 'runs past the end of the buffer is shorter than declared)'), where)
            if b in (0, 1, 2, 75, 76, 77, 78, 255):
                leaf_terms = [x for x in (cm, cnt) if x is not None]
                known = known_at(facts2, ())
                for r, n, fq, line in ev.reads:
                    if not _read_known(obr, r, n, '%s:%d' % (fi.module.relpath, line)):
                        continue
                    obr.require(_read_ok(ev, r, n, leaf_terms, known),
                                'stream read of %s byte(s) is used without a length check (input that ends early is '
                                'silently accepted)' % T.show(n, maxdepth=3),
                                '%s:%d' % (p.functions[fq].module.relpath if fq in p.functions else fi.module.relpath, line),
                                expected='guard LEN(data) == n that raises, or indexing-only use',
                                found=T.show(r, maxdepth=3))
        if BUF is not None:
            # the one read of the body must be checked against the declared length (evaluated for a declared length of 5:
            # marker byte below 0xfd, so that the read is one term and its length fact survives the joins)
            evp = Evaluator(p, 'ecdsa')
            rest = S('rest', type='bytes')
            resp, envp, factsp = evp.eval_fragment('script.Script.parse', pre,
                                                   {params[0]: T.clsref(SCRIPT), params[1]: evp.new_stream(T.cat(T.const(b'\x05'), rest))})
            body5 = T.slice_(rest, T.const(0), T.const(5))
            body_reads = [x for x in evp.reads if x[0] == body5]
            if not body_reads or _strip_raise(envp.get(BUF)) != body5:
                obr.undecided('the read that fills the script buffer was not recognised (declared length 5: %s)'
                              % T.show(envp.get(BUF), maxdepth=4))
            known0 = known_at(factsp, ())
            for r, n, fq, line in body_reads:
                obr.require(T.eq(T.len_(r), n) in known0, 'the script body is read without a length check (input that ends '
                            'early gives a shorter buffer than declared)', '%s:%d' % (fi.module.relpath, line),
                            expected='guard LEN(data) == n that raises', found=T.show(r, maxdepth=3))
        # opcode / first byte read on an unconstrained stream
        ev = Evaluator(p, 'ecdsa')
        D = S('D', type='bytes')
        env = {params[0]: T.clsref(SCRIPT), STREAM: ev.new_stream(D), CNT: T.const(0),
               CMDS: T.lst([]), LEN: ls}
        first = []
        if BUF is None:
            res, env2, facts2 = ev.eval_fragment('script.Script.parse', loop.body[:3], env)
            first = [x for x in ev.reads if x[0] == T.slice_(D, T.const(0), T.const(1))]
            if not first:
                obr.undecided('the opcode read of Script.parse was not recognised')
        for r, n, fq, line in first:
            terms_ = [v for k, v in env2.items() if k != STREAM]
            obr.require(_read_ok(ev, r, n, terms_, known_at(facts2, ())),
                        'opcode byte read is used without a length check', '%s:%d' % (fi.module.relpath, line))
    if LEN is None:
        return      # the loop state was not identified (reported above as UNDECIDED)
    _check_early_returns(ctx, fi, pre, LEN)
    # epilogue: count != length is refused, result wraps the command list
    # the reader refuses a standard push only for want of bytes: with a first byte 1..75 (or PUSHDATA1/2 announcing a length
    # the writer uses that form for) every refusing exit of the loop body must depend on how many bytes the stream still
    # holds - a refusal that depends on the element's *content* ("minimal push" rules stricter than the writer) breaks
    # parse(serialize(s)) == s
    if BUF is None:
        with ctx.obligation('C19.ACCEPT', 'Script.parse loop body', None, fi.where) as obc:
            for b in list(range(1, 76)) + [76, 77]:
                ev = Evaluator(p, 'ecdsa')
                rest = S('rest', type='bytes')
                facts0 = Facts()
                if b in (76, 77):
                    w = b - 75
                    Lf = T.int_(T.slice_(rest, T.const(0), T.const(w)), LITTLE)
                    lo_, hi_ = (76, 255) if b == 76 else (256, 520)
                    facts0 = facts0.add(T.not_(T.lt(Lf, T.const(lo_)))).add(T.lt(Lf, T.const(hi_ + 1)))
                env = {params[0]: T.clsref(SCRIPT), STREAM: ev.new_stream(T.cat(T.const(bytes([b])), rest)),
                       CNT: T.const(0), CMDS: T.lst([]), LEN: ls}
                try:
                    res, env2, facts2 = ev.eval_fragment('script.Script.parse', loop.body, env, facts0)
                except Exception:
                    continue
                obc.evaluations += 1
                if res is None or not isinstance(res, tuple):
                    continue
                for cs_, leaf in leaves(res):
                    if T.tag(leaf) != 'raise' or str(leaf[1]).startswith('<'):
                        continue
                    # the condition that decides this exit (the innermost one) is a test of how many bytes a read returned
                    short = bool(cs_) and T.contains(cs_[-1], lambda y: T.is_op(y, 'LEN') and T.contains(y, lambda z: z == rest))
                    obc.require(short, 'first byte 0x%02x: the loop body refuses a standard push for a reason other than the stream '
                                'ending early (the refusal depends on the element\'s content or on nothing at all): '
                                'Script.parse(Script([e]).serialize()) fails for such an element' % b,
                                '%s:%d' % (fi.module.relpath, loop.lineno),
                                found='%s when %s' % (leaf[1], ' and '.join(T.show(c_, maxdepth=4) for c_ in cs_[-3:]) or 'always'))
    with ctx.obligation('C19.ACCT-FINAL', 'Script.parse epilogue', None, fi.where) as ob:
        ev = Evaluator(p, 'ecdsa')
        cs, ls, cm = S('count', type='int'), S('length', type='int'), S('cmds', type='list')
        facts = Facts().add(T.not_(T.lt(cs, ls)))        # loop exit condition
        res, env2, f2 = ev.eval_fragment('script.Script.parse', post,
                                         {params[0]: T.clsref(SCRIPT), CNT: cs, LEN: ls, CMDS: cm}, facts)
        if res is FALL:
            ob.undecided('Script.parse has no return after the loop')
        else:
            nl = normal_leaves(res)
            ob.require(len(nl) >= 1, 'parse can return a script', fi.where)
            for conds, leaf in nl:
                known = known_at(f2, conds)
                exact = T.eq(cs, ls) in known or T.not_(T.lt(ls, cs)) in known
                ob.require(exact, 'a script is returned although the bytes consumed differ from the declared length',
                           fi.where, expected='guard count != length that raises', found=sorted(T.show(x) for x in known))
                ok = T.tag(leaf) == 'obj' and T.obj_fields(leaf).get('cmds') == cm
                ob.require(ok, 'the returned script holds the parsed command list', fi.where, found=T.show(leaf, maxdepth=3))
    # prologue: declared length is the CompactSize at the head of the stream
    with ctx.obligation('C19.PROLOGUE', 'Script.parse prologue', None, fi.where) as ob:
        ev = Evaluator(p, 'ecdsa')
        D = S('D', type='bytes')
        v, f = ev.call_function('helper.read_varint', [ev.new_stream(D)])
        same_term(ob, _strip_raise(env_pre[LEN]), T.subst(_strip_raise(v), {D: D0}),
                  'declared script length is read with read_varint from the same stream', fi.where)


def _bytes_evidence(part, raw, off, n_total, known):
    """Is the constant `part` known to sit at raw[off:off+len(part)]?  ('yes' | 'no' | 'unknown')"""
    c = part[1]
    need = set(range(off, off + len(c)))
    mentions = False
    for k in known:
        g = k[2] if T.is_op(k, 'BOOL') else k
        if T.is_op(g, 'STARTSWITH') and g[2] == raw and T.is_const(g[3]) and isinstance(g[3][1], bytes):
            mentions = True
            pre = g[3][1]
            for i in list(need):
                if i < len(pre) and pre[i] == c[i - off]:
                    need.discard(i)
        elif T.is_op(g, 'ENDSWITH') and g[2] == raw and T.is_const(g[3]) and isinstance(g[3][1], bytes):
            mentions = True
            suf = g[3][1]
            base = n_total - len(suf)
            for i in list(need):
                if i >= base and suf[i - base] == c[i - off]:
                    need.discard(i)
        elif T.is_op(g, 'EQ'):
            for x, y in ((g[2], g[3]), (g[3], g[2])):
                if T.is_const(y) and isinstance(y[1], bytes) and T.is_op(x, 'SLICE') and x[2] == raw and T.is_const(x[3]) \
                        and T.is_const(x[4]) and isinstance(x[3][1], int) and isinstance(x[4][1], int):
                    mentions = True
                    a = x[3][1]
                    for i in list(need):
                        if a <= i < x[4][1] and i - a < len(y[1]) and y[1][i - a] == c[i - off]:
                            need.discard(i)
                if T.is_const(y) and isinstance(y[1], int) and T.is_op(x, 'GETITEM') and x[2] == raw and T.is_const(x[3]):
                    mentions = True
                    i = x[3][1] + n_total if x[3][1] < 0 else x[3][1]
                    if i in need and y[1] == c[i - off]:
                        need.discard(i)
                if x == raw and T.is_const(y) and isinstance(y[1], bytes) and len(y[1]) == n_total:
                    mentions = True
                    for i in list(need):
                        if y[1][i] == c[i - off]:
                            need.discard(i)
        elif T.contains(g, lambda z: z == raw) and not (T.is_op(g, 'EQ') and T.len_(raw) in g[2:]):
            mentions = 'other'
    if not need:
        return 'yes', ()
    return ('unknown' if mentions == 'other' else 'no'), tuple(sorted(need))


def _check_early_returns(ctx, fi, pre, LEN):
    """A return of Script.parse in front of its decoding loop (a fast path) must hand out a script whose serialisation
    is exactly the bytes that were declared and read: otherwise input that merely resembles a template parses into a
    different script (or malformed input is accepted)."""
    p = ctx.p
    with ctx.obligation('C19.EARLY', 'Script.parse returns before the decoding loop', None, fi.where) as ob:
        summ = dict(__import__('sa.externals', fromlist=['x']).DEFAULT_SUMMARIES)
        L = S('declared_length', type='int')
        summ['helper.read_varint'] = lambda ev_, fi_, env, facts: (L, facts)
        ev = Evaluator(p, 'ecdsa', summaries=summ)
        D0 = S('D0', type='bytes')
        params = fi.params
        res, env_pre, facts_pre = ev.eval_fragment('script.Script.parse', pre, {params[0]: T.clsref(SCRIPT), params[1]: ev.new_stream(D0)})
        early = [] if res is FALL else [(cs, leaf) for cs, leaf in normal_leaves(res) if leaf is not FALL and leaf != FALL]
        if not early:
            ob.require(True, 'no return before the decoding loop', fi.where)
            return
        raws = [r for r, n, fq, line in ev.reads if n == L]
        if len(raws) != 1:
            ob.undecided('Script.parse returns before its decoding loop, but the read of the declared number of bytes was not '
                         'recognised (%d candidate reads)' % len(raws), fi.where)
            return
        raw = raws[0]
        for cs, leaf in early:
            known = known_at(facts_pre, cs)
            n = None
            # the size test may be written on the bytes read or - the read being length-checked - on the declared length
            size_terms = [T.len_(raw)] + ([L] if T.eq(T.len_(raw), L) in known else [])
            for k in known:
                if T.is_op(k, 'EQ') and any(zt in k[2:] for zt in size_terms):
                    o = k[3] if k[2] in size_terms else k[2]
                    if T.is_const(o) and isinstance(o[1], int):
                        n = o[1]
            if n is None or T.tag(leaf) != 'obj':
                ob.undecided('an early return of Script.parse is not tied to a fixed script size; cannot compare it with the bytes read: %s'
                             % T.show(leaf, maxdepth=3), fi.where)
                continue
            R = S('raw%d' % n, type='bytes', len=n)
            sub_n = {raw: R}
            if L in size_terms:
                sub_n[L] = T.const(n)       # the declared length is the size of this fast path as well
            leaf_n = T.subst(leaf, sub_n)
            known_n = {T.subst(k, sub_n) for k in known}
            e2 = Evaluator(p, 'ecdsa')
            ser, _ = e2.call_function('script.Script.raw_serialize', [leaf_n])
            ser = _strip_raise(ser)
            if T.length_of(ser) != n:
                if T.length_of(ser) is None:
                    ob.undecided('serialisation of the early-returned script is not computable: %s' % T.show(ser, maxdepth=4), fi.where)
                else:
                    ob.require(False, 'an early return hands out a script of %d serialised bytes for %d bytes of input'
                               % (T.length_of(ser), n), fi.where, found=T.show(leaf_n, maxdepth=4))
                continue
            parts = list(ser[2:]) if T.is_op(ser, 'CAT') else [ser]
            off = 0
            for part in parts:
                l = T.length_of(part)
                if part == T.slice_(R, T.const(off), T.const(off + l)):
                    ob.require(True, 'bytes [%d, %d) are the input bytes' % (off, off + l), fi.where)
                elif T.is_const(part) and isinstance(part[1], bytes):
                    verdict, missing = _bytes_evidence(part, R, off, n, known_n)
                    if verdict == 'unknown':
                        ob.undecided('%d-byte fast path: cannot tell whether input bytes %s are compared with the template' % (n, list(missing)), fi.where)
                    else:
                        ob.require(verdict == 'yes', 'the %d-byte fast path of Script.parse returns a script whose serialisation has %s at '
                                   'offset(s) %s, but those input bytes are never compared with it: input that only resembles the '
                                   'template parses into a different script, malformed input of that shape is accepted'
                                   % (n, part[1].hex(), list(missing)), fi.where, found=T.show(leaf_n, maxdepth=4))
                else:
                    ob.undecided('%d-byte fast path: serialised part %s is neither input bytes nor a constant' % (n, T.show(part, maxdepth=3)), fi.where)
                off += l


def _check_serialize(ctx):
    p = ctx.p
    fi = p.get_function('script.Script.serialize')
    with ctx.obligation('C19.SERIALIZE', 'Script.serialize', None, fi.where) as ob:
        raw = S('RAW', type='bytes')
        summ = dict(__import__('sa.externals', fromlist=['x']).DEFAULT_SUMMARIES)
        summ['script.Script.raw_serialize'] = lambda ev, fi_, env, facts: (raw, facts)
        for lo, hi, marker, width in wire.VARINT_CELLS:
            ev = Evaluator(p, 'ecdsa', summaries=summ)
            me = T.obj(SCRIPT, {'cmds': S('cmds', type='list')})
            v, f = ev.call_function('script.Script.serialize', [me], facts=_range_facts(T.len_(raw), lo, hi))
            exp = T.cat(T.const(marker), T.ser(T.len_(raw), T.const(width), LITTLE), raw)
            same_term(ob, v, exp, 'serialize() = CompactSize(len(raw)) || raw for len(raw) in [%s,%s]' % (hex(lo), hex(hi)),
                      fi.where)
    fi = p.get_function('script.Script.__eq__')
    with ctx.obligation('C19.EQ', 'Script.__eq__', None, fi.where) as ob:
        ev = Evaluator(p, 'ecdsa')
        a, b = S('a', type='list'), S('b', type='list')
        v, f = ev.call_function('script.Script.__eq__', [T.obj(SCRIPT, {'cmds': a}), T.obj(SCRIPT, {'cmds': b})])
        same_term(ob, v, T.eq(a, b), 'script equality compares the command lists', fi.where)


def run(ctx):
    ctx.explanation = (
        'R-PARTITION: Script.raw_serialize and encode_varint are abstractly evaluated once per elementary interval '
        'cell (cells are cut at every integer constant of the function +-1 and at the specification thresholds, so '
        'every comparison is decided inside a cell by the interval domain) and the symbolic result is compared with '
        'the specification term for that cell; the reader side (Script.parse loop body, read_varint) is evaluated '
        'for all 256 first-byte values against a symbolic stream: parsed element, bytes consumed and counter '
        'increment must be the specification terms (R-ACCT), every stream read must be length-checked (R-READ), '
        'the loop test / epilogue guard must make count == length necessary for a return.')
    ctx.not_decided = ['round-trip equality on values beyond the threshold tables (follows from reader/writer agreeing '
                       'cell by cell, not separately executed)', 'BytesIO semantics (trusted: read(n) returns at most n bytes)']
    _check_push(ctx)
    _check_varint_writer(ctx)
    _check_varint_reader(ctx)
    _check_script_reader(ctx)
    _check_serialize(ctx)
    _check_roundtrip(ctx)
