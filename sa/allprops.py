"""Run every property check on one tree in a single process and print {pid: exit code} as JSON (development sweeps)."""
import importlib, io, json, os, sys, contextlib


def run_all(repo, pids=None):
    os.environ['VERIF_NO_EVIDENCE'] = '1'
    from . import loader, report
    out = {}
    try:
        prog = loader.Program(repo)
    except Exception as e:
        return {'LOADER': 2, 'error': str(e)[:100]}
    for pid in pids or ['C%02d' % i for i in range(1, 21)]:
        try:
            ctx = report.Context(pid, 'quick', prog, 0)
            mod = importlib.import_module('sa.props.%s' % pid)
            with contextlib.redirect_stdout(io.StringIO()):
                mod.run(ctx)
                code, lines = ctx.finish()
            out[pid] = code
        except Exception as e:
            out[pid] = 2
    return out


if __name__ == '__main__':
    if os.environ.get('PYTHONHASHSEED') != '0':
        os.environ['PYTHONHASHSEED'] = '0'
        os.execv(sys.executable, [sys.executable, '-B', '-m', 'sa.allprops'] + sys.argv[1:])
    print(json.dumps(run_all(sys.argv[1], sys.argv[2:] or None)))
