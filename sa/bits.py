"""Bit-field normal form for straight-line bit manipulation (used by C04).

An integer built from other integers by shifts, masks, `|` of non-overlapping fields, byte indexing, and the textual
detour `bin(x)[2:]`, `zfill`, string slicing, `re.findall('.'*k, s)`, `int(s, 2)` is rewritten into a list of bit
fields  (source, hi, lo)  - "bits hi-1..lo of the integer `source`" - most significant first.  Two programs that select
the same bits of the same sources in the same order get the same normal form, whether they work on integers or on
strings of '0'/'1'.  Anything outside this fragment is left untouched (the comparison then reports it as not decided).

Representation (tuples, hashable):
    ('bv', width, (field, ...))        width = number of bits (an exact bit string / fixed-width value)
    field = ('s', source_term, hi, lo) | ('z', n) | ('c', value, n)
The value of a `bv` as an integer ignores leading zero fields; as a bit string it is exactly `width` characters.
"""
from __future__ import annotations

from . import terms as T

BIG = T.const('big')


def _merge(fields):
    out = []
    for f in fields:
        if f[0] == 'z' and f[1] == 0:
            continue
        if f[0] == 's' and f[2] == f[3]:
            continue
        if f[0] == 'c' and f[2] == 0:
            continue
        if out:
            g = out[-1]
            if f[0] == 'z' and g[0] == 'z':
                out[-1] = ('z', g[1] + f[1])
                continue
            if f[0] == 's' and g[0] == 's' and g[1] == f[1] and g[3] == f[2]:
                out[-1] = ('s', g[1], g[2], f[3])
                continue
            if f[0] == 'c' and g[0] == 'c':
                out[-1] = ('c', (g[1] << f[2]) | f[1], g[2] + f[2])
                continue
        out.append(f)
    return tuple(out)


def _width(fields):
    n = 0
    for f in fields:
        n += f[1] if f[0] == 'z' else (f[2] - f[3] if f[0] == 's' else f[2])
    return n


def _fw(f):
    return f[1] if f[0] == 'z' else (f[2] - f[3] if f[0] == 's' else f[2])


def mk(fields):
    fields = _merge(fields)
    return ('bv', _width(fields), fields)


def _take_low(fields, k):
    """the k least significant bits"""
    out = []
    need = k
    for f in reversed(fields):
        if need <= 0:
            break
        if f[0] == 'z':
            n = min(f[1], need)
            out.append(('z', n))
        elif f[0] == 's':
            n = min(f[2] - f[3], need)
            out.append(('s', f[1], f[3] + n, f[3]))
        elif f[0] == 'x':
            n = 1
            out.append(f)
        else:
            n = min(f[2], need)
            out.append(('c', f[1] & ((1 << n) - 1), n))
        need -= n
    if need > 0:
        out.append(('z', need))
    return list(reversed(out))


def _drop_low(fields, k):
    out = []
    drop = k
    for f in reversed(fields):
        w = f[1] if f[0] == 'z' else (f[2] - f[3] if f[0] == 's' else f[2])
        if drop >= w:
            drop -= w
            continue
        if drop > 0:
            if f[0] == 'z':
                f = ('z', f[1] - drop)
            elif f[0] == 's':
                f = ('s', f[1], f[2], f[3] + drop)
            elif f[0] == 'c':
                f = ('c', f[1] >> drop, f[2] - drop)
            drop = 0
        out.append(f)
    return list(reversed(out))


def _take_high(fields, k):
    w = _width(fields)
    return _drop_low(fields, max(w - k, 0))


def _bytes_source(b):
    """(source integer term, total bits) for a bytes-valued term of known length"""
    n = T.length_of(b)
    if n is None or T.type_of(b) not in ('bytes', None):
        return None
    if T.is_op(b, 'SLICE') and T.is_const(b[3]) and T.is_const(b[4]) and isinstance(b[3][1], int) and isinstance(b[4][1], int):
        inner = _bytes_source(b[2])
        if inner is not None:
            src, tot, hi, lo = inner
            m = (hi - lo) // 8
            a, e = b[3][1], b[4][1]
            if 0 <= a <= e <= m:
                return src, tot, hi - 8 * a, hi - 8 * e
    return T.int_(b, BIG), 8 * n, 8 * n, 0


def to_bv(t, _depth=0):
    """bit-field form of an int-valued or bit-string-valued term, or None"""
    if _depth > 40 or not isinstance(t, tuple):
        return None
    if isinstance(t, tuple) and t and t[0] == 'bv':
        return t
    if T.is_const(t) and isinstance(t[1], int) and not isinstance(t[1], bool) and t[1] >= 0:
        n = max(t[1].bit_length(), 1)
        return mk([('c', t[1], n)]) if t[1] else mk([('z', 1)])
    if T.is_const(t) and isinstance(t[1], str) and t[1] and set(t[1]) <= {'0', '1'}:
        return mk([('c', int(t[1], 2), len(t[1]))]) if int(t[1], 2) else mk([('z', len(t[1]))])
    if T.is_op(t, 'INT') and len(t) == 4 and t[3] == BIG:
        s = _bytes_source(t[2])
        if s is not None:
            src, tot, hi, lo = s
            return mk([('s', src, hi, lo)])
    if T.is_op(t, 'GETITEM') and T.is_const(t[3]) and isinstance(t[3][1], int) and T.type_of(t[2]) == 'bytes':
        n = T.length_of(t[2])
        if n is not None:
            i = t[3][1] + n if t[3][1] < 0 else t[3][1]
            s = _bytes_source(T.slice_(t[2], T.const(i), T.const(i + 1))) if 0 <= i < n else None
            if s is not None:
                src, tot, hi, lo = s
                return mk([('s', src, hi, lo)])
    if T.is_op(t, 'LSHIFT') and T.is_const(t[3]) and isinstance(t[3][1], int) and t[3][1] >= 0:
        a = to_bv(t[2], _depth + 1)
        if a is not None:
            return mk(list(a[2]) + [('z', t[3][1])])
    if T.is_op(t, 'RSHIFT') and T.is_const(t[3]) and isinstance(t[3][1], int) and t[3][1] >= 0:
        a = to_bv(t[2], _depth + 1)
        if a is not None:
            return mk(_drop_low(list(a[2]), t[3][1]))
    if T.is_op(t, 'BITAND'):
        for x, m in ((t[2], t[3]), (t[3], t[2])):
            if T.is_const(m) and isinstance(m[1], int) and m[1] >= 0 and (m[1] + 1) & m[1] == 0:
                a = to_bv(x, _depth + 1)
                if a is not None:
                    return mk(_take_low(list(a[2]), m[1].bit_length()))
    if T.is_op(t, 'MOD') and T.is_const(t[3]) and isinstance(t[3][1], int) and t[3][1] > 0 and t[3][1] & (t[3][1] - 1) == 0:
        a = to_bv(t[2], _depth + 1)
        if a is not None:
            return mk(_take_low(list(a[2]), t[3][1].bit_length() - 1))
    if T.is_op(t, 'FLOORDIV') and T.is_const(t[3]) and isinstance(t[3][1], int) and t[3][1] > 0 and t[3][1] & (t[3][1] - 1) == 0:
        a = to_bv(t[2], _depth + 1)
        if a is not None:
            return mk(_drop_low(list(a[2]), t[3][1].bit_length() - 1))
    if T.is_op(t, 'MUL'):
        for x, m in ((t[2], t[3]), (t[3], t[2])):
            if T.is_const(m) and isinstance(m[1], int) and m[1] > 0 and m[1] & (m[1] - 1) == 0:
                a = to_bv(x, _depth + 1)
                if a is not None:
                    return mk(list(a[2]) + [('z', m[1].bit_length() - 1)])
    if T.is_op(t, 'BITOR') or T.is_op(t, 'ADD') or T.is_op(t, 'BITXOR'):
        parts = [to_bv(x, _depth + 1) for x in t[2:]]
        if all(p is not None for p in parts):
            return _overlay(parts)
    if T.is_op(t, 'INTCAST') and len(t) == 4 and t[3] == T.const(2):
        a = to_bits(t[2], _depth + 1)
        if a is not None:
            return a
    return None


def _overlay(parts):
    """x | y (or x + y, x ^ y) when no bit position is populated by more than one operand"""
    w = max(p[1] for p in parts)
    grid = None
    for p in parts:
        fields = [('z', w - p[1])] + list(p[2])
        cells = []
        for f in fields:
            n = f[1] if f[0] == 'z' else (f[2] - f[3] if f[0] == 's' else f[2])
            for j in range(n):
                if f[0] == 'z':
                    cells.append(None)
                elif f[0] == 'x':
                    cells.append(('x', f[1], None))
                elif f[0] == 's':
                    cells.append(('s', f[1], f[2] - j))          # bit index hi-j-1 .. identify by (src, hi-j)
                else:
                    bit = (f[1] >> (n - 1 - j)) & 1
                    cells.append(('c', bit) if bit else None)
        if grid is None:
            grid = cells
        else:
            for i, c in enumerate(cells):
                if c is not None:
                    if grid[i] is not None:
                        # two operands populate the same position: that bit is a mixture of both, not a selected bit
                        grid[i] = ('x', grid[i], c)
                    else:
                        grid[i] = c
        if len(grid) > 4096:
            return None
    fields = []
    for c in grid:
        if c is None:
            fields.append(('z', 1))
        elif c[0] == 's':
            fields.append(('s', c[1], c[2], c[2] - 1))
        elif c[0] == 'x':
            fields.append(('x', repr(c)[:200], 1))
        else:
            fields.append(('c', 1, 1))
    return mk(fields)


def to_bits(t, _depth=0):
    """fixed-width bit-string form of a str-valued term of '0'/'1' characters, or None.
    `bin(x)[2:]` alone has no fixed width; it gets one from an enclosing zfill."""
    if _depth > 40 or not isinstance(t, tuple):
        return None
    if t and t[0] == 'bv':
        return t
    if T.is_const(t) and isinstance(t[1], str) and set(t[1]) <= {'0', '1'}:
        return to_bv(t) if t[1] else mk([])
    if T.is_op(t, 'ZFILL') and T.is_const(t[3]) and isinstance(t[3][1], int):
        w = t[3][1]
        inner = t[2]
        # zfill(minbits(x) ++ fixed, W): x padded to W - len(fixed) bits, when x fits
        head, tail = inner, []
        if T.is_op(inner, 'CAT'):
            head, tail = inner[2], list(inner[3:])
        tb = [to_bits(x, _depth + 1) for x in tail]
        if any(x is None for x in tb):
            return None
        tw = sum(x[1] for x in tb)
        m = _minbits(head, _depth + 1)
        if m is not None and m[1] <= w - tw:
            fields = [('z', w - tw - m[1])] + list(m[2])
            for x in tb:
                fields += list(x[2])
            return mk(fields)
        hb = to_bits(head, _depth + 1)
        if hb is not None:
            fields = [('z', max(w - tw - hb[1], 0))] + list(hb[2])
            for x in tb:
                fields += list(x[2])
            return mk(fields)
        return None
    if T.is_op(t, 'CAT'):
        parts = [to_bits(x, _depth + 1) for x in t[2:]]
        if all(p is not None for p in parts):
            fields = []
            for p in parts:
                fields += list(p[2])
            return mk(fields)
        return None
    if T.is_op(t, 'SLICE') and T.is_const(t[3]) and T.is_const(t[4]):
        a = to_bits(t[2], _depth + 1)
        if a is not None:
            w = a[1]
            lo = t[3][1] or 0
            hi = w if t[4][1] is None else t[4][1]
            if lo < 0:
                lo += w
            if hi < 0:
                hi += w
            lo, hi = max(0, min(lo, w)), max(0, min(hi, w))
            if hi < lo:
                hi = lo
            return mk(_take_low(_take_high(list(a[2]), hi), hi - lo))
        return None
    if T.is_op(t, 'FORMATB') and T.is_const(t[3]) and isinstance(t[3][1], int):
        # format(x, '0Wb')
        m = to_bv(t[2], _depth + 1)
        if m is not None and m[1] <= t[3][1]:
            return mk([('z', t[3][1] - m[1])] + list(m[2]))
    return None


def _minbits(t, _depth):
    """bin(x)[2:] -> the bit fields of x (an upper bound of its width is what matters to the enclosing zfill)"""
    if T.is_op(t, 'SLICE') and t[3] == T.const(2) and t[4] == T.NONE and T.is_op(t[2], 'BIN'):
        return to_bv(t[2][2], _depth + 1)
    if T.is_op(t, 'FORMATB') and (len(t) == 3 or t[3] == T.NONE):
        return to_bv(t[2], _depth + 1)
    return None


def strip_int(bv):
    """integer value: leading zero fields are irrelevant"""
    fields = list(bv[2])
    while fields and fields[0][0] == 'z':
        fields.pop(0)
    return ('op', 'BVINT') + tuple(fields)


def chunks(bv, k):
    """re.findall('.'*k, s) on a fixed-width bit string: floor(width / k) chunks from the left"""
    out = []
    fields = list(bv[2])
    w = bv[1]
    for i in range(w // k):
        hi = w - i * k
        out.append(mk(_take_low(_take_high(fields, i * k + k), k)))
    return out


def normalize(t, _depth=0):
    """Rewrite every maximal sub-term that the bit-field fragment understands; everything else structurally."""
    if not isinstance(t, tuple) or _depth > 60:
        return t
    k = T.tag(t)
    if k == 'op':
        if t[1] == 'MAP' and T.is_op(t[4], 'REFINDALL') and T.is_const(t[4][2]) and isinstance(t[4][2][1], str) \
                and set(t[4][2][1]) == {'.'}:
            s = to_bits(t[4][3])
            if s is not None:
                items = [T.subst(t[3], {t[2]: c}) for c in chunks(s, len(t[4][2][1]))]
                return T.lst([normalize(x, _depth + 1) for x in items])
        if t[1] == 'REFINDALL' and T.is_const(t[2]) and isinstance(t[2][1], str) and set(t[2][1]) == {'.'}:
            s = to_bits(t[3])
            if s is not None:
                return T.lst(chunks(s, len(t[2][1])))
        if T.type_of(t) in ('int', None) or t[1] in ('INTCAST', 'BITAND', 'BITOR', 'RSHIFT', 'LSHIFT', 'GETITEM'):
            b = to_bv(t)
            if b is not None and any(f[0] in ('s', 'x') for f in b[2]):
                return strip_int(b)
        r = ('op', t[1]) + tuple(normalize(x, _depth + 1) if isinstance(x, tuple) else x for x in t[2:])
        if r[1] == 'JOIN' and len(r) == 4 and T.is_const(r[2]) and T.tag(r[3]) in ('list', 'tuple'):
            # a join over a fixed number of pieces is their concatenation with the separator in between (the form the
            # evaluator gives when it knows the pieces are text)
            out = []
            for i, x in enumerate(r[3][1]):
                if i:
                    out.append(r[2])
                out.append(x)
            return ('op', 'CAT') + tuple(out) if out else r[2]
        return r
    if k in ('list', 'tuple'):
        return (k, tuple(normalize(x, _depth + 1) for x in t[1]))
    if k == 'phi':
        return T.phi(t[1], normalize(t[2], _depth + 1), normalize(t[3], _depth + 1))
    return t
