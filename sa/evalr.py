"""Syntax-directed abstract evaluator: maps repository functions to value terms (sa.terms).

No path enumeration and no solver: an `if` on a non-constant condition evaluates both arms and joins
the environments with Phi terms; guard facts (conditions whose other arm leaves the function) are
accumulated as must-facts.  `try: … except NameError: …` is split per crypto back end (DESIGN 3.2).
Loops are unrolled only over fixed-shape sequences; any other loop poisons what it assigns (Opaque).
"""
from __future__ import annotations

import ast

from . import terms as T
from .loader import Program, FunctionInfo, ClassInfo, ModuleInfo, AnalysisError, PKG
from . import externals as X

MAX_DEPTH = 40
UNROLL_BOUND = 4096


class NameErrorSignal(Exception):
    """A name that does not exist in the selected back end was looked up."""

    def __init__(self, name):
        super().__init__(name)
        self.name = name


class _Return(Exception):
    pass


class Facts:
    """Set of boolean terms known to hold (must-facts).  Kept in insertion order (a dict), so that everything that walks
    the facts does so in an order that depends on the analysed source only - never on the interpreter's hash seed."""
    __slots__ = ('items',)

    def __init__(self, items=()):
        self.items = dict.fromkeys(items)

    def add(self, t):
        if t == T.TRUE:
            return self
        new = dict(self.items)
        for x in _split_and(t):
            new[x] = None
        f = Facts()
        f.items = new
        return f

    def meet(self, other):
        f = Facts()
        f.items = {k: None for k in self.items if k in other.items}
        return f

    def union(self, other):
        f = Facts()
        f.items = dict(self.items)
        for k in other.items:
            f.items[k] = None
        return f

    def __contains__(self, t):
        return t in self.items

    def __iter__(self):
        return iter(self.items)

    def __len__(self):
        return len(self.items)


def _split_and(t):
    if T.is_op(t, 'AND'):
        out = []
        for x in t[2:]:
            out.extend(_split_and(x))
        return out
    # not(a or b) == not a and not b
    if T.is_op(t, 'NOT') and T.is_op(t[2], 'OR'):
        out = []
        for x in t[2][2:]:
            out.extend(_split_and(T.not_(x)))
        return out
    return [t]


class Outcome:
    """Result of evaluating a block: the value returned (a term, possibly Phi with RAISE leaves),
    or None when control falls through."""
    __slots__ = ('ret', 'cond')


class Frame:
    __slots__ = ('fn', 'env', 'facts', 'module', 'cls', 'depth', 'yields', 'effects', 'ret_facts', 'mutated', 'shallow')

    def __init__(self, fn, env, facts, module, cls, depth):
        self.fn = fn
        self.env = env
        self.facts = facts
        self.module = module
        self.cls = cls
        self.depth = depth
        self.yields = []
        self.effects = []
        self.ret_facts = []
        self.mutated = set()      # local names whose value was mutated in place (method call, item / attribute store)
        self.shallow = {}         # name -> name it is a shallow copy of (list(x), x[:], x.copy()): the ELEMENTS are shared


FALL = ('fall',)     # block completed normally


def is_class_setting(ci, name):
    node = ci.attrs.get(name)
    if node is None or name.isupper() or name.startswith('_') or (ci.slots is not None and name in ci.slots):
        return False
    if isinstance(node, ast.Constant) and isinstance(node.value, bool):
        return True
    # an empty tuple / list as a class-level default: an extension point the user fills (extra columns, hooks)
    return isinstance(node, (ast.Tuple, ast.List)) and not node.elts


def class_settings(program):
    return sorted('%s.%s' % (ci.name, nm) for ci in program.classes.values() for nm in ci.attrs if is_class_setting(ci, nm))


class LiveEnv:
    """The environment a closure sees: the defining frame's variables *at call time* plus the cells of the comprehensions
    that enclosed its creation (updated while those run, kept afterwards)."""
    __slots__ = ('frame', 'cells')

    def __init__(self, frame, cells):
        self.frame, self.cells = frame, cells

    def current(self):
        if not self.cells:
            return self.frame.env
        env = dict(self.frame.env)
        for c in self.cells:
            env.update(c)
        return env


class Evaluator:
    TRACE = set()          # qualified names of every package function consulted by any evaluator instance
    DOMAIN = ()            # facts about the checks' symbolic inputs (e.g. "k is a valid scalar"); part of every evaluation

    def __init__(self, program: Program, backend='ecdsa', summaries=None, trace=False):
        assert backend in ('secp', 'ecdsa')
        self.p = program
        self.backend = backend
        self.secp_names, self.ecdsa_names = program.backend_names()
        self.summaries = X.DEFAULT_SUMMARIES.copy() if summaries is None else summaries
        self.calls = []        # (caller qual, callee qual) trace of inlined calls
        self.effects = []      # recorded non-local effects
        self.notes = []
        self.raised_facts = {}
        self._modconst_cache = {}
        self._stack = []
        self.reads = []
        self.asserts = []
        self.steps = 0
        T.PHI_BUDGET[0] = 0
        self.exits = []
        self.sinks = []
        self.step_budget = 400000
        self.heap = {}         # stream id -> (data term, position term)
        self.domain = tuple(Evaluator.DOMAIN)

    # ------------------------------------------------------------------ public API
    def call_function(self, qual, args=(), kwargs=None, facts=None, self_term=None):
        """Abstractly call package function `qual` ('bip32.PrvKeyNode.ckd').  Returns (value term, Facts)."""
        fi = self.p.get_function(qual)
        facts = self._with_domain(facts)
        args = list(args)
        if self_term is not None:
            args = [self_term] + args
        # dynamic dispatch: a method named through a base class runs the receiver's own override
        if fi.cls is not None and fi.kind in ('method', 'property') and args and T.tag(args[0]) == 'obj':
            ci = self.p.classes.get(args[0][1])
            if ci is not None and fi.cls in ci.mro():
                m = ci.find_method(fi.name)
                if m is not None and m is not fi:
                    fi = m
        v, f2 = self._invoke(fi, args, dict(kwargs or {}), facts, depth=0)
        if facts is not None and facts.items and T.tag(v) == 'phi':
            # alternatives that the caller's own assumptions exclude (a table look-up is a case analysis built as a value:
            # no branch was taken, so nothing pruned it) do not belong to the result
            known = set(facts.items)
            try:
                v = T.assume(v, known)
            except T.BudgetExceeded:
                pass
        return v, f2

    def construct(self, clsqual, args=(), kwargs=None, facts=None):
        ci = self.p.get_class(clsqual)
        return self._construct(ci, list(args), dict(kwargs or {}), self._with_domain(facts), 0)

    def _with_domain(self, facts):
        facts = facts or Facts()
        if self.domain:
            facts = facts.union(Facts(self.domain))
        return facts

    def new_iter(self, items):
        """A one-shot iterator (generator, map object, iter(...)) over the given items: a heap cell holding what is left.
        Whoever iterates it takes everything that is left; a second pass sees nothing."""
        sid = len(self.heap) + 1
        self.heap[sid] = (T.lst(list(items)), T.const(0))
        return T.raw_op('ITER', T.const(sid))

    def _consume(self, v):
        """the items an iteration over `v` sees; for a one-shot iterator this exhausts it"""
        if T.tag(v) == 'cls':
            ci = self.p.classes.get(v[1])
            if ci is not None and ci.is_enum:
                # iterating an Enum class: its members in definition order (aliases are skipped)
                seen, out = [], []
                for _n, m in self._enum_members(ci, 0):
                    if m not in seen:
                        seen.append(m)
                        out.append(m)
                return T.lst(out)
        if not T.is_op(v, 'ITER'):
            return v
        data, pos = self.heap[v[2][1]]
        if T.is_op(data, 'MAP') and T.is_const(pos):
            # a symbolic sequence: all of it on the first pass, nothing afterwards
            self.heap[v[2][1]] = (data, T.const(-1))
            return data if pos[1] == 0 else T.lst([])
        if not (T.tag(data) == 'list' and T.is_const(pos)):
            return T.opaque('one-shot iterator in an undetermined state')
        self.heap[v[2][1]] = (data, T.const(len(data[1])))
        return T.lst(list(data[1][pos[1]:]))

    def new_stream(self, data, pos=None):
        sid = len(self.heap) + 1
        self.heap[sid] = (data, pos if pos is not None else T.const(0))
        return T.raw_op('STREAM', T.const(sid))

    def stream_state(self, st):
        return self.heap[st[2][1]]

    def eval_fragment(self, qual, stmts, env, facts=None):
        """Evaluate a statement list taken from function `qual` in the given environment.
        Returns (outcome, env, facts)."""
        fi = self.p.get_function(qual)
        fr = Frame(fi, dict(env), self._with_domain(facts), fi.module, fi.cls, 0)
        self._stack.append(qual)
        try:
            res = self.block(stmts, fr)
        finally:
            self._stack.pop()
        return res, fr.env, fr.facts

    def module_const(self, modname, name):
        mi = self.p.get_module(modname)
        return self._module_name(mi, name, 0)

    # ------------------------------------------------------------------ invocation
    def _bind(self, fi, args, kwargs, frame_facts, depth, where='?'):
        params = list(fi.params)
        env = {}
        # positional arguments fill the positional parameters only; what is left goes to *args (keyword-only parameters
        # are never filled by position)
        npos = len(fi.node.args.posonlyargs) + len(fi.node.args.args)
        if len(args) > npos and fi.node.args.vararg is None:
            return None
        for p, a in zip(params[:npos], args):
            env[p] = a
        if fi.node.args.vararg is not None:
            env[fi.node.args.vararg.arg] = T.tup(args[npos:])
        for k, v in kwargs.items():
            if k in env or k not in params:
                if fi.node.args.kwarg is None:
                    return None
                continue
            env[k] = v
        for p in params:
            if p not in env:
                if p in fi.defaults:
                    fr = Frame(fi, {}, frame_facts, fi.module, fi.cls, depth)
                    env[p] = self.expr(fi.defaults[p], fr)
                else:
                    return None
        return env

    def _invoke(self, fi, args, kwargs, facts, depth):
        if depth > MAX_DEPTH:
            return T.opaque('inline depth exceeded at %s' % fi.qual), facts
        key = fi.qual[len(PKG) + 1:] if fi.qual.startswith(PKG + '.') else fi.qual
        Evaluator.TRACE.add(fi.qual)
        if self._stack:
            self.calls.append((self._stack[-1], key))
        else:
            self.calls.append((None, key))
        if key in self.summaries:
            env = self._bind(fi, args, kwargs, facts, depth)
            if env is None:
                return T.raise_('TypeError'), facts
            return self.summaries[key](self, fi, env, facts)
        # recursion: representation methods recurse along a finite parent chain (bounded by the term); any other
        # recursive function is followed three levels deep and is then unknown (UNDECIDED where it matters)
        if self._stack.count(key) >= (12 if key.endswith(('__repr__', '__str__')) else 3):
            return T.opaque('recursion in %s' % key), facts
        # decorators defined in the package are applied (the wrapper is what callers get); classmethod / staticmethod /
        # property are dispatch kinds, functools.wraps is metadata
        decs = [d for d in fi.node.decorator_list
                if ast.unparse(d.func if isinstance(d, ast.Call) else d) not in _PLAIN_DECORATORS
                and not ast.unparse(d).endswith(('.setter', '.getter'))]
        if decs:
            if not hasattr(self, '_decorating'):
                self._decorating, self._decorated = set(), {}
            if fi.qual not in self._decorating:
                frm = Frame(None, {}, facts, fi.module, fi.cls, depth)
                self._decorating.add(fi.qual)
                try:
                    wrapped = self._decorated.get(fi.qual)
                    if wrapped is None:
                        wrapped = T.funcref(fi.qual)
                        for d in reversed(decs):
                            wrapped = self.apply(self.expr(d, frm), [wrapped], {}, frm, None)
                        self._decorated[fi.qual] = wrapped
                    if T.tag(wrapped) not in ('closure', 'func', 'bound'):
                        return T.opaque('decorator of %s does not evaluate to a function: %s' % (key, T.show(wrapped, maxdepth=2))), facts
                    self._param_mut = {}
                    v = self.apply(wrapped, list(args), dict(kwargs), frm, None)
                    pm = dict(getattr(self, '_param_mut', None) or {})
                    # the wrapper's first parameter is the receiver: hand its in-place changes on under the method's own name
                    if pm and T.tag(wrapped) == 'closure' and fi.params:
                        e_ = self._closures[wrapped[1]][0]
                        wn = [x.arg for x in e_.args.args]
                        if wn and wn[0] in pm:
                            self._param_mut = {fi.params[0]: pm[wn[0]]}
                            self._param_mut_fi = fi
                    return v, frm.facts
                finally:
                    self._decorating.discard(fi.qual)
        env = self._bind(fi, args, kwargs, facts, depth)
        if env is None:
            return T.raise_('TypeError'), facts
        fr = Frame(fi, dict(env), facts, fi.module, fi.cls, depth)
        self._stack.append(key)
        try:
            if _is_generator(fi.node):
                if not _simple_generator(fi.node):
                    return T.opaque('generator %s' % key), facts
                # a generator whose yields sit at the top level of its body or in top-level `for` loops: calling it gives
                # a one-shot iterator over what it yields (the body runs when the iterator is consumed; for what this
                # analysis observes - the values, once - running it now is the same, except that a second pass is empty)
                fr.yields = []
                res = self.block(fi.node.body, fr)
                ys = fr.yields
                if len(ys) == 1 and T.is_op(ys[0], 'MAP'):
                    it_ = self.new_iter([])
                    self.heap[it_[2][1]] = (ys[0], T.const(0))
                else:
                    if any(T.is_op(y, 'MAP') for y in ys):
                        return T.opaque('generator %s mixes loops and single yields' % key), facts
                    it_ = self.new_iter(ys)
                if res is FALL:
                    return it_, fr.facts
                return _map_leaves(res, lambda x: x if T.tag(x) == 'raise' else it_), fr.facts
            res = self.block(fi.node.body, fr)
        finally:
            self._stack.pop()
        # in-place mutation of an argument is visible to the caller (apply() writes it back to a plain variable)
        self._param_mut = {q: fr.env[q] for q in fi.params if q in fr.mutated and q in fr.env and fr.env[q] != env.get(q, None)} \
            if fr.mutated else {}
        self._param_mut_fi = fi
        exits = list(fr.ret_facts)
        if res is FALL or _has_fall(res):
            exits.append(fr.facts)
        out_facts = fr.facts
        if exits:
            out_facts = exits[0]
            for x in exits[1:]:
                out_facts = out_facts.meet(x)
        if res is FALL:
            res = T.NONE
        else:
            res = _strip_fall(res, T.NONE)
        return res, out_facts

    def _write_back(self, fi, offset, node, fr):
        """Arguments are passed by reference: what the callee did to a mutable argument in place is what the caller's
        variable holds afterwards.  Only plain variables are written back; anything else is recorded as an effect."""
        pm = getattr(self, '_param_mut', None)
        if not pm or getattr(self, '_param_mut_fi', None) is not fi:
            self._param_mut = {}
            return
        self._param_mut = {}
        if node is None or not isinstance(node, ast.Call):
            return
        for q, val in pm.items():
            i = fi.params.index(q)
            arg = None
            if offset and i == 0:
                arg = node.func.value if isinstance(node.func, ast.Attribute) else None
            elif 0 <= i - offset < len(node.args) and not any(isinstance(a, ast.Starred) for a in node.args[:i - offset + 1]):
                arg = node.args[i - offset]
            else:
                for kw in node.keywords:
                    if kw.arg == q:
                        arg = kw.value
            if isinstance(arg, ast.Name) and arg.id in fr.env:
                fr.env[arg.id] = val
                fr.mutated.add(arg.id)
            elif arg is not None:
                self.effects.append(('argument-mutated', fr.fn.qual if fr.fn else None, node.lineno, ast.unparse(arg)))

    def _write_back_closure(self, callee, node, fr):
        pm = getattr(self, '_param_mut', None)
        if node is None:
            return          # an internal application (decorator): the caller of that reads the record itself
        if not pm or getattr(self, '_param_mut_fi', None) is not callee or not isinstance(node, ast.Call):
            self._param_mut = {}
            return
        self._param_mut = {}
        e = self._closures[callee[1]][0]
        names = [x.arg for x in e.args.args]
        for q, val in pm.items():
            i = names.index(q)
            arg = node.args[i] if i < len(node.args) and not any(isinstance(a, ast.Starred) for a in node.args[:i + 1]) else None
            if arg is None:
                for kw in node.keywords:
                    if kw.arg == q:
                        arg = kw.value
            if isinstance(arg, ast.Name) and arg.id in fr.env:
                fr.env[arg.id] = val
                fr.mutated.add(arg.id)

    def _construct(self, ci, args, kwargs, facts, depth):
        if ci.is_enum:
            # Enum(value) lookup
            if len(args) == 1:
                return self._enum_by_value(ci, args[0], depth), facts
            return T.opaque('enum call'), facts
        init = ci.find_method('__init__')
        me = T.obj(ci.qual, {})
        if init is None and ci.is_record and ci.fields:
            # typing.NamedTuple / dataclass: the generated constructor takes the annotated fields in order
            names = [n for n, _ in ci.fields]
            vals = {}
            if len(args) > len(names) or any(k not in names for k in kwargs):
                return T.raise_('TypeError'), facts
            for n, a in zip(names, args):
                vals[n] = a
            for k, a in kwargs.items():
                if k in vals:
                    return T.raise_('TypeError'), facts
                vals[k] = a
            fr0 = Frame(None, {}, facts, ci.module, ci, depth)
            for n, d in ci.fields:
                if n not in vals:
                    if d is None:
                        return T.raise_('TypeError'), facts
                    vals[n] = self.expr(d, fr0)
            return T.obj(ci.qual, vals), facts
        if init is None:
            return me, facts
        key = init.qual[len(PKG) + 1:]
        Evaluator.TRACE.add(init.qual)
        self.calls.append((self._stack[-1] if self._stack else None, key))
        env = self._bind(init, [me] + args, kwargs, facts, depth)
        if env is None:
            return T.raise_('TypeError'), facts
        fr = Frame(init, env, facts, init.module, init.cls, depth)
        self._stack.append(key)
        try:
            res = self.block(init.node.body, fr)
        finally:
            self._stack.pop()
        selfname = init.params[0]
        out = fr.env.get(selfname, me)
        if res is not FALL:
            # __init__ may raise on some paths
            out = _replace_fall(res, out)
        return out, fr.facts

    def _enum_members(self, ci, depth):
        out = []
        fr = Frame(None, {}, Facts(), ci.module, ci, depth)
        for name, valnode in ci.enum_members:
            v = self.expr(valnode, fr)
            alias = None
            for m in out:
                if m[3] == v:
                    alias = m
                    break
            out.append(alias if alias is not None else T.enum_member(ci.qual, name, v))
        return list(zip([n for n, _ in ci.enum_members], out))

    def _enum_by_value(self, ci, v, depth):
        if T.tag(v) == 'enum' and v[1] == ci.qual:
            return v
        members = self._enum_members(ci, depth)
        if T.is_const(v):
            for _, m in members:
                if m[3] == v:
                    return m
            return T.raise_('ValueError')
        if T.tag(v) == 'phi':
            return T.phi(v[1], self._enum_by_value(ci, v[2], depth), self._enum_by_value(ci, v[3], depth))
        return T.raw_op('ENUM', T.clsref(ci.qual), v)

    # ------------------------------------------------------------------ statements
    def block(self, stmts, fr):
        """Evaluate statements.  Returns FALL if control falls through on every path, otherwise a term
        in which the leaf ('fall',) marks paths that fall through (handled by the caller through
        _seq)."""
        for i, st in enumerate(stmts):
            res = self.stmt(st, fr)
            if isinstance(st, ast.Assign) and (res is FALL or _has_fall(res)) and i + 1 < len(stmts):
                names = [n.id for t in st.targets for n in ast.walk(t) if isinstance(n, ast.Name)]
                if any(_is_dispatch(fr.env.get(n)) for n in names):
                    rest = self._case_split(names, stmts[i + 1:], fr)
                    if res is FALL:
                        return rest
                    return _replace_fall(res, rest)
            if res is FALL:
                continue
            if not _has_fall(res):
                return res            # every path left the function
            # some paths left, some fall through: evaluate the rest under the fall-through condition
            rest = self.block(stmts[i + 1:], fr)
            return _replace_fall(res, rest)
        return FALL

    def stmt(self, st, fr):
        m = getattr(self, 'st_' + type(st).__name__, None)
        if m is None:
            if any(isinstance(n, (ast.Return, ast.Raise, ast.Yield, ast.YieldFrom, ast.Break, ast.Continue)) for n in ast.walk(st)):
                # a statement kind the evaluator does not know that can leave the function: treating it as falling through
                # would invent or lose exits
                from .loader import AnalysisError
                raise AnalysisError('ENGINE', '%s:%d: statement kind %s is not modelled and contains exits'
                                    % (fr.fn.module.relpath if fr.fn else '?', st.lineno, type(st).__name__))
            self._havoc_targets(st, fr, 'unsupported statement %s' % type(st).__name__)
            return FALL
        return m(st, fr)

    def st_Match(self, st, fr):
        """`match subject:` over value / singleton / or-patterns, class patterns without sub-patterns, a wildcard or a capture
        name is the if/elif chain it abbreviates (the subject is evaluated once); sequence and mapping patterns are not
        modelled (UNDECIDED)."""
        return self.block(desugar_match(st, fr.fn.module.relpath if fr.fn else '?'), fr)

    def st_Expr(self, st, fr):
        if isinstance(st.value, ast.Constant):
            return FALL
        if isinstance(st.value, (ast.Yield, ast.YieldFrom)):
            fr.yields.append(self.expr(st.value.value, fr) if st.value.value is not None else T.NONE)
            return FALL
        v = self.expr(st.value, fr)
        return self._maybe_raise(v)

    def _maybe_raise(self, v):
        """An expression value that is (partly) a RAISE leaf makes the statement leave the function there."""
        if T.tag(v) == 'raise':
            return v
        if T.tag(v) == 'phi' and _has_raise(v):
            return _map_leaves(v, lambda x: x if T.tag(x) == 'raise' else FALL)
        if getattr(self, 'explicit_contracts', 0) > 0 and T.is_op(v, 'MAP') and len(v) == 7 and _has_raise(v[3]):
            # inside a `try`: a comprehension whose element computation can raise (a table look-up per character) raises
            # exactly when some element does - the handler must see that exit
            kinds = []
            for x in _leaves_of(v[3]):
                if T.tag(x) == 'raise' and x[1] not in kinds:
                    kinds.append(x[1])
            if len(kinds) == 1:
                allok = T.raw_op('ALL', T.raw_op('MAP', v[2], _ok_condition(v[3]), v[4], v[5], T.const('list')))
                return T.phi(allok, FALL, T.raise_(kinds[0]))
        return FALL

    def st_Pass(self, st, fr):
        return FALL

    def st_Break(self, st, fr):
        # only reached when a loop body is evaluated as a fragment (transfer-function comparison)
        return T.raise_('<break>')

    def st_Continue(self, st, fr):
        return T.raise_('<continue>')

    def st_Import(self, st, fr):
        return FALL

    st_ImportFrom = st_Import

    def st_Global(self, st, fr):
        self.effects.append(('global', fr.fn.qual if fr.fn else None, st.lineno, tuple(st.names)))
        return FALL

    st_Nonlocal = st_Global

    def st_Return(self, st, fr):
        v = self.expr(st.value, fr) if st.value is not None else T.NONE
        fr.ret_facts.append(fr.facts)
        return v

    def st_Raise(self, st, fr):
        name = 'Exception'
        if st.exc is not None:
            e = st.exc
            if isinstance(e, ast.Call):
                e = e.func
            name = ast.unparse(e).split('.')[-1]
            # `raise make_error(...)`: the exception type is whatever the package helper builds
            if isinstance(st.exc, ast.Call) and not name[:1].isupper():
                try:
                    v = self.expr(st.exc, fr)
                except NameErrorSignal:
                    raise
                for leaf in _leaves_of(v):
                    if T.is_op(leaf, 'EXC') and T.is_const(leaf[2]):
                        name = leaf[2][1]
        return T.raise_(name)

    def st_Assert(self, st, fr):
        # An `assert` is not a guard: it disappears under `python -O`, so it establishes no must-fact and no
        # rejecting exit (the weaker of the two semantics is taken, for every configuration of the interpreter).
        self.expr(st.test, fr)
        self.asserts.append((fr.fn.qual if fr.fn else None, st.lineno))
        return FALL

    def _prune(self, v, fr, _depth=0):
        """Drop alternatives of a case analysis that the current facts exclude (e.g. the KeyError tail of a table
        look-up after an `if key not in table: exit` guard)."""
        if not isinstance(v, tuple) or T.tag(v) != 'phi' or _depth > 40 or not fr.facts.items:
            return v
        c = self.decide(v[1], fr)
        if c == T.TRUE:
            return self._prune(v[2], fr, _depth + 1)
        if c == T.FALSE:
            return self._prune(v[3], fr, _depth + 1)
        f0 = fr.facts
        fr.facts = f0.add(c)
        a = self._prune(v[2], fr, _depth + 1)
        fr.facts = f0.add(T.not_(c))
        b = self._prune(v[3], fr, _depth + 1)
        fr.facts = f0
        if a is v[2] and b is v[3]:
            return v
        return T.phi(v[1], a, b)

    def st_Assign(self, st, fr):
        v = self.expr(st.value, fr)
        if _is_dispatch(v) and _has_raise(v):
            v = self._prune(v, fr)
        r = self._maybe_raise(v)
        if r is not FALL and not _has_fall(r):
            return r
        if r is not FALL:
            v = _strip_raise(v)
            if T.is_op(v, 'MAP') and len(v) == 7 and _has_raise(v[3]):
                v = T.raw_op('MAP', v[2], _strip_raise(v[3]), v[4], v[5], v[6])
        self._pending_raise = None
        for t in st.targets:
            self.assign(t, v, fr)
        if len(st.targets) == 1 and isinstance(st.targets[0], ast.Name):
            src = _shallow_copy_source(st.value)
            if src is not None and src in fr.env and src != st.targets[0].id:
                fr.shallow[st.targets[0].id] = src
            else:
                fr.shallow.pop(st.targets[0].id, None)
        pr, self._pending_raise = self._pending_raise, None
        if pr is not None and r is FALL:
            # a property setter that can raise: the statement raises on those alternatives
            return self._maybe_raise(pr)
        return r

    def st_AnnAssign(self, st, fr):
        if st.value is None:
            return FALL
        v = self.expr(st.value, fr)
        self.assign(st.target, v, fr)
        return self._maybe_raise(v)

    def st_AugAssign(self, st, fr):
        cur = self.expr(_as_load(st.target), fr)
        rhs = self.expr(st.value, fr)
        v = self.binop(st.op, cur, rhs, fr)
        self.assign(st.target, v, fr)
        return self._maybe_raise(v)

    def _record_as_tuple(self, v):
        """An object of a NamedTuple record class is the tuple of its fields in declaration order."""
        if T.tag(v) == 'phi':
            a, b = self._record_as_tuple(v[2]), self._record_as_tuple(v[3])
            return v if (a is v[2] and b is v[3]) else T.phi(v[1], a, b)
        if T.tag(v) == 'obj':
            ci = self.p.classes.get(v[1])
            if ci is not None and ci.is_record and any(b.split('.')[-1] == 'NamedTuple' for c_ in ci.mro() for b in c_.base_names):
                f = T.obj_fields(v)
                names = [nm for nm, _ in ci.fields]
                if all(nm in f for nm in names):
                    return T.tup([f[nm] for nm in names])
        return v

    def _property_setter(self, objterm, name):
        ci = self.p.classes.get(objterm[1])
        return ci.find_setter(name) if ci is not None else None

    def assign(self, target, v, fr):
        if isinstance(target, ast.Name):
            fr.env[target.id] = v
        elif isinstance(target, (ast.Tuple, ast.List)):
            n = len(target.elts)
            v = self._record_as_tuple(v)
            stars = [i for i, e in enumerate(target.elts) if isinstance(e, ast.Starred)]
            if len(stars) == 1:
                # a, *rest, z = seq : the starred name takes what the others leave, as a list
                items = _fixed_items(v)
                k = stars[0]
                after = n - k - 1
                if items is not None and len(items) >= n - 1:
                    for e, x in zip(target.elts[:k], items[:k]):
                        self.assign(e, x, fr)
                    self.assign(target.elts[k].value, T.lst(items[k:len(items) - after]), fr)
                    for e, x in zip(target.elts[k + 1:], items[len(items) - after:] if after else []):
                        self.assign(e, x, fr)
                    return
                if items is not None:
                    self._pending_raise = T.raise_('ValueError')
                    return
                if k == n - 1 and T.type_of(v) in ('list', None):
                    # symbolic sequence: first elements by index, the rest as the slice behind them
                    for i, e in enumerate(target.elts[:k]):
                        self.assign(e, T.getitem(v, T.const(i)), fr)
                    self.assign(target.elts[k].value, T.slice_(v, T.const(k), T.NONE), fr)
                    return
            if T.tag(v) in ('tuple', 'list') and len(v[1]) == n:
                for e, x in zip(target.elts, v[1]):
                    self.assign(e, x, fr)
            else:
                for i, e in enumerate(target.elts):
                    self.assign(e, T.getitem(v, T.const(i)), fr)
        elif isinstance(target, ast.Attribute):
            base = target.value
            if isinstance(base, ast.Name) and base.id in fr.env and T.tag(fr.env[base.id]) == 'obj' \
                    and self._property_setter(fr.env[base.id], target.attr) is not None:
                # assignment to a property with a setter runs the setter on the object
                setter = self._property_setter(fr.env[base.id], target.attr)
                self._param_mut = {}
                res, f2 = self._invoke(setter, [fr.env[base.id], v], {}, fr.facts, fr.depth + 1)
                pm = self._param_mut if getattr(self, '_param_mut_fi', None) is setter else {}
                self._param_mut = {}
                fr.facts = f2
                if setter.params and setter.params[0] in pm:
                    fr.env[base.id] = pm[setter.params[0]]
                    fr.mutated.add(base.id)
                if _has_raise(res):
                    self._pending_raise = res
            elif isinstance(base, ast.Name) and base.id in fr.env and T.tag(fr.env[base.id]) == 'obj':
                fr.env[base.id] = T.obj_set(fr.env[base.id], target.attr, v)
                fr.mutated.add(base.id)
                if not (fr.fn is not None and fr.fn.name == '__init__' and base.id == fr.fn.params[0]):
                    self.effects.append(('attr-store-local-object', fr.fn.qual if fr.fn else None,
                                         target.lineno, '%s.%s' % (base.id, target.attr)))
            else:
                self.effects.append(('attr-store', fr.fn.qual if fr.fn else None, target.lineno,
                                     ast.unparse(target)))
        elif isinstance(target, ast.Subscript):
            base = target.value
            # the mapping may be a local variable or a field of a local object (self.cache[key] = value)
            holder = None
            if isinstance(base, ast.Name) and base.id in fr.env:
                holder = ('name', base.id)
                cur = fr.env[base.id]
            elif isinstance(base, ast.Attribute) and isinstance(base.value, ast.Name) and base.value.id in fr.env \
                    and T.tag(fr.env[base.value.id]) == 'obj' and base.attr in T.obj_fields(fr.env[base.value.id]):
                holder = ('attr', base.value.id, base.attr)
                cur = T.obj_fields(fr.env[base.value.id])[base.attr]
            else:
                cur = None

            def put(newval):
                if holder[0] == 'name':
                    fr.env[holder[1]] = newval
                    fr.mutated.add(holder[1])
                else:
                    fr.env[holder[1]] = T.obj_set(fr.env[holder[1]], holder[2], newval)
                    fr.mutated.add(holder[1])
                    self.effects.append(('subscript-store', fr.fn.qual if fr.fn else None, target.lineno, ast.unparse(target)))
            if holder is not None and T.tag(cur) in ('dict', 'phi') and not isinstance(target.slice, ast.Slice):
                key = self.expr(target.slice, fr)

                def store_into(d, _depth=0):
                    # the mapping may itself be a case distinction (a key stored under a condition earlier on)
                    if T.tag(d) == 'phi' and _depth < 16:
                        a_, b_ = store_into(d[2], _depth + 1), store_into(d[3], _depth + 1)
                        return None if a_ is None or b_ is None else T.phi(d[1], a_, b_)
                    if T.tag(d) == 'raise':
                        return d
                    if T.tag(d) != 'dict':
                        return None
                    if T.is_const(key) and all(T.is_const(k_) for k_, _ in d[1]):
                        pairs = [(k_, v_) for k_, v_ in d[1] if k_ != key]
                        if len(pairs) == len(d[1]):
                            pairs.append((key, v))
                        else:
                            pairs = [(k_, (v if k_ == key else v_)) for k_, v_ in d[1]]
                    else:
                        # symbolic key: the newest binding is looked at first (it shadows an older equal key)
                        pairs = [(key, v)] + [(k_, v_) for k_, v_ in d[1] if k_ != key]
                    return T.dct(pairs) if len(pairs) <= 32 else None
                if T.tag(key) not in ('phi', 'raise', 'opaque'):
                    nv = store_into(cur)
                    if nv is not None:
                        put(nv)
                        return
            if holder is not None and holder[0] == 'name':
                fr.env[holder[1]] = T.opaque('subscript store on %s' % holder[1])
                fr.mutated.add(holder[1])
            elif holder is not None:
                put(T.opaque('subscript store on %s' % ast.unparse(base)))
                return
            self.effects.append(('subscript-store', fr.fn.qual if fr.fn else None, target.lineno,
                                 ast.unparse(target)))
        elif isinstance(target, ast.Starred):
            self.assign(target.value, T.opaque('starred target'), fr)

    def truth(self, v, fr, _depth=0):
        """bool(v): an object of a package class that defines __bool__ or __len__ is as true as those say."""
        k = T.tag(v)
        if k == 'phi' and _depth < 12:
            return T.truth(T.phi(v[1], self.truth(v[2], fr, _depth + 1), self.truth(v[3], fr, _depth + 1)))
        if k == 'obj':
            ci = self.p.classes.get(v[1])
            if ci is not None:
                m = ci.find_method('__bool__')
                if m is not None:
                    r, f2 = self._invoke(m, [v], {}, fr.facts, fr.depth + 1)
                    return T.truth(r)
                m = ci.find_method('__len__')
                if m is not None:
                    r, f2 = self._invoke(m, [v], {}, fr.facts, fr.depth + 1)
                    return T.not_(T.eq(T.const(0), r))
        return T.truth(v)

    def st_If(self, st, fr):
        c = self.decide(self.truth(self.expr(st.test, fr), fr), fr)
        return self._if(c, st.body, st.orelse, fr)

    def _refine(self, fr, cond):
        """Inside a branch, variables whose value is a Phi on (part of) the branch condition take the matching alternative."""
        known = set(_split_and(cond))
        for k_, v_ in list(fr.env.items()):
            if T.tag(v_) == 'phi':
                nv = T.assume(v_, known)
                if nv is not v_:
                    fr.env[k_] = nv

    def _if(self, c, body, orelse, fr, _depth=0):
        if T.tag(c) == 'raise':
            return c
        if c == T.TRUE:
            return self.block(body, fr)
        if c == T.FALSE:
            return self.block(orelse, fr)
        if T.tag(c) == 'phi' and _depth < 24:
            # a condition that is itself a decision tree: branch on its root condition first
            c1 = c[1]
            d1 = self.decide(c1, fr)
            if d1 == T.TRUE:        # the facts of the path settle the root: only that side exists
                return self._if(self.decide(c[2], fr), body, orelse, fr, _depth)
            if d1 == T.FALSE:
                return self._if(self.decide(c[3], fr), body, orelse, fr, _depth)
            env0, facts0, heap0 = dict(fr.env), fr.facts, dict(self.heap)
            fr.facts = facts0.add(c1)
            self._refine(fr, c1)
            r1 = self._if(self.decide(T.assume(c[2], set(_split_and(c1))), fr), body, orelse, fr, _depth + 1)
            env1, facts1, heap1 = fr.env, fr.facts, self.heap
            nc1 = T.not_(c1)
            fr.env, fr.facts, self.heap = dict(env0), facts0.add(nc1), dict(heap0)
            self._refine(fr, nc1)
            r2 = self._if(self.decide(T.assume(c[3], set(_split_and(nc1))), fr), body, orelse, fr, _depth + 1)
            env2, facts2, heap2 = fr.env, fr.facts, self.heap
            f1 = r1 is FALL or _has_fall(r1)
            f2 = r2 is FALL or _has_fall(r2)
            if f1 and f2:
                fr.env = _merge_env(c1, env1, env2)
                fr.facts = facts1.meet(facts2)
                self.heap = _merge_heap(c1, heap1, heap2)
            elif f1:
                fr.env, fr.facts, self.heap = env1, facts1, heap1
            elif f2:
                fr.env, fr.facts, self.heap = env2, facts2, heap2
            else:
                fr.env, fr.facts, self.heap = env1, facts1.meet(facts2), heap1
            if r1 is FALL and r2 is FALL:
                return FALL
            return T.phi(c1, r1, r2)
        return self._branch(c, lambda: self.block(body, fr), lambda: self.block(orelse, fr), fr)

    def _branch(self, c, k1, k2, fr):
        """Evaluate continuation k1 under c and k2 under not c (environment refined by the condition), join."""
        env0, facts0 = dict(fr.env), fr.facts
        heap0 = dict(self.heap)
        fr.facts = facts0.add(c)
        self._refine(fr, c)
        r1 = k1()
        env1, facts1, heap1 = fr.env, fr.facts, self.heap
        fr.env, fr.facts, self.heap = dict(env0), facts0.add(T.not_(c)), dict(heap0)
        self._refine(fr, T.not_(c))
        r2 = k2()
        env2, facts2, heap2 = fr.env, fr.facts, self.heap
        f1 = r1 is FALL or _has_fall(r1)
        f2 = r2 is FALL or _has_fall(r2)
        if f1 and f2:
            fr.env = _merge_env(c, env1, env2)
            fr.facts = facts1.meet(facts2)
            self.heap = _merge_heap(c, heap1, heap2)
        elif f1:
            fr.env, fr.facts, self.heap = env1, facts1, heap1
        elif f2:
            fr.env, fr.facts, self.heap = env2, facts2, heap2
        else:
            fr.env, fr.facts, self.heap = env1, facts1.meet(facts2), heap1
        if r1 is FALL and r2 is FALL:
            return FALL
        return T.phi(c, r1, r2)

    def _case_split(self, names, rest, fr, _depth=0):
        """A variable that holds a case analysis over a symbolic key (table look-up): the rest of the block is
        evaluated once per case, with the variable being that case's value (path-sensitive, like an if/elif chain)."""
        if _depth < 24:
            for n in names:
                v = fr.env.get(n)
                if _is_dispatch(v):
                    c = self.decide(v[1], fr)
                    if c == T.TRUE or c == T.FALSE:
                        fr.env[n] = v[2] if c == T.TRUE else v[3]
                        return self._case_split(names, rest, fr, _depth + 1)
                    k = lambda: self._case_split(names, rest, fr, _depth + 1)
                    return self._branch(c, k, k, fr)
        return self.block(rest, fr)

    def st_Try(self, st, fr):
        handlers = st.handlers
        # the handler a NameError (missing native back end) lands in: the first one that names it or is broad
        ne = None
        for h in handlers:
            nm = _handler_names(h)
            if nm is None or nm & {'NameError', 'Exception', 'BaseException'}:
                ne = h
                break
        names_ne = _handler_names(ne) if ne is not None else set()
        is_backend = ne is not None and names_ne is not None and 'NameError' in names_ne
        if is_backend and self.backend == 'secp':
            others = [h for h in handlers if h is not ne]
            if not others:
                r = self.block(st.body, fr)
                if r is FALL:
                    return self.block(st.orelse, fr)
                if _has_fall(r):
                    return _replace_fall(r, self.block(st.orelse, fr))
                return r
            # with the native library present NameError is never raised: the other handlers form an ordinary try
            return self._generic_try(st, others, fr)
        if is_backend and not st.finalbody:
            # ecdsa: run the body until a secp-only name is looked up, then the handler
            try:
                for i, s in enumerate(st.body):
                    r = self.stmt(s, fr)
                    if r is not FALL:
                        if _has_fall(r):
                            self._havoc_targets(st, fr, 'partial exit inside backend try')
                            return T.opaque('partial exit inside backend try')
                        return r
            except NameErrorSignal:
                return self.block(ne.body, fr)
            # the body completed without touching a secp name: else-arm runs
            return self.block(st.orelse, fr)
        return self._generic_try(st, handlers, fr)

    def _generic_try(self, st, handlers, fr):
        # generic try (the repo has `except IndexError: return None` in list_get).  Conservative:
        # facts gained inside the body do not survive a handler that can fall through or return,
        # explicit raise leaves of a caught type continue in the handler, and a broad handler may also
        # be entered by an exception raised inside a callee we only summarise.
        if st.finalbody:
            # a clean-up block that cannot itself leave the function (no return / raise / break / continue in it) runs on every
            # exit and changes no outcome: the statement is its try-part, followed by the effects of the clean-up
            leaves_fn = any(isinstance(n, (ast.Return, ast.Raise, ast.Break, ast.Continue, ast.Yield, ast.YieldFrom))
                            for s_ in st.finalbody for n in ast.walk(s_))
            if leaves_fn:
                self._havoc_targets(st, fr, 'try/finally')
                return T.opaque('try/finally at line %d (the finally block can leave the function)' % st.lineno)
            inner = ast.Try(body=st.body, handlers=list(handlers), orelse=st.orelse, finalbody=[])
            ast.copy_location(inner, st)
            if handlers:
                r = self._generic_try(inner, handlers, fr)
            else:
                r = self.block(st.body, fr)
                if st.orelse and (r is FALL or _has_fall(r)):
                    r2 = self.block(st.orelse, fr)
                    r = r2 if r is FALL else _replace_fall(r, r2)
            rf = self.block(st.finalbody, fr)
            if rf is not FALL and not (T.tag(rf) != 'phi' and rf == FALL):
                return T.opaque('try/finally at line %d (clean-up block with an outcome of its own)' % st.lineno)
            return r
        env0, facts0 = dict(fr.env), fr.facts
        self.explicit_contracts = getattr(self, 'explicit_contracts', 0) + 1
        try:
            r = self.block(st.body, fr)
        finally:
            self.explicit_contracts -= 1
        env1, facts1 = fr.env, fr.facts
        # else clause: runs when the body completed normally; exceptions raised in it are not caught by these handlers
        ELSE = ('elsemark',)
        else_res = FALL
        body_falls = r is FALL or _has_fall(r)
        if st.orelse and body_falls:
            else_res = self.block(st.orelse, fr)
        env_ok, facts_ok = fr.env, fr.facts
        out = ELSE if r is FALL else _map_leaves(r, lambda x: ELSE if (x is FALL or x == FALL) else x)
        any_handler_continues = False
        merges = []
        for h in handlers:
            names = _handler_names(h)
            broad = names is None or bool(names & {'Exception', 'BaseException'})

            def caught(x, names=names, broad=broad):
                return T.tag(x) == 'raise' and (broad or x[1] in names or (x[1] == 'LibraryError' and bool(names & _LIB_EXC)))
            fr.env, fr.facts = dict(env0), facts0
            if len(st.body) != 1:
                for s_ in st.body:
                    self._havoc_targets(s_, fr, 'assigned in try body before exception')
            if h.name:
                fr.env[h.name] = T.opaque('exception object')
            hres = self.block(h.body, fr)
            env_h = fr.env
            hcont = hres is FALL or _has_fall(hres) or not _all_raise(hres)
            any_handler_continues = any_handler_continues or hcont
            # the handler is entered exactly on the paths of the body that end in a caught raise
            cond_h = T.FALSE if r is FALL else _map_leaves(out, lambda x: T.TRUE if (x != ELSE and caught(x)) else T.FALSE)
            out = _map_leaves(out, lambda x, hres=hres: hres if (x != ELSE and caught(x)) else x)
            changed = [v for k_, v in env1.items() if env0.get(k_) is not v]
            if broad:
                implicit = _may_raise_implicitly(st.body) and not self._only_contract_calls(st.body)
            elif names <= set(_RAISING_OPS):
                implicit = any(_term_may_raise(x, names) for x in ([r] if r is not FALL else []) + changed)
            else:
                # an exception type whose sources are not catalogued (NotImplementedError, OSError, ...): any call,
                # subscript, attribute access or arithmetic in the body may be what raises it
                implicit = _may_raise_implicitly(st.body) and not self._only_contract_calls(st.body)
            if implicit:
                oc = T.raw_op('BOOL', T.opaque('exception %s inside try body at line %d' % ('|'.join(sorted(names or ['any'])), st.lineno)))
                out = T.phi(oc, hres, out)
                cond_h = T.or_(cond_h, oc) if T.type_of(cond_h) == 'bool' or T.is_const(cond_h) else oc
            if hcont and cond_h != T.FALSE:
                merges.append((cond_h, env_h))
        # environment after the statement: what the normal completion (body, then else) left, or what the handler left
        final_env = env_ok
        for cond_h, env_h in merges:
            final_env = _merge_env(cond_h, env_h, final_env)
        fr.env = final_env
        fr.facts = facts0 if any_handler_continues else facts_ok
        out = _map_leaves(out, lambda x: else_res if x == ELSE else x) if out != ELSE else else_res
        return out

    def _only_contract_calls(self, body):
        """Every statement is a bare call of a native-library function whose raises-unless contract is modelled, on plain
        variables: nothing else in the body can raise."""
        for s_ in body:
            v = s_.value if isinstance(s_, (ast.Expr, ast.Assign, ast.Return)) else None
            if not (isinstance(v, ast.Call) and isinstance(v.func, ast.Name) and v.func.id in self.secp_names
                    and all(isinstance(a, (ast.Name, ast.Constant)) for a in v.args) and not v.keywords):
                return False
        return True

    def st_With(self, st, fr):
        managers = []
        for item in st.items:
            v = self.expr(item.context_expr, fr)
            if T.tag(v) == 'raise':
                return v
            bound = v
            if T.tag(v) == 'obj':
                # a context manager class of the package: `as` binds what __enter__ returns, and __exit__ runs on every exit -
                # a truthy result of __exit__ swallows the exception that is leaving the block
                ci = self.p.classes.get(v[1])
                m_enter = ci.find_method('__enter__') if ci is not None else None
                m_exit = ci.find_method('__exit__') if ci is not None else None
                if m_enter is not None:
                    bound, f2 = self._invoke(m_enter, [v], {}, fr.facts, fr.depth + 1)
                    fr.facts = f2
                    if T.tag(bound) == 'raise':
                        return bound
                if m_exit is not None:
                    managers.append((v, m_exit))
            if item.optional_vars is not None:
                self.assign(item.optional_vars, bound, fr)
        r = self.block(st.body, fr)
        for v, m_exit in reversed(managers):
            has_raise = r is not FALL and any(T.tag(x) == 'raise' and not str(x[1]).startswith('<') for x in _leaves_of(r))
            if has_raise:
                exc = T.ext('builtins.Exception')
                ret, _f = self._invoke(m_exit, [v, exc, T.sym('exc_val', type='obj'), T.sym('exc_tb', type='obj')], {}, fr.facts, fr.depth + 1)
                sup = self.decide(self.truth(_strip_raise(ret), fr), fr) if T.tag(ret) != 'raise' else T.FALSE
                if sup != T.FALSE:
                    def swallow(x, sup=sup):
                        if T.tag(x) == 'raise' and not str(x[1]).startswith('<'):
                            return FALL if sup == T.TRUE else T.phi(sup, FALL, x)
                        return x
                    r = _map_leaves(r, swallow)
            else:
                ret, f2 = self._invoke(m_exit, [v, T.NONE, T.NONE, T.NONE], {}, fr.facts, fr.depth + 1)
                fr.facts = f2
        if r is not FALL and T.tag(r) == 'phi' and all(x is FALL or x == FALL for x in _leaves_of(r)):
            return FALL
        return r

    def st_For(self, st, fr):
        it = self._consume(self.expr(st.iter, fr))
        seq = _fixed_items(it)
        tname = st.target.id if isinstance(st.target, ast.Name) else None
        if seq is not None and len(seq) <= UNROLL_BOUND and not st.orelse:
            acc = FALL
            body_ = _eliminate_continue(st.body)
            for idx, item in enumerate(seq):
                self.assign(st.target, item, fr)
                if tname is not None:
                    fr.mutated.discard(tname)
                r = self._loop_body(body_, fr)
                if tname is not None and tname in fr.mutated:
                    # the element was mutated in place: the container (or the variable it came from) sees it
                    self._write_back_element(st.iter, idx, fr.env.get(tname), fr)
                if r == 'break':
                    break
                if r == 'continue' or r is FALL:
                    continue
                if r == 'opaque':
                    self._havoc_targets(st, fr, 'data-dependent break/continue in unrolled loop')
                    return acc
                acc = r if acc is FALL else _replace_fall(acc, r)
                if not _has_fall(r):
                    break
            return acc
        # an accumulation loop `for x in it: [temporaries]; acc.append(E)` over a symbolic iterable is the
        # comprehension [E for x in it]
        m = self._append_only_loop(st, it, fr)
        if m:
            return FALL
        # `for row in rows: row.append(E)` over a symbolic list of rows rewrites every row in place
        if self._inplace_map_loop(st, it, fr):
            return FALL
        # loop over a symbolic iterable: everything assigned inside is unknown afterwards
        self._havoc_targets(st, fr, 'loop over symbolic iterable at line %d' % st.lineno)
        tnames = [tname] if tname is not None else [n.id for n in ast.walk(st.target) if isinstance(n, ast.Name)]
        if any(_mutates_name(st.body, tn_) for tn_ in tnames):
            # elements mutated in place (also through a tuple target: `for row, node in zip(rows, nodes): row.append(..)`):
            # the iterated containers are unknown afterwards as well
            for n in ast.walk(st.iter):
                if isinstance(n, ast.Name) and n.id in fr.env:
                    fr.env[n.id] = T.opaque('elements mutated in a loop at line %d' % st.lineno)
                    fr.mutated.add(n.id)
        self._scan_loop_effects(st, fr)
        if _contains_return(st.body):
            return T.phi(T.raw_op('BOOL', T.opaque('loop')), T.opaque('return inside loop'), FALL)
        return FALL

    def _write_back_element(self, iter_node, idx, val, fr):
        if isinstance(iter_node, ast.Name) and iter_node.id in fr.env and T.tag(fr.env[iter_node.id]) in ('list', 'tuple') \
                and idx < len(fr.env[iter_node.id][1]):
            cur = fr.env[iter_node.id]
            items = list(cur[1])
            items[idx] = val
            fr.env[iter_node.id] = (cur[0], tuple(items))
            fr.mutated.add(iter_node.id)
        elif isinstance(iter_node, (ast.Tuple, ast.List)) and idx < len(iter_node.elts) and isinstance(iter_node.elts[idx], ast.Name) \
                and iter_node.elts[idx].id in fr.env:
            fr.env[iter_node.elts[idx].id] = val
            fr.mutated.add(iter_node.elts[idx].id)
        else:
            for n in ast.walk(iter_node):
                if isinstance(n, ast.Name) and n.id in fr.env:
                    fr.env[n.id] = T.opaque('element mutated in a loop')
                    fr.mutated.add(n.id)

    def _inplace_map_loop(self, st, it, fr):
        """`for row in rows: [temporaries]; row.append(E)` or `row[K] = E` (constant K) over a symbolic list of rows rewrites
        every row in place - visible through every name that shares the row objects (a shallow copy of the list)."""
        body = st.body
        partner = None
        if not st.orelse and body and isinstance(st.target, ast.Tuple) and len(st.target.elts) == 2 \
                and all(isinstance(x, ast.Name) for x in st.target.elts) and isinstance(st.iter, ast.Call) \
                and isinstance(st.iter.func, ast.Name) and st.iter.func.id == 'zip' and len(st.iter.args) == 2 and not st.iter.keywords \
                and all(isinstance(a, ast.Name) and a.id in fr.env for a in st.iter.args):
            # `for row, x in zip(rows, xs): row.append(f(x))` where rows was built as [... for x in xs]: the second target is
            # the element the row was made from
            rows_v, other_v = fr.env[st.iter.args[0].id], fr.env[st.iter.args[1].id]
            if T.is_op(rows_v, 'MAP') and rows_v[5] == T.TRUE and rows_v[6] == T.const('list') and not T.is_op(other_v, 'ITER'):
                if rows_v[4] == other_v:
                    partner = (st.target.elts[1].id, rows_v[2])
                elif T.is_op(other_v, 'MAP') and other_v[2] == rows_v[2] and other_v[4] == rows_v[4] and other_v[5] == T.TRUE \
                        and other_v[6] == T.const('list'):
                    # both are comprehensions over one and the same source (the evaluator composes a comprehension over a
                    # comprehension): the partner element is the other comprehension's body for the same item
                    partner = (st.target.elts[1].id, other_v[3])
                if partner is not None:
                    st = ast.For(target=st.target.elts[0], iter=st.iter.args[0], body=st.body, orelse=[])
                    it = rows_v
        if st.orelse or not body or not isinstance(st.target, ast.Name) or not isinstance(st.iter, ast.Name) \
                or st.iter.id not in fr.env:
            return False
        tname = st.target.id
        last = body[-1]
        is_append = (isinstance(last, ast.Expr) and isinstance(last.value, ast.Call) and isinstance(last.value.func, ast.Attribute)
                     and last.value.func.attr == 'append' and isinstance(last.value.func.value, ast.Name)
                     and last.value.func.value.id == tname and len(last.value.args) == 1 and not last.value.keywords)
        is_store = (isinstance(last, ast.Assign) and len(last.targets) == 1 and isinstance(last.targets[0], ast.Subscript)
                    and isinstance(last.targets[0].value, ast.Name) and last.targets[0].value.id == tname
                    and not isinstance(last.targets[0].slice, ast.Slice))
        if not (is_append or is_store):
            return False
        if not all(isinstance(s_, ast.Assign) and all(isinstance(t_, ast.Name) and t_.id != tname for t_ in s_.targets) for s_ in body[:-1]):
            return False
        if _mutates_name(body[:-1], tname):
            return False
        if T.is_op(it, 'MAP') and it[5] == T.TRUE and it[6] == T.const('list'):
            var, src, elem = it[2], it[4], it[3]
        elif T.tag(it) == 'sym':
            var = T.sym('each%d' % getattr(self, '_comp_depth', 0), **_elem_meta(it))
            src, elem = it, var
        else:
            return False
        saved = dict(fr.env)
        fr.env[tname] = elem
        if partner is not None:
            fr.env[partner[0]] = partner[1]
        for s_ in body[:-1]:
            r = self.stmt(s_, fr)
            if r is not FALL:
                fr.env = saved
                return False
        val = self.expr(last.value.args[0] if is_append else last.value, fr)
        if _has_raise(val) or T.tag(val) == 'raise':
            fr.env = saved
            return False
        if is_append:
            new_elem = T.lst(list(elem[1]) + [val]) if T.tag(elem) == 'list' else T.raw_op('APPEND', elem, val)
        else:
            idx = self.expr(last.targets[0].slice, fr)
            elem0 = _strip_raise(elem) if T.tag(elem) == 'phi' else elem
            if not (T.tag(elem0) == 'list' and _is_int_const(idx) and -len(elem0[1]) <= idx[1] < len(elem0[1])):
                fr.env = saved
                return False
            items = list(elem0[1])
            items[idx[1]] = val
            new_elem = T.lst(items)
            if elem0 is not elem:
                new_elem = _map_leaves(_raise_split(elem), lambda x: x if T.tag(x) == 'raise' else new_elem)
        fr.env = saved
        old_val = fr.env[st.iter.id]
        new_val = T.raw_op('MAP', var, new_elem, src, T.TRUE, T.const('list'))
        fr.env[st.iter.id] = new_val
        fr.mutated.add(st.iter.id)
        # the rows are shared with every shallow copy of the list (and with what it was copied from)
        for a_, b_ in list(fr.shallow.items()):
            other = b_ if a_ == st.iter.id else (a_ if b_ == st.iter.id else None)
            if other is not None and other in fr.env and fr.env[other] == old_val:
                fr.env[other] = new_val
                fr.mutated.add(other)
        return True

    def _append_only_loop(self, st, it, fr):
        body = st.body
        if st.orelse or not body:
            return False
        last = body[-1]
        is_yield = isinstance(last, ast.Expr) and isinstance(last.value, ast.Yield) and last.value.value is not None
        if is_yield:
            # `for x in it: [temporaries]; yield E` in a generator: the sequence of yielded values is [E for x in it]
            if fr.yields:
                return False
            acc, elem_expr = None, last.value.value
        elif not (isinstance(last, ast.Expr) and isinstance(last.value, ast.Call) and isinstance(last.value.func, ast.Attribute)
                  and last.value.func.attr == 'append' and isinstance(last.value.func.value, ast.Name)
                  and len(last.value.args) == 1 and not last.value.keywords):
            return False
        else:
            acc, elem_expr = last.value.func.value.id, last.value.args[0]
            if fr.env.get(acc) != T.lst([]):
                return False
        # per-iteration locals: names bound by a top-level assignment of the body (fresh in every iteration from there on)
        fresh_at = {}
        for i_, s_ in enumerate(body[:-1]):
            if isinstance(s_, ast.Assign):
                for t_ in s_.targets:
                    if isinstance(t_, ast.Name):
                        fresh_at.setdefault(t_.id, i_)

        def simple(s_, pos):
            if isinstance(s_, ast.Assign):
                return all(isinstance(t_, ast.Name) for t_ in s_.targets)
            if isinstance(s_, ast.If):
                return all(simple(x, pos) for x in s_.body + s_.orelse)
            if isinstance(s_, ast.Expr) and isinstance(s_.value, ast.Call) and isinstance(s_.value.func, ast.Attribute) \
                    and s_.value.func.attr in X.MUTATOR_NAMES and isinstance(s_.value.func.value, ast.Name):
                # in-place growth of a list this iteration built itself (`row = [...]; if c: row.append(x)`)
                nm = s_.value.func.value.id
                return nm in fresh_at and fresh_at[nm] < pos
            if isinstance(s_, ast.Expr) and isinstance(s_.value, ast.Call) and isinstance(s_.value.func, ast.Attribute) \
                    and isinstance(s_.value.func.value, ast.Name) and s_.value.func.value.id not in fr.env \
                    and s_.value.func.attr in ('debug', 'info', 'warning', 'error', 'critical', 'log'):
                # a log record about the element (module-level logger): computing its arguments is all that matters here
                try:
                    return T.is_op(self.expr(s_.value.func.value, fr), 'LOGGER')
                except Exception:
                    return False
            return isinstance(s_, ast.Pass)
        if not all(simple(s_, i_) for i_, s_ in enumerate(body[:-1])):
            return False
        temps = {n.id for s_ in body[:-1] for n in ast.walk(s_) if isinstance(n, ast.Name) and isinstance(n.ctx, ast.Store)}
        if acc in temps:
            return False
        saved = dict(fr.env)
        if T.is_op(it, 'MAP') and it[5] == T.TRUE and it[6] == T.const('list'):
            var, src, elem = it[2], it[4], it[3]
        else:
            depth_ = getattr(self, '_comp_depth', 0)
            var = T.sym('each%d' % depth_, **_elem_meta(it))
            src, elem = it, var
        self.assign(st.target, elem, fr)
        guard = FALL
        for s_ in body[:-1]:
            r = self.stmt(s_, fr)
            if r is not FALL:
                # an element whose computation raises is not produced (the raise stays inside the MAP body,
                # exactly as for a comprehension)
                if not _has_fall(r) or any(T.tag(x) != 'raise' and x is not FALL and x != FALL for x in _leaves_of(r)):
                    fr.env = saved
                    return False
                guard = r if guard is FALL else _replace_fall(guard, r)
        val = self.expr(elem_expr, fr)
        if guard is not FALL:
            val = _replace_fall(guard, val)
        for k in list(fr.env):
            if k not in saved:
                del fr.env[k]
            else:
                fr.env[k] = saved[k]
        if acc is None:
            fr.yields.append(T.raw_op('MAP', var, val, src, T.TRUE, T.const('list')))
        else:
            fr.env[acc] = T.raw_op('MAP', var, val, src, T.TRUE, T.const('list'))
        return True

    def _loop_body(self, body, fr):
        for i, s in enumerate(body):
            if isinstance(s, ast.Break):
                return 'break'
            if isinstance(s, ast.Continue):
                return 'continue'
            if isinstance(s, ast.If) and _contains_break_continue(s):
                c = self.truth(self.expr(s.test, fr), fr)
                if c == T.TRUE:
                    r = self._loop_body(s.body, fr)
                elif c == T.FALSE:
                    r = self._loop_body(s.orelse, fr)
                else:
                    return 'opaque'
                if r in ('break', 'continue', 'opaque'):
                    return r
                if r is not FALL:
                    return r
                continue
            r = self.stmt(s, fr)
            if r is not FALL:
                if _has_fall(r):
                    rest = self._loop_body(body[i + 1:], fr)
                    if rest in ('break', 'continue', 'opaque'):
                        return 'opaque'
                    return _replace_fall(r, rest)
                return r
        return FALL

    def st_While(self, st, fr):
        self._havoc_targets(st, fr, 'while loop at line %d' % st.lineno)
        self._scan_loop_effects(st, fr)
        if _contains_return(st.body):
            return T.phi(T.raw_op('BOOL', T.opaque('loop')), T.opaque('return inside loop'), FALL)
        return FALL

    def st_FunctionDef(self, st, fr):
        a = st.args
        if a.kwonlyargs or a.posonlyargs or _is_generator(st):
            fr.env[st.name] = T.opaque('nested function %s (keyword-only parameters / generator)' % st.name)
            return FALL
        if not hasattr(self, '_closures'):
            self._closures = {}
        # one closure per evaluation of the `def` (a decorator applied five times creates five wrappers)
        key = '%s:%d:%d#%d' % (fr.module.relpath if fr.module is not None else '?', st.lineno, st.col_offset, len(self._closures))
        self._closures[key] = (st, LiveEnv(fr, list(getattr(self, '_comp_cells', []))), fr.module, fr.cls, fr.fn, None,
                               [self.expr(d, fr) for d in a.defaults])   # late binding of free variables, early defaults
        clo = ('closure', key)
        for d in reversed(st.decorator_list):
            txt = ast.unparse(d.func if isinstance(d, ast.Call) else d)
            if txt in ('wraps', 'functools.wraps'):
                continue                    # metadata only
            dec = self.expr(d, fr)
            clo = self.apply(dec, [clo], {}, fr, None)
        fr.env[st.name] = clo
        return FALL

    def st_Delete(self, st, fr):
        self.effects.append(('del', fr.fn.qual if fr.fn else None, st.lineno, ast.unparse(st)))
        return FALL

    def _havoc_targets(self, st, fr, reason):
        for n in ast.walk(st):
            if isinstance(n, ast.Name) and isinstance(n.ctx, ast.Store):
                fr.env[n.id] = T.opaque(reason)
            elif isinstance(n, ast.Call) and isinstance(n.func, ast.Attribute) \
                    and n.func.attr in ('append', 'extend', 'insert', 'pop', 'remove', 'clear', 'update',
                                        'add', 'sort', 'reverse', 'setdefault') \
                    and isinstance(n.func.value, ast.Name):
                fr.env[n.func.value.id] = T.opaque(reason)
            elif isinstance(n, ast.AugAssign) and isinstance(n.target, ast.Name):
                fr.env[n.target.id] = T.opaque(reason)

    def _scan_loop_effects(self, st, fr):
        for n in ast.walk(st):
            if isinstance(n, (ast.Attribute, ast.Subscript)) and isinstance(n.ctx, ast.Store):
                self.effects.append(('store-in-loop', fr.fn.qual if fr.fn else None, n.lineno, ast.unparse(n)))

    # ------------------------------------------------------------------ interval decisions from must-facts
    def decide(self, c, fr):
        """Fold a boolean term using the integer bounds that the current must-facts give (interval domain)."""
        if T.is_const(c) or not fr.facts.items:
            return c
        if c in fr.facts:
            return T.TRUE
        if T.not_(c) in fr.facts:
            return T.FALSE
        for f in fr.facts:
            # unit resolution: a disjunction whose other alternatives are all excluded
            if T.is_op(f, 'OR') and c in f[2:] and all(d == c or T.not_(d) in fr.facts for d in f[2:]):
                return T.TRUE
        k = T.tag(c)
        if T.is_op(c, 'NOT'):
            r = self.decide(c[2], fr)
            return T.not_(r) if T.is_const(r) else c
        if T.is_op(c, 'AND'):
            out = T.TRUE
            for x in c[2:]:
                out = T.and_(out, self.decide(x, fr))
            return out
        if T.is_op(c, 'OR'):
            out = T.FALSE
            for x in c[2:]:
                out = T.or_(out, self.decide(x, fr))
            return out
        if T.is_op(c, 'BOOL') and len(c) == 3 and T.type_of(c[2]) == 'int':
            # truth of an integer: non-zero
            lo, hi = bounds_of(c[2], fr.facts)
            if (lo is not None and lo > 0) or (hi is not None and hi < 0):
                return T.TRUE
            if lo is not None and lo == hi == 0:
                return T.FALSE
        if T.is_op(c, 'LT') or T.is_op(c, 'EQ'):
            a, b = _num_const(c[2]), _num_const(c[3])
            if _is_int_const(a) and not _is_int_const(b):
                lo, hi = bounds_of(b, fr.facts)
                v = a[1]
                if T.is_op(c, 'LT'):       # v < b
                    if lo is not None and v < lo:
                        return T.TRUE
                    if hi is not None and v >= hi:
                        return T.FALSE
                else:
                    if (lo is not None and v < lo) or (hi is not None and v > hi):
                        return T.FALSE
                    if lo is not None and lo == hi == v:
                        return T.TRUE
            elif _is_int_const(b) and not _is_int_const(a):
                lo, hi = bounds_of(a, fr.facts)
                v = b[1]
                if T.is_op(c, 'LT'):       # a < v
                    if hi is not None and hi < v:
                        return T.TRUE
                    if lo is not None and lo >= v:
                        return T.FALSE
                else:
                    if (lo is not None and v < lo) or (hi is not None and v > hi):
                        return T.FALSE
                    if lo is not None and lo == hi == v:
                        return T.TRUE
        return c

    # ------------------------------------------------------------------ expressions
    def expr(self, e, fr):
        self.steps += 1
        if self.steps > self.step_budget:
            raise AnalysisError('ENGINE', 'evaluation budget exceeded (%d expression steps) in %s'
                                % (self.step_budget, fr.fn.qual if fr.fn else '<module>'))
        m = getattr(self, 'ex_' + type(e).__name__, None)
        if m is None:
            return T.opaque('unsupported expression %s' % type(e).__name__)
        return m(e, fr)

    def ex_Constant(self, e, fr):
        if e.value is Ellipsis:
            return T.opaque('ellipsis')
        return T.const(e.value)

    def ex_Name(self, e, fr):
        name = e.id
        if name in fr.env:
            return fr.env[name]
        return self._module_name(fr.module, name, fr.depth)

    def _module_name(self, mi, name, depth):
        # back-end specific names
        if name in mi.secp_names and name not in mi.ecdsa_names:
            if self.backend != 'secp':
                raise NameErrorSignal(name)
        if name in mi.ecdsa_names and name not in mi.secp_names:
            if self.backend != 'ecdsa':
                self.notes.append(('BK-1', 'ecdsa-only name %s referenced in secp configuration (%s)'
                                   % (name, mi.name)))
                raise NameErrorSignal(name)
        r = self.p.resolve_name(mi, name)
        if r is None:
            if name in X.BUILTINS:
                return T.ext('builtins.' + name)
            return T.opaque('unknown name %s' % name)
        return self._resolved_value(r, depth)

    def _resolved_value(self, r, depth):
        if isinstance(r, ClassInfo):
            return T.clsref(r.qual)
        if isinstance(r, FunctionInfo):
            return T.funcref(r.qual)
        if isinstance(r, ModuleInfo):
            return ('module', r.name)
        if isinstance(r, tuple) and r[0] == 'ext':
            return X.ext_value(r[1])
        if isinstance(r, tuple) and r[0] == 'assign':
            _, mi, name = r
            key = (mi.name, name, self.backend)
            if key in self._modconst_cache:
                return self._modconst_cache[key]
            self._modconst_cache[key] = T.opaque('cyclic module constant %s' % name)
            fr = Frame(None, {}, Facts(), mi, None, depth + 1)
            # a name that is also imported (`random = random.SystemRandom()`): evaluate the RHS with
            # the import binding in scope
            v = None
            other = mi.ecdsa_nodes if self.backend == 'secp' else mi.secp_nodes
            nodes = [n_ for n_ in mi.assigns[name] if id(n_) not in other]
            if name in mi.imports:
                fr.env[name] = self._resolved_value(self._import_target(mi, name), depth + 1)
            done_try = set()
            for node in nodes:
                tr = mi.try_of.get(id(node))
                if tr is not None:
                    # bound inside a module-level try (an environment probe): run the statement, alternatives are joined
                    if id(tr) in done_try:
                        continue
                    done_try.add(id(tr))
                    try:
                        self.stmt(tr, fr)
                        v = fr.env.get(name, T.opaque('module constant %s not bound by its try statement' % name))
                    except NameErrorSignal:
                        v = T.opaque('module constant %s unavailable in back end %s' % (name, self.backend))
                    fr.env[name] = v
                    continue
                try:
                    v = self.expr(node, fr)
                except NameErrorSignal:
                    v = T.opaque('module constant %s unavailable in back end %s' % (name, self.backend))
                fr.env[name] = v
            self._modconst_cache[key] = v
            return v
        return T.opaque('unresolvable')

    def _import_target(self, mi, name):
        imp = mi.imports[name]
        if imp[0] == 'module':
            return self.p.modules.get(imp[1]) or ('ext', imp[1])
        _, modname, orig = imp
        if modname in self.p.modules:
            return self.p.resolve_name(self.p.modules[modname], orig)
        return ('ext', '%s.%s' % (modname, orig))

    def ex_Tuple(self, e, fr):
        return self._lift_seq(self._elts(e.elts, fr), T.tup)

    def ex_List(self, e, fr):
        return self._lift_seq(self._elts(e.elts, fr), T.lst)

    def _lift_seq(self, items, build):
        """An element whose evaluation may raise makes the whole display raise on that alternative."""
        for x in items:
            if T.tag(x) == 'raise':
                return x
        r = self._lift(items, {}, lambda a2, k2: self._lift_seq(a2, build))
        if r is not None:
            return r
        return build(items)

    def _elts(self, elts, fr):
        out = []
        for x in elts:
            if isinstance(x, ast.Starred):
                v = self.expr(x.value, fr)
                items = _fixed_items(v)
                if items is None:
                    out.append(T.opaque('starred symbolic'))
                else:
                    out.extend(items)
            else:
                out.append(self.expr(x, fr))
        return out

    def ex_Set(self, e, fr):
        return T.tup(self._elts(e.elts, fr))

    def ex_Dict(self, e, fr):
        pairs = []
        for k, v in zip(e.keys, e.values):
            if k is None:
                inner = self.expr(v, fr)
                if T.tag(inner) == 'dict':
                    pairs.extend(inner[1])
                else:
                    pairs.append((T.opaque('**'), inner))
                continue
            pairs.append((self.expr(k, fr), self.expr(v, fr)))
        flat = []
        for a, b in pairs:
            flat.extend([a, b])
        return self._lift_seq(flat, lambda xs: T.dct([(xs[i], xs[i + 1]) for i in range(0, len(xs), 2)]))

    def ex_IfExp(self, e, fr):
        c = self.decide(self.truth(self.expr(e.test, fr), fr), fr)
        if c == T.TRUE:
            return self.expr(e.body, fr)
        if c == T.FALSE:
            return self.expr(e.orelse, fr)
        f0 = fr.facts
        fr.facts = f0.add(c)
        a = self.expr(e.body, fr)
        fr.facts = f0.add(T.not_(c))
        b = self.expr(e.orelse, fr)
        fr.facts = f0
        return T.phi(c, a, b)

    def ex_BoolOp(self, e, fr):
        # value semantics of and/or (short circuit)
        vals = e.values
        acc = self.expr(vals[0], fr)
        f0 = fr.facts
        for nxt in vals[1:]:
            # the branching condition is decided with the facts that hold BEFORE the expression only (the facts added
            # below hold while the next operand is evaluated, not for the value as a whole)
            inner = fr.facts
            fr.facts = f0
            c = self.decide(self.truth(acc, fr), fr)
            fr.facts = inner
            if isinstance(e.op, ast.And):
                if c == T.FALSE:
                    break
                if c != T.TRUE:
                    fr.facts = fr.facts.add(c)
                b = self.expr(nxt, fr)
                if c == T.TRUE:
                    acc = b
                elif T.type_of(acc) == 'bool' and T.type_of(b) == 'bool':
                    acc = T.and_(acc, b)
                else:
                    acc = T.phi(c, b, acc)
            else:
                if c == T.TRUE:
                    break
                if c != T.FALSE:
                    fr.facts = fr.facts.add(T.not_(c))
                b = self.expr(nxt, fr)
                if c == T.FALSE:
                    acc = b
                elif T.type_of(acc) == 'bool' and T.type_of(b) == 'bool':
                    acc = T.or_(acc, b)
                elif (T.type_of(acc), b) in (('int', T.const(0)), ('str', T.const('')), ('bytes', T.const(b''))):
                    pass        # `x or 0` is x (the only falsy int is 0 itself); likewise '' and b''
                else:
                    acc = T.phi(c, acc, b)
        fr.facts = f0
        return acc

    def ex_UnaryOp(self, e, fr):
        v = self.expr(e.operand, fr)
        if isinstance(e.op, ast.Not):
            return T.not_(self.truth(v, fr))
        if isinstance(e.op, ast.USub):
            if T.is_const(v) and isinstance(v[1], (int, float)):
                return T.const(-v[1])
            return T.raw_op('NEG', v)
        if isinstance(e.op, ast.Invert):
            if T.is_const(v) and isinstance(v[1], int):
                return T.const(~v[1])
            return T.raw_op('INVERT', v)
        if isinstance(e.op, ast.UAdd):
            return v
        return T.opaque('unary')

    def ex_BinOp(self, e, fr):
        a = self.expr(e.left, fr)
        b = self.expr(e.right, fr)
        return self.binop(e.op, a, b, fr)

    def binop(self, o, a, b, fr):
        for x in (a, b):
            if T.tag(x) == 'raise':
                return x
        if T.tag(a) == 'phi' and not T.tag(b) == 'phi':
            return T.phi(a[1], self.binop(o, a[2], b, fr), self.binop(o, a[3], b, fr))
        if T.tag(b) == 'phi' and not T.tag(a) == 'phi':
            return T.phi(b[1], self.binop(o, a, b[2], fr), self.binop(o, a, b[3], fr))
        if isinstance(o, ast.Add) and (T.is_op(a, 'BARR') or T.is_op(b, 'BARR')):
            # bytearray + bytes-like is a bytearray, bytes + bytearray is bytes
            ia = a[2] if T.is_op(a, 'BARR') else a
            ib = b[2] if T.is_op(b, 'BARR') else b
            if T.type_of(ia) == 'bytes' and T.type_of(ib) == 'bytes':
                return T.raw_op('BARR', T.cat(ia, ib)) if T.is_op(a, 'BARR') else T.cat(ia, ib)
            return T.opaque('bytearray + value that is not known to be bytes')
        if isinstance(o, ast.Add):
            # point addition (ecdsa Point.__add__)
            if T.type_of(a) == 'point' or T.type_of(b) == 'point':
                return T.pt_add(a, b)
            if T.tag(a) == 'list' and T.tag(b) != 'list':
                items = _fixed_items(b)
                if items is not None:
                    return T.lst(list(a[1]) + items)
            return T.add(a, b)
        if isinstance(o, ast.Sub):
            return T.sub(a, b)
        if isinstance(o, ast.Mult):
            return T.mul(a, b)
        if isinstance(o, ast.Mod):
            return T.mod(a, b)
        if isinstance(o, ast.FloorDiv):
            return T.floordiv(a, b)
        if isinstance(o, ast.Div):
            return T.truediv(a, b)
        if isinstance(o, ast.Pow):
            return T.pow_(a, b)
        if isinstance(o, ast.LShift):
            return T.lshift(a, b)
        if isinstance(o, ast.RShift):
            return T.rshift(a, b)
        if isinstance(o, ast.BitAnd):
            return T.bitand(a, b)
        if isinstance(o, ast.BitOr):
            return T.bitor(a, b)
        if isinstance(o, ast.BitXor):
            return T.bitxor(a, b)
        return T.opaque('binop %s' % type(o).__name__)

    def ex_Compare(self, e, fr):
        left = self.expr(e.left, fr)
        res = T.TRUE
        for o, rn in zip(e.ops, e.comparators):
            right = self.expr(rn, fr)
            res = T.and_(res, self.compare(o, left, right, fr))
            left = right
        return res

    def compare(self, o, a, b, fr):
        for x in (a, b):
            if T.tag(x) == 'raise':
                return x
        if T.tag(a) == 'phi':
            return T.phi(a[1], self.compare(o, a[2], b, fr), self.compare(o, a[3], b, fr))
        if T.tag(b) == 'phi':
            return T.phi(b[1], self.compare(o, a, b[2], fr), self.compare(o, a, b[3], fr))
        if isinstance(o, (ast.Eq, ast.NotEq)):
            r = self._eq(a, b, fr)
            return r if isinstance(o, ast.Eq) else T.not_(r)
        if isinstance(o, ast.Lt):
            return T.lt(a, b)
        if isinstance(o, ast.Gt):
            return T.lt(b, a)
        if isinstance(o, ast.LtE):
            return T.not_(T.lt(b, a))
        if isinstance(o, ast.GtE):
            return T.not_(T.lt(a, b))
        if isinstance(o, ast.In):
            return T.in_(a, b)
        if isinstance(o, ast.NotIn):
            return T.not_(T.in_(a, b))
        if isinstance(o, ast.Is):
            return T.is_(a, b)
        if isinstance(o, ast.IsNot):
            return T.not_(T.is_(a, b))
        return T.opaque('compare')

    def _eq(self, a, b, fr):
        # user-defined __eq__
        if T.tag(a) == 'obj':
            ci = self.p.classes.get(a[1])
            m = ci.find_method('__eq__') if ci else None
            if m is not None:
                v, _ = self._invoke(m, [a, b], {}, fr.facts, fr.depth + 1)
                return v
        return T.eq(a, b)

    def ex_Subscript(self, e, fr):
        base = self.expr(e.value, fr)
        if T.tag(base) == 'raise':
            return base
        if isinstance(e.slice, ast.Slice):
            if e.slice.step is not None:
                return T.opaque('slice step')
            lo = self.expr(e.slice.lower, fr) if e.slice.lower is not None else T.NONE
            hi = self.expr(e.slice.upper, fr) if e.slice.upper is not None else T.NONE
            return self._slice(base, lo, hi)
        idx = self.expr(e.slice, fr)
        return self._getitem(base, idx)

    def _slice(self, base, lo, hi):
        for x in (base, lo, hi):
            if T.tag(x) == 'raise':
                return x
        if T.tag(base) == 'phi':
            return T.phi(base[1], self._slice(base[2], lo, hi), self._slice(base[3], lo, hi))
        # a bound that is a case distinction (len(row) where building the row could raise): one slice per case
        if T.tag(hi) == 'phi':
            return T.phi(hi[1], self._slice(base, lo, hi[2]), self._slice(base, lo, hi[3]))
        if T.tag(lo) == 'phi':
            return T.phi(lo[1], self._slice(base, lo[2], hi), self._slice(base, lo[3], hi))
        if T.is_op(base, 'BARR'):
            return T.raw_op('BARR', T.slice_(base[2], lo, hi))
        return T.slice_(base, lo, hi)

    def _getitem(self, base, idx):
        for x in (base, idx):
            if T.tag(x) == 'raise':
                return x
        if T.tag(base) == 'phi':
            return T.phi(base[1], self._getitem(base[2], idx), self._getitem(base[3], idx))
        if T.tag(idx) == 'phi':
            return T.phi(idx[1], self._getitem(base, idx[2]), self._getitem(base, idx[3]))
        if T.is_op(idx, 'SLICEOBJ'):
            if idx[4] != T.NONE:
                return T.opaque('slice step')
            return self._slice(base, idx[2], idx[3])
        if T.tag(base) == 'cls' and T.is_const(idx) and isinstance(idx[1], str):
            ci = self.p.classes.get(base[1])
            if ci is not None and ci.is_enum:
                # EnumClass['NAME']: the member of that name
                for n_, m_ in self._enum_members(ci, 0):
                    if n_ == idx[1]:
                        return m_
                return T.raise_('KeyError')
        if T.is_op(base, 'BARR'):
            return T.getitem(base[2], idx)
        if T.tag(base) == 'obj':
            base = self._record_as_tuple(base)
        return T.getitem(base, idx)

    def ex_JoinedStr(self, e, fr):
        parts = []
        for v in e.values:
            if isinstance(v, ast.Constant):
                parts.append(T.const(v.value))
            else:
                parts.append(X.to_str(self, self.expr(v.value, fr), fr))
        return T.cat(*parts) if parts else T.const('')

    def ex_NamedExpr(self, e, fr):
        # `(name := value)`: binds in the enclosing function and is the value
        v = self.expr(e.value, fr)
        if T.tag(v) == 'raise':
            return v
        self.assign(e.target, _strip_raise(v) if (T.tag(v) == 'phi' and _has_raise(v)) else v, fr)
        return v

    def ex_Lambda(self, e, fr):
        a = e.args
        if a.vararg or a.kwarg or a.kwonlyargs or a.posonlyargs:
            return T.opaque('lambda with star / keyword-only parameters')
        if not hasattr(self, '_closures'):
            self._closures = {}
        key = '%s:%d:%d' % (fr.module.relpath if fr.module is not None else '?', e.lineno, e.col_offset)
        snap = dict(fr.env)
        if key in self._closures and self._closures[key][5] != snap:
            key = '%s#%d' % (key, len(self._closures))       # the same lambda expression evaluated in another environment
        # late binding, as in Python: free variables are looked up in the defining frame when the lambda is *called* (a lambda
        # made in a loop and called after it sees the loop variable's last value); variables of an enclosing comprehension
        # live in that comprehension's own cells, which keep the last item after the comprehension has finished
        self._closures[key] = (e, LiveEnv(fr, list(getattr(self, '_comp_cells', []))), fr.module, fr.cls, fr.fn, snap,
                               [self.expr(d, fr) for d in a.defaults])      # defaults are evaluated when the lambda is made
        return ('closure', key)

    def _apply_closure(self, callee, args, kwargs, fr):
        e, env0, module, cls, fn = self._closures[callee[1]][:5]
        default_values = self._closures[callee[1]][6] if len(self._closures[callee[1]]) > 6 else None
        a = e.args
        names = [x.arg for x in a.args]
        if isinstance(env0, LiveEnv):
            env0 = env0.current()
        env = dict(env0)
        if len(args) > len(names) and a.vararg is None:
            return T.raise_('TypeError')
        for n, v in zip(names, args):
            env[n] = v
        if a.vararg is not None:
            extra = list(args[len(names):])
            if any(isinstance(x, tuple) and x and x[0] == 'star' for x in extra):
                return T.opaque('star-arguments with symbolic value')
            env[a.vararg.arg] = T.tup(extra)
        extra_kw = {}
        for k, v in kwargs.items():
            if k in names and k not in names[:len(args)]:
                env[k] = v
            elif a.kwarg is not None and k not in names:
                extra_kw[k] = v
            else:
                return T.raise_('TypeError')
        if a.kwarg is not None:
            env[a.kwarg.arg] = T.dct([(T.const(k), v) for k, v in extra_kw.items()])
        defaults = a.defaults
        bound = set(names[:len(args)]) | set(kwargs)
        for j, (n, d) in enumerate(zip(names[len(names) - len(defaults):], defaults)):
            if n not in bound:
                if default_values is not None and j < len(default_values):
                    env[n] = default_values[j]
                else:
                    f0 = Frame(fn, dict(env0), fr.facts, module, cls, fr.depth + 1)
                    env[n] = self.expr(d, f0)
                bound.add(n)
        if any(n not in bound for n in names):
            return T.raise_('TypeError')
        if fr.depth > MAX_DEPTH:
            return T.opaque('inline depth exceeded in a nested function')
        f1 = Frame(fn, env, fr.facts, module, cls, fr.depth + 1)
        if isinstance(e, ast.Lambda):
            v = self.expr(e.body, f1)
            fr.facts = f1.facts
            return v
        res = self.block(e.body, f1)
        # what the body did to variables of the enclosing function (rebinding needs nonlocal, mutation does not)
        for k_, v_ in f1.env.items():
            if k_ in env0 and k_ not in names and k_ in f1.mutated and env0.get(k_) is not v_:
                env0[k_] = v_
        # parameters mutated in place: visible to the caller like for any function
        self._param_mut = {q: f1.env[q] for q in names if q in f1.mutated and q in f1.env}
        self._param_mut_fi = callee
        fr.facts = f1.facts
        if res is FALL:
            return T.NONE
        return _strip_fall(res, T.NONE)

    def ex_Yield(self, e, fr):
        fr.yields.append(self.expr(e.value, fr) if e.value is not None else T.NONE)
        return T.sym('sent', type=None)

    def ex_Starred(self, e, fr):
        return T.opaque('starred')

    def ex_ListComp(self, e, fr):
        return self._comp(e, fr, 'list')

    def ex_GeneratorExp(self, e, fr):
        return self._comp(e, fr, 'list')

    def ex_SetComp(self, e, fr):
        return self._comp(e, fr, 'list')

    def ex_DictComp(self, e, fr):
        return self._comp(e, fr, 'dict')

    def _cell_push(self):
        if not hasattr(self, '_comp_cells'):
            self._comp_cells = []
        cell = {}
        self._comp_cells.append(cell)
        return cell

    def _cell_update(self, cell, target, fr):
        for n in ast.walk(target):
            if isinstance(n, ast.Name) and n.id in fr.env:
                cell[n.id] = fr.env[n.id]

    def _comp_nested(self, e, fr, kind):
        """Several `for` clauses: supported when every iterable has a fixed shape (evaluated by unrolling)."""
        saved = dict(fr.env)
        out = []

        def rec(gi):
            if gi == len(e.generators):
                if kind == 'dict':
                    out.append((self.expr(e.key, fr), self.expr(e.value, fr)))
                else:
                    out.append(self.expr(e.elt, fr))
                return True
            g = e.generators[gi]
            items = _fixed_items(self._consume(self.expr(g.iter, fr)))
            if items is None or len(items) > UNROLL_BOUND:
                return False
            for item in items:
                self.assign(g.target, item, fr)
                self._cell_update(cell, g.target, fr)
                keep = T.TRUE
                for cnd in g.ifs:
                    keep = T.and_(keep, self.decide(self.truth(self.expr(cnd, fr), fr), fr))
                if keep == T.FALSE:
                    continue
                if keep != T.TRUE:
                    return False
                if not rec(gi + 1):
                    return False
            return True
        cell = self._cell_push()
        try:
            ok = rec(0)
        finally:
            self._comp_cells.pop()
        for k in list(fr.env):
            if k not in saved:
                del fr.env[k]
            else:
                fr.env[k] = saved[k]
        if not ok:
            return T.opaque('nested comprehension over a symbolic iterable')
        return T.dct(out) if kind == 'dict' else self._lift_seq(out, T.lst)

    def _comp(self, e, fr, kind, _it=None):
        if len(e.generators) != 1:
            return self._comp_nested(e, fr, kind)
        g = e.generators[0]
        it = self._consume(self.expr(g.iter, fr)) if _it is None else _it
        if T.tag(it) == 'phi' and it is not FALL and len(_leaves_of(it)) <= 64 \
                and all(x is not FALL and (T.tag(x) == 'raise' or _fixed_items(x) is not None) for x in _leaves_of(it)):
            # a case analysis over sequences of different fixed shapes (a filtered list, a zip of it): one comprehension per case
            return _map_leaves(it, lambda alt: alt if T.tag(alt) == 'raise' else self._comp(e, fr, kind, alt))
        items = _fixed_items(it)
        saved = dict(fr.env)
        entered = False
        cell = self._cell_push()
        try:
            if items is not None and len(items) <= UNROLL_BOUND:
                out = []          # [(keep condition, element)]
                n_sym = 0
                for item in items:
                    self.assign(g.target, item, fr)
                    self._cell_update(cell, g.target, fr)
                    keep = T.TRUE
                    for cnd in g.ifs:
                        keep = T.and_(keep, self.decide(self.truth(self.expr(cnd, fr), fr), fr))
                    if keep == T.FALSE:
                        continue
                    if keep != T.TRUE:
                        n_sym += 1
                        if n_sym > 8:
                            return T.opaque('comprehension filter on more than 8 symbolic values')
                    f0 = fr.facts
                    fr.facts = f0.add(keep)
                    if kind == 'dict':
                        out.append((keep, (self.expr(e.key, fr), self.expr(e.value, fr))))
                    else:
                        out.append((keep, self.expr(e.elt, fr)))
                    fr.facts = f0

                def build(i, acc):
                    acc = list(acc)
                    while i < len(out) and out[i][0] == T.TRUE:
                        acc.append(out[i][1])
                        i += 1
                    if i == len(out):
                        return T.dct(acc) if kind == 'dict' else self._lift_seq(list(acc), T.lst)
                    keep, el = out[i]
                    return T.phi(keep, build(i + 1, acc + [el]), build(i + 1, acc))
                return build(0, [])
            # comprehension over a comprehension: compose the bodies
            if T.is_op(it, 'MAP') and it[5] == T.TRUE and it[6] == T.const('list') and not g.ifs and kind == 'list':
                self.assign(g.target, it[3], fr)
                body = self.expr(e.elt, fr)
                return T.raw_op('MAP', it[2], body, it[4], T.TRUE, T.const('list'))
            # symbolic iterable: MAP(var, body, iter, filter)
            depth_ = getattr(self, '_comp_depth', 0)
            if _is_items(it):
                var = T.tup([T.sym('key%d' % depth_, type='str'), T.sym('val%d' % depth_)])
            else:
                var = T.sym('each%d' % depth_, **_elem_meta(it))
            self._comp_depth = depth_ + 1
            entered = True
            self.assign(g.target, var, fr)
            self._cell_update(cell, g.target, fr)
            keep = T.TRUE
            for cnd in g.ifs:
                keep = T.and_(keep, self.truth(self.expr(cnd, fr), fr))
            if kind == 'dict':
                body = T.tup([self.expr(e.key, fr), self.expr(e.value, fr)])
            else:
                body = self.expr(e.elt, fr)
            return T.raw_op('MAP', var, body, it, keep, T.const(kind))
        finally:
            self._comp_cells.pop()
            if entered:
                self._comp_depth -= 1
            # comprehension variables do not leak
            for k in list(fr.env):
                if k not in saved:
                    del fr.env[k]
                else:
                    fr.env[k] = saved[k]

    def ex_Attribute(self, e, fr):
        base = self.expr(e.value, fr)
        return self.getattr(base, e.attr, fr, e)

    def getattr(self, base, name, fr, node=None):
        k = T.tag(base)
        if k == 'raise':
            return base
        if k == 'phi':
            return T.phi(base[1], self.getattr(base[2], name, fr, node), self.getattr(base[3], name, fr, node))
        if k == 'obj':
            fields = dict(base[2])
            if name == '__class__':
                return T.clsref(base[1])
            ci = self.p.classes.get(base[1])
            if ci is not None:
                m = ci.find_method(name)
                if m is not None:
                    if m.kind == 'property':
                        v, f2 = self._invoke(m, [base], {}, fr.facts, fr.depth + 1)
                        fr.facts = f2
                        return v
                    if m.kind == 'staticmethod':
                        return T.funcref(m.qual)
                    if m.kind == 'classmethod':
                        return T.bound(T.clsref(base[1]), m.qual)
                    return T.bound(base, m.qual)
            if name in fields:
                return fields[name]
            if ci is not None:
                a = ci.find_attr(name)
                if a is not None:
                    c, node_ = a
                    return self._class_attr(c, name, fr.depth)
            return T.raw_op('ATTR', base, T.const(name))
        if T.is_op(base, 'STRUCTOBJ'):
            lay = X._struct_layout(base[2][1])
            if name == 'size' and lay is not None:
                return T.const(sum(sz for sz, _ in lay[1]))
            if name == 'format':
                return base[2]
        if k in ('func', 'bound') and name in ('__name__', '__qualname__'):
            q = base[1] if k == 'func' else base[2]
            return T.const(q.split('.')[-1])
        if k == 'closure' and name == '__name__':
            e_ = self._closures[base[1]][0]
            return T.const(getattr(e_, 'name', '<lambda>'))
        if k == 'cls':
            ci = self.p.classes.get(base[1])
            if ci is None:
                return T.opaque('unknown class')
            if ci.is_enum:
                for n, m in self._enum_members(ci, fr.depth):
                    if n == name:
                        return m
            m = ci.find_method(name)
            if m is not None:
                if m.kind == 'classmethod':
                    return T.bound(base, m.qual)
                return T.funcref(m.qual)
            a = ci.find_attr(name)
            if a is not None:
                return self._class_attr(a[0], name, fr.depth)
            if name == '__name__':
                return T.const(ci.name)
            return T.opaque('class attribute %s.%s' % (ci.name, name))
        if k == 'enum':
            if name == 'name':
                return T.const(base[2])
            if name == 'value':
                return base[3]
            ci = self.p.classes.get(base[1])
            m = ci.find_method(name) if ci is not None else None
            if m is not None:
                # a property / method the enum class defines for its members
                if m.kind == 'property':
                    v, f2 = self._invoke(m, [base], {}, fr.facts, fr.depth + 1)
                    fr.facts = f2
                    return v
                if m.kind == 'staticmethod':
                    return T.funcref(m.qual)
                if m.kind == 'classmethod':
                    return T.bound(T.clsref(ci.qual), m.qual)
                return T.bound(base, m.qual)
            return T.opaque('enum attribute')
        if k == 'module':
            mi = self.p.modules[base[1]]
            return self._module_name(mi, name, fr.depth)
        if k == 'ext':
            return X.ext_value(base[1] + '.' + name)
        if k == 'sym':
            scls = T.sym_meta(base, 'cls')
            if scls:
                ci = self.p.classes.get(scls) or self.p.classes.get(PKG + '.' + scls)
                if ci is not None:
                    if name == '__class__':
                        return T.clsref(ci.qual)
                    m = ci.find_method(name)
                    if m is not None:
                        if m.kind == 'property':
                            v, f2 = self._invoke(m, [base], {}, fr.facts, fr.depth + 1)
                            fr.facts = f2
                            return v
                        if m.kind == 'staticmethod':
                            return T.funcref(m.qual)
                        if m.kind == 'classmethod':
                            return T.bound(T.clsref(ci.qual), m.qual)
                        return T.bound(base, m.qual)
                    a = ci.find_attr(name)
                    if a is not None and (ci.slots is None or name not in ci.slots):
                        return self._class_attr(a[0], name, fr.depth)
            fmeta = T.sym_meta(base, 'fields')
            if fmeta:
                for fname, fterm in fmeta:
                    if fname == name:
                        return fterm
            return X.attr_of(self, base, name, fr)
        return X.attr_of(self, base, name, fr)

    # class-level settings (a lower-case class attribute holding True / False, which exists to be flipped by the user): with
    # SYMBOLIC_SETTINGS on they are free booleans, so that a rule can be decided for either position of the switch
    SYMBOLIC_SETTINGS = False

    def _class_attr(self, ci, name, depth):
        key = (ci.qual, name, self.backend)
        if Evaluator.SYMBOLIC_SETTINGS and is_class_setting(ci, name):
            node = ci.attrs.get(name)
            if isinstance(node, ast.Constant):
                return T.sym('SETTING:%s.%s' % (ci.name, name), type='bool')
            return T.sym('SETTING:%s.%s' % (ci.name, name), type='tuple' if isinstance(node, ast.Tuple) else 'list')
        if key in self._modconst_cache:
            return self._modconst_cache[key]
        fr = Frame(None, {}, Facts(), ci.module, ci, depth + 1)
        # class bodies see earlier class-level names
        for n, node in ci.attrs.items():
            if n == name:
                break
        v = self.expr(ci.attrs[name], fr)
        self._modconst_cache[key] = v
        return v

    def ex_Call(self, e, fr):
        # evaluate callee
        f = e.func
        # super().__init__ etc. not used in repo
        callee = None
        if isinstance(f, ast.Attribute):
            recv = self.expr(f.value, fr)
            if T.tag(recv) == 'raise':
                return recv
            return self._call_on(recv, f.attr, e, fr)
        if isinstance(f, ast.Name) and f.id == '__leadrun__' and len(e.args) == 2 and not e.keywords:
            # pseudo-call written by the source normal form (astnorm level 3): length of the leading run of `item` in `seq`
            seq, item = self.expr(e.args[0], fr), self.expr(e.args[1], fr)
            for x in (seq, item):
                if T.tag(x) == 'raise':
                    return x
            return T.raw_op('LEADRUN', seq, item)
        if isinstance(f, ast.Name) and f.id == 'setattr' and 'setattr' not in fr.env and len(e.args) == 3 and not e.keywords \
                and isinstance(e.args[0], ast.Name):
            # setattr(obj, 'name', value) with a name that is a constant when it is evaluated (a loop over a tuple of field
            # names is unrolled): the attribute store it spells
            nm = self.expr(e.args[1], fr)
            if T.is_const(nm) and isinstance(nm[1], str) and nm[1].isidentifier():
                v = self.expr(e.args[2], fr)
                if T.tag(v) == 'raise':
                    return v
                tgt = ast.Attribute(value=ast.Name(id=e.args[0].id, ctx=ast.Load()), attr=nm[1], ctx=ast.Store())
                ast.copy_location(tgt, e)
                ast.fix_missing_locations(tgt)
                self.assign(tgt, v, fr)
                return T.NONE
        callee = self.expr(f, fr)
        if callee == T.ext('builtins.map') and len(e.args) == 2 and not e.keywords and not any(isinstance(a, ast.Starred) for a in e.args):
            # map(f, it) is [f(x) for x in it] for everything this analysis observes (what is iterated, in which order)
            tmp = '__map_item%d' % getattr(self, '_comp_depth', 0)
            comp = ast.ListComp(elt=ast.Call(func=e.args[0], args=[ast.Name(id=tmp, ctx=ast.Load())], keywords=[]),
                                generators=[ast.comprehension(target=ast.Name(id=tmp, ctx=ast.Store()), iter=e.args[1], ifs=[], is_async=0)])
            ast.copy_location(comp, e)
            ast.fix_missing_locations(comp)
            return self._comp(comp, fr, 'list')
        args, kwargs = self._args(e, fr)
        if args is None:
            return T.opaque('star-args with symbolic value')
        if '**' in kwargs:
            return self._spread_kwargs(kwargs, lambda k2: self.apply(callee, args, k2, fr, e))
        return self.apply(callee, args, kwargs, fr, e)

    def _spread_kwargs(self, kwargs, cont):
        """`f(**d)` with d a case analysis over dictionaries with constant keys: one call per case"""
        spread = kwargs.pop('**')

        def alt(d):
            k2 = dict(kwargs)
            for k, x in d[1]:
                k2[k[1]] = x
            return cont(k2)
        return _map_leaves(spread, alt)

    def _args(self, e, fr):
        args = []
        for a in e.args:
            if isinstance(a, ast.Starred):
                v = self.expr(a.value, fr)
                items = _fixed_items(v)
                if items is None:
                    args.append(('star', v))
                else:
                    args.extend(items)
            else:
                args.append(self.expr(a, fr))
        kwargs = {}
        for kw in e.keywords:
            if kw.arg is None:
                v = self.expr(kw.value, fr)
                if T.tag(v) == 'dict' and all(T.is_const(k) for k, _ in v[1]):
                    for k, x in v[1]:
                        kwargs[k[1]] = x
                elif _container_phi(v) and '**' not in kwargs and \
                        all(T.tag(l) == 'dict' and all(T.is_const(k) for k, _ in l[1]) for l in _leaves_of(v)):
                    kwargs['**'] = v        # distributed by the caller (_spread_kwargs)
                else:
                    return None, None
            else:
                kwargs[kw.arg] = self.expr(kw.value, fr)
        return args, kwargs

    def _lift(self, args, kwargs, cont):
        """If an argument is a Phi with RAISE leaves, distribute the call over it (the call happens only
        on the non-raising alternative)."""
        for i, a in enumerate(args):
            if T.tag(a) == 'phi' and _has_raise(a):
                def f(x, i=i):
                    if T.tag(x) == 'raise':
                        return x
                    a2 = list(args)
                    a2[i] = x
                    return cont(a2, kwargs)
                return _map_leaves(_raise_split(a), f)
        for k, a in kwargs.items():
            if T.tag(a) == 'phi' and _has_raise(a):
                def g(x, k=k):
                    if T.tag(x) == 'raise':
                        return x
                    k2 = dict(kwargs)
                    k2[k] = x
                    return cont(args, k2)
                return _map_leaves(_raise_split(a), g)
        return None

    def _call_on(self, recv, name, e, fr):
        if T.tag(recv) == 'phi':
            # distribute over receiver alternatives
            f0 = fr.facts
            a = self._call_on(recv[2], name, e, fr)
            fa = fr.facts
            fr.facts = f0
            b = self._call_on(recv[3], name, e, fr)
            fr.facts = fa.meet(fr.facts)
            return T.phi(recv[1], a, b)
        args, kwargs = self._args(e, fr)
        if args is None:
            return T.opaque('star-args with symbolic value')
        if T.tag(recv) == 'obj' and name in ('_replace', '_asdict') and '**' not in kwargs:
            # the record helpers of typing.NamedTuple: a NEW record with some fields replaced / the fields as a mapping
            ci = self.p.classes.get(recv[1])
            if ci is not None and ci.is_record and any(b.split('.')[-1] == 'NamedTuple' for c_ in ci.mro() for b in c_.base_names) \
                    and ci.find_method(name) is None:
                f = dict(T.obj_fields(recv))
                names = [nm for nm, _ in ci.fields]
                if name == '_asdict' and not args and not kwargs and all(nm in f for nm in names):
                    return T.dct([(T.const(nm), f[nm]) for nm in names])
                if name == '_replace' and not args:
                    if any(k_ not in names for k_ in kwargs):
                        return T.raise_('ValueError')
                    f.update(kwargs)
                    return T.obj(recv[1], f)
        if '**' in kwargs:
            target = self.getattr(recv, name, fr, e)
            return self._spread_kwargs(kwargs, lambda k2: self.apply(target, args, k2, fr, e))
        target = self.getattr(recv, name, fr, e)
        if T.tag(target) in ('bound', 'func', 'cls', 'ext') or T.is_op(target, 'WEAKREF') \
                or (T.tag(target) == 'closure' and T.tag(recv) == 'obj') \
                or (T.tag(recv) == 'obj' and T.tag(target) == 'sym' and T.sym_meta(target, 'callable')):
            return self.apply(target, args, kwargs, fr, e)
        # method of a builtin-typed value
        for a in list(args) + list(kwargs.values()):
            if T.tag(a) == 'raise':
                return a
        if name in X.MUTATOR_NAMES:
            # a mutating call happens once, on the alternatives of its arguments that did not raise
            guards = [a for a in list(args) + list(kwargs.values()) if T.tag(a) == 'phi' and _has_raise(a)]
            if guards:
                a2 = [_strip_raise(a) for a in args]
                k2 = {k_: _strip_raise(v_) for k_, v_ in kwargs.items()}
                res = X.method_call(self, recv, name, a2, k2, fr, e)
                out = res
                for g in guards:
                    out = _map_leaves(_raise_split(g), lambda x, out=out: x if T.tag(x) == 'raise' else out)
                return out
            return X.method_call(self, recv, name, args, kwargs, fr, e)
        lifted = self._lift(args, kwargs, lambda a2, k2: X.method_call(self, recv, name, a2, k2, fr, e))
        if lifted is not None:
            return lifted
        return X.method_call(self, recv, name, args, kwargs, fr, e)

    def apply(self, callee, args, kwargs, fr, node=None):
        for a in list(args) + list(kwargs.values()):
            if T.tag(a) == 'raise':
                return a
        lifted = self._lift(args, kwargs, lambda a2, k2: self.apply(callee, a2, k2, fr, node))
        if lifted is not None:
            return lifted
        k = T.tag(callee)
        for i, a in enumerate(args):
            if isinstance(a, tuple) and a and a[0] == 'star':
                v = a[1]
                if T.tag(v) == 'raise':
                    return v
                if T.tag(v) == 'phi':
                    def alt(x, i=i):
                        if T.tag(x) == 'raise':
                            return x
                        items = _fixed_items(x)
                        a2 = list(args[:i]) + (items if items is not None else [('star', x)]) + list(args[i + 1:])
                        return self.apply(callee, a2, kwargs, fr, node)
                    f0 = fr.facts
                    r1 = alt(v[2])
                    f1 = fr.facts
                    fr.facts = f0
                    r2 = alt(v[3])
                    fr.facts = f1.meet(fr.facts)
                    return T.phi(v[1], r1, r2)
        if any(isinstance(a, tuple) and a and a[0] == 'star' for a in args):
            return X.star_call(self, callee, args, kwargs, fr, node)
        if k == 'phi':
            f0 = fr.facts
            a = self.apply(callee[2], args, kwargs, fr, node)
            fa = fr.facts
            fr.facts = f0
            b = self.apply(callee[3], args, kwargs, fr, node)
            fr.facts = fa.meet(fr.facts)
            return T.phi(callee[1], a, b)
        if k == 'closure':
            self._param_mut = {}
            v = self._apply_closure(callee, args, kwargs, fr)
            self._write_back_closure(callee, node, fr)
            return v
        if k == 'func':
            fi = self.p.functions[callee[1]]
            self._param_mut = {}
            v, f2 = self._invoke(fi, args, kwargs, fr.facts, fr.depth + 1)
            fr.facts = f2
            self._write_back(fi, 0, node, fr)
            return v
        if k == 'bound':
            fi = self.p.functions[callee[2]]
            self._param_mut = {}
            v, f2 = self._invoke(fi, [callee[1]] + list(args), kwargs, fr.facts, fr.depth + 1)
            fr.facts = f2
            self._write_back(fi, 1, node, fr)
            return v
        if k == 'cls':
            ci = self.p.classes[callee[1]]
            v, f2 = self._construct(ci, args, kwargs, fr.facts, fr.depth + 1)
            fr.facts = f2
            return v
        if k == 'ext':
            short = callee[1].split('.')[-1]
            if any(T.is_op(a, 'ITER') for a in args):
                if short in _ITER_CONSUMERS:
                    # eager model of the consumers (a lazy map/zip/filter takes its share when it is built: several
                    # lazy consumers of one iterator then see it exhausted, where Python would interleave them -
                    # either way not what the same call on a list gives)
                    args = [self._consume(a) for a in args]
                elif short == 'iter' and len(args) == 1:
                    return args[0]
                elif short in ('len', 'reversed'):
                    return T.raise_('TypeError')
            if short in _SHAPE_BUILTINS and not kwargs:
                for i, a in enumerate(args):
                    if _container_phi(a):
                        # a case analysis over containers of different shapes (a filtered list): the call is made per case
                        def alt(x, i=i):
                            a2 = list(args)
                            a2[i] = x
                            return self.apply(callee, a2, kwargs, fr, node)
                        return _map_leaves(a, alt)
            return X.ext_call(self, callee[1], args, kwargs, fr, node)
        if T.is_op(callee, 'PARTIAL') and len(callee) == 5 and T.tag(callee[3]) == 'tuple' and T.tag(callee[4]) == 'dict':
            kw2 = {k_[1]: v_ for k_, v_ in callee[4][1]}
            kw2.update(kwargs)
            return self.apply(callee[2], list(callee[3][1]) + list(args), kw2, fr, node)
        if T.is_op(callee, 'WEAKREF') and not args and not kwargs:
            # the referent while something else keeps it alive, else None - which of the two is not a function of the
            # program's inputs (an environment condition, like the presence of an OpenSSL algorithm)
            return T.phi(T.raw_op('BOOL', T.sym('ENV:referent of a weak reference is still alive', type='bool')), callee[2], T.NONE)
        if T.is_op(callee, 'NTCLS'):
            fields = callee[3]
            vals = {}
            for nm, a in zip(fields, args):
                vals[nm] = a
            for kq, a in kwargs.items():
                vals[kq] = a
            if set(vals) != set(fields):
                return T.raise_('TypeError')
            return T.obj('namedtuple:' + callee[2], vals)
        if k == 'sym' and T.sym_meta(callee, 'callable'):
            return T.raw_op('APPLY', callee, *args)
        return T.opaque('call of non-callable %s' % T.show(callee, maxdepth=2))


# ----------------------------------------------------------------------------
# helpers on outcome terms
# ----------------------------------------------------------------------------

def _is_int_const(t):
    return T.is_const(t) and isinstance(t[1], int) and not isinstance(t[1], bool)


_SHAPE_BUILTINS = {'zip', 'enumerate', 'list', 'tuple', 'reversed', 'dict', 'len', 'sorted'}


def _container_phi(t):
    """a Phi every alternative of which is a list / tuple / dict value (at most 64 alternatives)"""
    if T.tag(t) != 'phi' or t is FALL:
        return False
    ls = _leaves_of(t)
    return len(ls) <= 64 and all(x is not FALL and T.tag(x) in ('list', 'tuple', 'dict') for x in ls)


N_VALUE = 0xFFFFFFFFFFFFFFFFFFFFFFFFFFFFFFFEBAAEDCE6AF48A03BBFD25E8CD0364141     # order of secp256k1


def _num_const(t):
    """CURVE_ORDER is kept symbolic in terms (readable reports) but is a known number for interval reasoning."""
    return T.const(N_VALUE) if t == T.CURVE_N else t


def bounds_of(t, facts, _depth=0):
    """Inclusive integer bounds (lo, hi) for term t implied by comparison facts with constants
    (interval arithmetic through + and * by constants)."""
    lo = hi = None
    t = _num_const(t)
    if _is_int_const(t):
        return t[1], t[1]
    if T.is_op(t, 'INT') and len(t) >= 4 and T.is_const(t[3]) and t[3][1] in ('big', 'little') and len(t) == 4:
        lo = 0
        n = T.length_of(t[2])
        if n is not None and n <= 64:
            hi = 256 ** n - 1
    elif T.is_op(t, 'SK_ADD_INT') or (T.is_op(t, 'MOD') and t[3] == T.CURVE_N):
        lo, hi = 0, N_VALUE - 1
    elif T.is_op(t, 'LEN') and len(t) == 3 and T.is_op(t[2], 'STR') and len(t[2]) == 3 and T.type_of(t[2][2]) == 'int' and _depth < 4:
        # number of characters of the decimal rendering of an integer with known bounds
        l2, h2 = bounds_of(t[2][2], facts, _depth + 1)
        lo = 1
        if l2 is not None and h2 is not None:
            lens_ = [len(str(l2)), len(str(h2))] + ([1] if l2 <= 0 <= h2 else [])
            lo, hi = min(lens_), max(lens_)
    elif (T.is_op(t, 'FIND') or T.is_op(t, 'RFIND')) and len(t) == 4 and T.is_const(t[2]) and isinstance(t[2][1], (str, bytes)):
        # position of x in a constant text: -1 (absent) .. len-1; a single character known to differ from every letter is absent
        lo, hi = -1, max(len(t[2][1]) - 1, -1)
        x = t[3]
        if isinstance(t[2][1], str) and T.type_of(x) == 'str' and T.length_of(x) == 1 and facts is not None \
                and all(T.not_(T.eq(x, T.const(ch))) in facts for ch in set(t[2][1])):
            hi = -1
    if T.is_op(t, 'ADD') and _depth < 6:
        tl = th = 0
        for x in t[2:]:
            a, b = bounds_of(x, facts, _depth + 1)
            tl = None if (tl is None or a is None) else tl + a
            th = None if (th is None or b is None) else th + b
        lo, hi = tl, th
    elif T.is_op(t, 'MUL') and _depth < 6 and _is_int_const(t[2]) and t[2][1] >= 0:
        a, b = bounds_of(t[3], facts, _depth + 1)
        lo = None if a is None else a * t[2][1]
        hi = None if b is None else b * t[2][1]
    elif T.is_op(t, 'LEN'):
        lo = 0
    for f in facts:
        neg = False
        g = f
        if T.is_op(g, 'NOT'):
            neg = True
            g = g[2]
        if T.is_op(g, 'LT'):
            a, b = _num_const(g[2]), _num_const(g[3])
            if a == t and _is_int_const(b):
                if not neg:      # t < c
                    hi = b[1] - 1 if hi is None else min(hi, b[1] - 1)
                else:            # t >= c
                    lo = b[1] if lo is None else max(lo, b[1])
            elif b == t and _is_int_const(a):
                if not neg:      # c < t
                    lo = a[1] + 1 if lo is None else max(lo, a[1] + 1)
                else:            # t <= c
                    hi = a[1] if hi is None else min(hi, a[1])
        elif T.is_op(g, 'EQ') and not neg:
            a, b = g[2], g[3]
            if a == t and _is_int_const(b):
                lo = hi = b[1]
            elif b == t and _is_int_const(a):
                lo = hi = a[1]
    # a value excluded at the edge of the interval moves the edge
    for _ in range(2):
        for f in facts:
            if T.is_op(f, 'NOT') and T.is_op(f[2], 'EQ'):
                a, b = f[2][2], f[2][3]
                c = a if (b == t and _is_int_const(a)) else (b if (a == t and _is_int_const(b)) else None)
                if c is not None:
                    if lo is not None and c[1] == lo:
                        lo += 1
                    if hi is not None and c[1] == hi:
                        hi -= 1
    return lo, hi


def absorb_ser_guards(t, _memo=None):
    """`int.to_bytes(v, n)` raises OverflowError exactly when v is outside 0 .. 256^n - 1.  An explicit test of that
    range which raises OverflowError in front of the conversion adds nothing: Phi(in-range(v) ? ..SER(v, n).. :
    RAISE(OverflowError)) is the conversion itself.  (Only the message differs.)"""
    memo = {} if _memo is None else _memo
    if not isinstance(t, tuple) or t is FALL:
        return t
    if id(t) in memo:
        return memo[id(t)][1]
    k = T.tag(t)
    r = t
    if k == 'phi':
        a, b = absorb_ser_guards(t[2], memo), absorb_ser_guards(t[3], memo)
        c = t[1]
        r = T.phi(c, a, b)
        for keep, other, cond in ((a, b, c), (b, a, T.not_(c))):
            if T.tag(other) == 'raise' and other[1] == 'OverflowError':
                dec = Evaluator.__new__(Evaluator)
                for x in T.walk(keep):
                    if T.is_op(x, 'SER') and T.is_const(x[3]) and isinstance(x[3][1], int) and 0 < x[3][1] <= 64 and not T.is_const(x[2]):
                        v, top = x[2], T.const(256 ** x[3][1])
                        inside = Facts([T.not_(T.lt(v, T.const(0))), T.lt(v, top)])
                        below = Facts([T.lt(v, T.const(0))])
                        above = Facts([T.not_(T.lt(v, top))])
                        f_ = Frame(None, {}, inside, None, None, 0)
                        if dec.decide(cond, f_) != T.TRUE:
                            continue
                        f_.facts = below
                        if dec.decide(cond, f_) != T.FALSE:
                            continue
                        f_.facts = above
                        if dec.decide(cond, f_) != T.FALSE:
                            continue
                        r = keep
                        break
                if r is keep:
                    break
    elif k == 'op':
        r = ('op', t[1]) + tuple(absorb_ser_guards(x, memo) if isinstance(x, tuple) else x for x in t[2:])
        if r != t:
            r = T.op(t[1], *r[2:])
    elif k in ('list', 'tuple'):
        r = (k, tuple(absorb_ser_guards(x, memo) for x in t[1]))
    memo[id(t)] = (t, r)
    return r


def _simple_generator(fn):
    """every yield is a statement at the top level of the body or the last statement of a top-level `for` loop; no
    `while`, no `yield from`, no value received from send()"""
    ok = set()
    for s_ in fn.body:
        if isinstance(s_, ast.Expr) and isinstance(s_.value, ast.Yield):
            ok.add(id(s_.value))
        if isinstance(s_, ast.For) and s_.body and isinstance(s_.body[-1], ast.Expr) and isinstance(s_.body[-1].value, ast.Yield) \
                and not s_.orelse:
            ok.add(id(s_.body[-1].value))
    for n in ast.walk(fn):
        if isinstance(n, (ast.While, ast.YieldFrom)):
            return False
        if isinstance(n, ast.Yield) and id(n) not in ok:
            return False
    return bool(ok)


_ITER_CONSUMERS = {'list', 'tuple', 'sorted', 'set', 'frozenset', 'dict', 'sum', 'min', 'max', 'any', 'all', 'enumerate', 'zip', 'map',
                   'filter', 'bytes', 'bytearray', 'join'}

_PLAIN_DECORATORS = {'classmethod', 'staticmethod', 'property', 'abstractmethod', 'abc.abstractmethod', 'overload',
                     'typing.overload', 'wraps', 'functools.wraps', 'final', 'typing.final', 'override', 'typing.override',
                     'lru_cache', 'functools.lru_cache', 'cache', 'functools.cache', 'cached_property', 'functools.cached_property'}


def _is_dispatch(v):
    """Phi chain whose conditions all compare one symbolic key with constants (a table look-up by that key)."""
    if not isinstance(v, tuple) or T.tag(v) != 'phi':
        return False
    key = None
    n = 0
    while isinstance(v, tuple) and T.tag(v) == 'phi' and n < 40:
        c = v[1]
        if not T.is_op(c, 'EQ'):
            return False
        a, b = c[2], c[3]
        k = b if T.is_const(a) else (a if T.is_const(b) else None)
        if k is None or (key is not None and k != key):
            return False
        key = k
        v = v[3]
        n += 1
    return n >= 1


def _shallow_copy_source(e):
    """`list(x)`, `tuple(x)`, `x[:]`, `x.copy()`, `copy.copy(x)`, `sorted(x)`, `list(reversed(x))` for a plain name x: a new
    container holding the very same element objects."""
    if isinstance(e, ast.Call) and len(e.args) == 1 and not e.keywords and isinstance(e.func, ast.Name) \
            and e.func.id in ('list', 'tuple', 'sorted', 'reversed'):
        a = e.args[0]
        if isinstance(a, ast.Name):
            return a.id
        return _shallow_copy_source(a)
    if isinstance(e, ast.Call) and not e.args and not e.keywords and isinstance(e.func, ast.Attribute) and e.func.attr == 'copy' \
            and isinstance(e.func.value, ast.Name):
        return e.func.value.id
    if isinstance(e, ast.Call) and len(e.args) == 1 and isinstance(e.func, ast.Attribute) and e.func.attr == 'copy' \
            and isinstance(e.func.value, ast.Name) and e.func.value.id == 'copy' and isinstance(e.args[0], ast.Name):
        return e.args[0].id
    if isinstance(e, ast.Subscript) and isinstance(e.slice, ast.Slice) and e.slice.lower is None and e.slice.upper is None \
            and e.slice.step is None and isinstance(e.value, ast.Name):
        return e.value.id
    return None


def _mutates_name(stmts, name):
    """Do the statements mutate the object bound to `name` in place (method call, item or attribute store)?"""
    for s_ in stmts:
        for n in ast.walk(s_):
            if isinstance(n, ast.Call) and isinstance(n.func, ast.Attribute) and n.func.attr in X.MUTATOR_NAMES \
                    and isinstance(n.func.value, ast.Name) and n.func.value.id == name:
                return True
            if isinstance(n, (ast.Attribute, ast.Subscript)) and isinstance(n.ctx, (ast.Store, ast.Del)):
                root = n.value
                while isinstance(root, (ast.Attribute, ast.Subscript)):
                    root = root.value
                if isinstance(root, ast.Name) and root.id == name:
                    return True
    return False


def _walk_phi_any(t, pred):
    """Does any leaf of the Phi DAG satisfy pred?  (memoised by node identity: DAGs are shared heavily)"""
    seen = set()
    stack = [t]
    while stack:
        x = stack.pop()
        if x is not FALL and T.tag(x) == 'phi':
            i = id(x)
            if i in seen:
                continue
            seen.add(i)
            stack.append(x[2])
            stack.append(x[3])
        elif T.tag(x) == 'leaf':
            if pred(x[1]):
                return True
        elif pred(x):
            return True
    return False


def _ends_with_continue(stmts):
    return bool(stmts) and isinstance(stmts[-1], ast.Continue)


def _contains_continue(node):
    """`continue` belonging to the current loop (not to a nested loop)."""
    stack = [node]
    while stack:
        n = stack.pop()
        if isinstance(n, ast.Continue):
            return True
        if isinstance(n, (ast.For, ast.While, ast.FunctionDef, ast.Lambda)) and n is not node:
            continue
        stack.extend(ast.iter_child_nodes(n))
    return False


_MATCH_COUNTER = [0]


def desugar_match(st, relpath='?'):
    """The statements a `match` abbreviates: `tmp = subject` followed by an if/elif chain (see Evaluator.st_Match)."""
    from .loader import AnalysisError
    _MATCH_COUNTER[0] += 1
    tmp = '__match_subject_%d' % _MATCH_COUNTER[0]
    where = '%s:%d' % (relpath, st.lineno)

    def test_of(pat):
        if isinstance(pat, ast.MatchValue):
            return ast.Compare(left=ast.Name(id=tmp, ctx=ast.Load()), ops=[ast.Eq()], comparators=[pat.value])
        if isinstance(pat, ast.MatchSingleton):
            return ast.Compare(left=ast.Name(id=tmp, ctx=ast.Load()), ops=[ast.Is()], comparators=[ast.Constant(value=pat.value)])
        if isinstance(pat, ast.MatchOr):
            return ast.BoolOp(op=ast.Or(), values=[test_of(q) for q in pat.patterns])
        if isinstance(pat, ast.MatchAs) and pat.pattern is None and pat.name is None:
            return ast.Constant(value=True)
        if isinstance(pat, ast.MatchClass) and not pat.patterns and not pat.kwd_patterns:
            # `case int():` - an instance test
            return ast.Call(func=ast.Name(id='isinstance', ctx=ast.Load()), args=[ast.Name(id=tmp, ctx=ast.Load()), pat.cls], keywords=[])
        raise AnalysisError('ENGINE', '%s: match pattern %s is not modelled' % (where, type(pat).__name__))

    rest = []       # statements that stand for the cases not yet consumed (built from the last case backwards)
    for case in reversed(st.cases):
        pat, body = case.pattern, list(case.body)
        if isinstance(pat, ast.MatchAs) and pat.pattern is None and pat.name is not None:
            # a capture always matches and binds - also when its guard then fails
            bind = ast.Assign(targets=[ast.Name(id=pat.name, ctx=ast.Store())], value=ast.Name(id=tmp, ctx=ast.Load()))
            if case.guard is not None:
                stmts = [bind, ast.If(test=case.guard, body=body, orelse=rest)]
            else:
                stmts = [bind] + body
        else:
            test = test_of(pat)
            if case.guard is not None:
                test = ast.BoolOp(op=ast.And(), values=[test, case.guard])
            stmts = [ast.If(test=test, body=body, orelse=rest)]
        rest = stmts
    out = [ast.Assign(targets=[ast.Name(id=tmp, ctx=ast.Store())], value=st.subject)] + rest
    for x in out:
        ast.copy_location(x, st)
        ast.fix_missing_locations(x)
    return out


def _without_match(stmts):
    """the statement list with every `match` (at any depth of if / match nesting) replaced by what it abbreviates"""
    if not any(isinstance(n, ast.Match) for s_ in stmts for n in ast.walk(s_)):
        return stmts
    out = []
    for s_ in stmts:
        if isinstance(s_, ast.Match):
            out.extend(_without_match(desugar_match(s_)))
        elif isinstance(s_, ast.If):
            new = ast.If(test=s_.test, body=_without_match(s_.body), orelse=_without_match(s_.orelse))
            out.append(ast.copy_location(new, s_))
        else:
            out.append(s_)
    return out


def _eliminate_continue(stmts, k=None, _budget=None):
    """Structured form of a loop body: `continue` ends the iteration, so the statements that follow an `if` containing
    one are moved into the paths of that `if` which do not continue (continuation-passing rewrite; statements are
    shared, not copied)."""
    budget = [200] if _budget is None else _budget
    k = [] if k is None else k
    if not stmts:
        return k
    if _budget is None:
        stmts = _without_match(stmts)
    s_, rest = stmts[0], stmts[1:]
    if isinstance(s_, ast.Continue):
        return []
    budget[0] -= 1
    if isinstance(s_, ast.If) and _contains_continue(s_) and budget[0] > 0:
        after = _eliminate_continue(rest, k, budget)
        new = ast.If(test=s_.test, body=_eliminate_continue(s_.body, after, budget) or [ast.Pass()],
                     orelse=_eliminate_continue(s_.orelse, after, budget))
        return [ast.copy_location(new, s_)]
    return [s_] + _eliminate_continue(rest, k, budget)


def _has_fall(t):
    return _walk_phi_any(t, lambda x: x is FALL or x == FALL)


def _leaves_of(t):
    out, stack, seen = [], [t], set()
    while stack:
        x = stack.pop()
        if x is not FALL and T.tag(x) == 'phi':
            if id(x) in seen:
                continue
            seen.add(id(x))
            stack.extend([x[2], x[3]])
        else:
            out.append(x)
    return out


def _has_raise(t):
    return _walk_phi_any(t, lambda x: T.tag(x) == 'raise')


def _has_specific_raise(t, exc):
    r = T.raise_(exc)
    return _walk_phi_any(t, lambda x: x == r)


_IMPLICIT_EXC = {'ValueError', 'TypeError', 'KeyError', 'IndexError', 'AssertionError', 'OverflowError',
                 'RuntimeError', 'ArithmeticError', 'LookupError', 'AttributeError', 'InvalidKeyError',
                 'MalformedPointError', 'Error'}


def _handler_names(h):
    if h.type is None:
        return None
    if isinstance(h.type, ast.Tuple):
        return {ast.unparse(x).split('.')[-1] for x in h.type.elts}
    return {ast.unparse(h.type).split('.')[-1]}


_LIB_EXC = {'ValueError', 'AssertionError', 'MalformedPointError', 'Libsecp256k1Exception', 'RuntimeError', 'Exception',
            'BaseException', 'InvalidKeyError'}
_RAISING_OPS = {
    'IndexError': {'GETITEM'}, 'KeyError': {'GETITEM', 'DICTGET'}, 'LookupError': {'GETITEM'},
    'ValueError': {'INTCAST', 'FROMHEX', 'INDEX', 'B58DEC', 'EXTCALL', 'METHOD'},
    'TypeError': {'EXTCALL', 'METHOD'}, 'OverflowError': {'SER'},
}


def _term_may_raise(t, names):
    ops = set()
    for n in names:
        ops |= _RAISING_OPS.get(n, {'EXTCALL', 'METHOD'})
    return T.contains(t, lambda x: T.tag(x) == 'opaque' or (T.is_op(x) and x[1] in ops))


def _all_raise(t):
    if t is FALL:
        return False
    return not _walk_phi_any(t, lambda x: T.tag(x) != 'raise')


def _may_raise_implicitly(body):
    for s in body:
        for n in ast.walk(s):
            if isinstance(n, (ast.Call, ast.Subscript, ast.BinOp, ast.Attribute)):
                return True
    return False


def _map_leaves(t, f, _memo=None):
    memo = {} if _memo is None else _memo
    if T.tag(t) == 'phi' and t is not FALL:
        i = id(t)
        if i in memo:
            return memo[i][1]
        r = T.phi(t[1], _map_leaves(t[2], f, memo), _map_leaves(t[3], f, memo))
        memo[i] = (t, r)
        return r
    if T.tag(t) == 'leaf':
        return f(t[1])
    return f(t)


def _replace_fall(t, rest):
    return _map_leaves(t, lambda x: rest if x is FALL or x == FALL else x)


def _strip_fall(t, default):
    return _replace_fall(t, default)


def _raise_split(v, _memo=None):
    """Keep only the Phi structure that separates RAISE leaves from values (sub-trees without RAISE
    stay whole, so _map_leaves sees them as single leaves)."""
    memo = {} if _memo is None else _memo
    if T.tag(v) == 'phi':
        i = id(v)
        if i in memo:
            return memo[i][1]
        if _has_raise(v):
            r = ('phi', v[1], _raise_split(v[2], memo), _raise_split(v[3], memo))
        else:
            r = ('leaf', v)
        memo[i] = (v, r)
        return r
    return v


def _ok_condition(v):
    """the condition under which the case analysis v does not end in a RAISE leaf"""
    if T.tag(v) == 'raise':
        return T.FALSE
    if T.tag(v) != 'phi':
        return T.TRUE
    a, b = _ok_condition(v[2]), _ok_condition(v[3])
    c = v[1]
    if a == b:
        return a
    if a == T.TRUE:
        return T.or_(c, b)
    if a == T.FALSE:
        return T.and_(T.not_(c), b)
    if b == T.TRUE:
        return T.or_(T.not_(c), a)
    if b == T.FALSE:
        return T.and_(c, a)
    return T.or_(T.and_(c, a), T.and_(T.not_(c), b))


def _strip_raise(v, _memo=None):
    """Value of an expression on the paths where it did not raise."""
    memo = {} if _memo is None else _memo
    if T.tag(v) == 'phi':
        i = id(v)
        if i in memo:
            return memo[i][1]
        if T.tag(v[2]) == 'raise':
            r = _strip_raise(v[3], memo)
        elif T.tag(v[3]) == 'raise':
            r = _strip_raise(v[2], memo)
        else:
            r = T.phi(v[1], _strip_raise(v[2], memo), _strip_raise(v[3], memo))
        memo[i] = (v, r)
        return r
    return v


def _merge_env(c, e1, e2):
    out = {}
    for k in set(e1) | set(e2):
        if k in e1 and k in e2:
            out[k] = T.phi(c, e1[k], e2[k]) if e1[k] != e2[k] else e1[k]
        elif k in e1:
            out[k] = T.phi(c, e1[k], T.opaque('unbound %s' % k))
        else:
            out[k] = T.phi(c, T.opaque('unbound %s' % k), e2[k])
    return out


def _merge_heap(c, h1, h2):
    out = {}
    for k in set(h1) | set(h2):
        if k in h1 and k in h2:
            d1, p1 = h1[k]
            d2, p2 = h2[k]
            out[k] = (d1 if d1 == d2 else T.phi(c, d1, d2), p1 if p1 == p2 else T.phi(c, p1, p2))
        else:
            out[k] = h1.get(k) or h2.get(k)
    return out


def _fixed_items(t):
    k = T.tag(t)
    if k in ('tuple', 'list'):
        return list(t[1])
    if k == 'const' and isinstance(t[1], (str, bytes, tuple)):
        return [T.const(x) for x in t[1]]
    if k == 'dict':
        return [kk for kk, _ in t[1]]
    if T.is_op(t, 'ITEMS') and T.tag(t[2]) == 'dict':
        return [T.tup([a, b]) for a, b in t[2][1]]
    if T.is_op(t, 'VALUES') and T.tag(t[2]) == 'dict':
        return [b for _, b in t[2][1]]
    if T.is_op(t, 'KEYS') and T.tag(t[2]) == 'dict':
        return [a for a, _ in t[2][1]]
    if T.is_op(t, 'RANGE') and all(T.is_const(x) and isinstance(x[1], int) for x in t[2:]):
        r = range(*[x[1] for x in t[2:]])
        if len(r) <= UNROLL_BOUND:
            return [T.const(i) for i in r]
    if T.is_op(t, 'ZIP') and all(_fixed_items(x) is not None or T.is_op(x, 'REPEAT') for x in t[2:]) \
            and any(not T.is_op(x, 'REPEAT') for x in t[2:]):
        cols = [_fixed_items(x) for x in t[2:] if not T.is_op(x, 'REPEAT')]
        n = min(len(c) for c in cols)
        full = [([x[2]] * n if T.is_op(x, 'REPEAT') else _fixed_items(x)) for x in t[2:]]
        return [T.tup(list(z)) for z in zip(*full)]
    if T.is_op(t, 'ENUMERATE') and _fixed_items(t[2]) is not None:
        start = 0
        if len(t) > 3:
            if not (T.is_const(t[3]) and isinstance(t[3][1], int)):
                return None
            start = t[3][1]
        return [T.tup([T.const(i), x]) for i, x in enumerate(_fixed_items(t[2]), start)]
    return None


def _is_items(t):
    return T.is_op(t, 'ITEMS')


def _elem_meta(it):
    if T.is_op(it, 'RANGE') or T.is_op(it, 'RANGE_STAR'):
        return {'type': 'int'}
    if T.tag(it) == 'sym':
        em = T.sym_meta(it, 'elem')
        if em:
            return dict(em)
    if T.type_of(it) == 'str' or (T.is_op(it, 'SLICE') and T.type_of(it[2]) == 'str'):
        return {'type': 'str', 'len': 1}          # iterating a string yields its characters
    if T.type_of(it) == 'bytes' or (T.is_op(it, 'SLICE') and T.type_of(it[2]) == 'bytes'):
        return {'type': 'int'}
    return {}


def _as_load(target):
    t = ast.parse(ast.unparse(target), mode='eval').body
    return ast.copy_location(t, target)


def _contains_return(body):
    for s in body:
        for n in ast.walk(s):
            if isinstance(n, ast.Return):
                return True
    return False


_AST_MEMO = {}


def _ast_memo(kind, node, compute):
    k = (kind, id(node))
    e = _AST_MEMO.get(k)
    if e is not None and e[0] is node:
        return e[1]
    r = compute()
    _AST_MEMO[k] = (node, r)
    return r


def _contains_break_continue(node):
    return _ast_memo('bc', node, lambda: any(isinstance(n, (ast.Break, ast.Continue)) for n in ast.walk(node)))


def _is_generator(node):
    return _ast_memo('gen', node, lambda: any(isinstance(n, (ast.Yield, ast.YieldFrom)) for n in ast.walk(node)))
