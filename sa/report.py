"""Verdict protocol, obligations, known findings, evidence (DESIGN.md section 4)."""
from __future__ import annotations

import json
import os
import re
import time
import traceback

from .loader import AnalysisError

VERIF = os.path.dirname(os.path.dirname(os.path.abspath(__file__)))
HOLDS, VIOLATED, UNDECIDED = 'HOLDS', 'VIOLATED', 'UNDECIDED'


def _slug(s):
    return re.sub(r'[^A-Za-z0-9_.\-]+', '_', s)[:120]


class Obligation:
    def __init__(self, ctx, rule, construct, config, where):
        self.ctx = ctx
        self.rule = rule
        self.construct = construct
        self.config = config
        self.where = where
        self.verdict = None
        self.details = []
        self.evaluations = 0
        self.inspected = []       # constructs (file:line) actually looked at
        self.notes = []
        self.imprecise = False    # some value this obligation looked at could not be computed by the evaluator

    # -- context manager: exceptions become UNDECIDED ---------------------------------------
    def __enter__(self):
        return self

    def __exit__(self, et, ev, tb):
        if self.verdict == VIOLATED and self.imprecise and os.environ.get('VERIF_IMPRECISE_UNDECIDED') == '1':
            # a difference found next to values the evaluator could not compute (an unmodelled construct on the way) is not a
            # reliable difference: what follows an unknown value is unknown
            self.verdict = UNDECIDED
            self.details.append('part of what this obligation evaluates could not be computed by the evaluator (see the "not '
                                'computable" / Opaque entries above): the differences listed with it are consequences of that and '
                                'are not reported as violations')
        if et is None:
            if self.verdict is None:
                if self.evaluations == 0:
                    self.verdict = UNDECIDED
                    self.details.append('no construct was inspected (vacuous obligation)')
                else:
                    self.verdict = HOLDS
            self.ctx._done(self)
            return False
        from .terms import BudgetExceeded
        if issubclass(et, BudgetExceeded):
            if self.verdict != VIOLATED:
                self.verdict = UNDECIDED
            self.details.append('analysis budget: %s' % ev)
            self.ctx._done(self)
            return True
        if issubclass(et, AnalysisError):
            if self.verdict != VIOLATED:
                self.verdict = UNDECIDED
            self.details.append('analysis error: %s' % ev)
            self.ctx._done(self)
            return True
        if issubclass(et, (KeyboardInterrupt, SystemExit)):
            return False
        if self.verdict != VIOLATED:
            self.verdict = UNDECIDED
        self.details.append('internal error: %s: %s | %s' % (
            et.__name__, ev, ' <- '.join(traceback.format_tb(tb)[-3:]).replace('\n', ' ')))
        self.ctx._done(self)
        return True

    def saw(self, where):
        if where and where not in self.inspected:
            self.inspected.append(where)

    def require(self, cond, msg, where=None, expected=None, found=None):
        """One evaluated rule instance.  cond False => VIOLATED."""
        self.evaluations += 1
        self.saw(where or self.where)
        if not cond:
            self.verdict = VIOLATED
            if found is not None and 'Opaque(' in str(found):
                self.imprecise = True
            d = msg
            if expected is not None or found is not None:
                d += ' | expected: %s | found: %s' % (expected, found)
            if where:
                d = '%s: %s' % (where, d)
            self.details.append(d)
        return bool(cond)

    def undecided(self, msg, where=None):
        self.evaluations += 1
        if 'not computable by the evaluator' in msg or 'which the summary table does not model' in msg:
            self.imprecise = True
        if self.verdict != VIOLATED:
            self.verdict = UNDECIDED
        self.details.append(('%s: ' % where if where else '') + msg)

    def note(self, msg):
        self.notes.append(msg)

    def key(self):
        return '%s|%s' % (self.rule, self.construct)


class Context:
    def __init__(self, pid, tier, program, seed=0):
        self.pid = pid
        self.tier = tier
        self.p = program
        self.seed = seed
        self.obligations = []
        self.t0 = time.time()
        self.trusted = []
        self.explanation = ''
        self.not_decided = []
        self.extra = {}
        # the checks' symbolic objects are built by the analysed classes' own constructors
        from .props import common as _c
        _c.PROGRAM = program
        _c._NODE_CACHE.clear()
        from .props import C15 as _c15
        _c15._PROGRAM[0] = program

    def obligation(self, rule, construct, config=None, where=None):
        return Obligation(self, rule, construct, config, where)

    def _done(self, ob):
        self.obligations.append(ob)

    # -- floors -------------------------------------------------------------------------------
    def floor(self, rule, what, found, minimum):
        with self.obligation(rule + '.FLOOR', what) as ob:
            if found < minimum:
                ob.undecided('instance floor not met for %s: found %d, confirmed by hand %d' % (what, found, minimum))
            else:
                ob.evaluations += 1
                ob.verdict = HOLDS
                ob.note('%s: %d instances (floor %d)' % (what, found, minimum))

    # -- finishing ----------------------------------------------------------------------------
    def finish(self):
        known = load_known()
        lines = []
        violations = []
        known_hits = []
        undecided = []
        for ob in self.obligations:
            if ob.verdict == VIOLATED:
                k = match_known(known, self.pid, ob)
                if k is not None:
                    known_hits.append((ob, k))
                else:
                    violations.append(ob)
            elif ob.verdict == UNDECIDED:
                undecided.append(ob)
        st = self.p.stats() if self.p is not None else {}
        n_ob = len(self.obligations)
        n_ok = sum(1 for o in self.obligations if o.verdict == HOLDS)
        lines.append('%s analysed: %d modules, %d functions, %d call sites (%d resolved); obligations=%d discharged=%d '
                     'known=%d violated=%d undecided=%d' % (
                         self.pid, st.get('modules', 0), st.get('functions', 0), st.get('call_sites', 0),
                         st.get('resolved_call_sites', 0), n_ob, n_ok, len(known_hits), len(violations),
                         len(undecided)))
        for ob, k in known_hits:
            lines.append('KNOWN-FINDING: property=%s %s' % (self.pid, k['what']))
        replay_paths = []
        for ob in violations:
            rp = self._write_replay(ob)
            replay_paths.append(rp)
            lines.append('VIOLATION property=%s replay=%s' % (self.pid, rp))
            for d in ob.details:
                lines.append('  %s [%s%s] %s' % (ob.rule, ob.construct, ' ' + str(ob.config) if ob.config else '', d))
        for ob in undecided:
            lines.append('ANALYSIS-ERROR property=%s rule=%s construct=%s reason=%s' % (
                self.pid, ob.rule, ob.construct, '; '.join(ob.details)[:600]))
        code = 1 if violations else (2 if undecided else 0)
        self._write_evidence(n_ob, n_ok, violations, known_hits, undecided, st)
        return code, lines

    def _write_replay(self, ob):
        d = os.path.join(os.environ.get('VERIF_OUT') or os.path.join(VERIF, 'out'), 'replay', self.pid)
        os.makedirs(d, exist_ok=True)
        path = os.path.join(d, _slug('%s-%s%s' % (ob.rule, ob.construct, '-' + str(ob.config) if ob.config else ''))
                            + '.json')
        with open(path, 'w') as f:
            json.dump({
                'property': self.pid, 'rule': ob.rule, 'construct': ob.construct, 'config': ob.config,
                'where': ob.where, 'inspected': ob.inspected, 'details': ob.details, 'notes': ob.notes,
                'repo': self.p.repo if self.p else None,
                'how_to_replay': './vcheck %s --tier %s   (the checker is deterministic; the same tree gives the '
                                 'same report)' % (self.pid, self.tier),
            }, f, indent=1)
        return path

    def _write_evidence(self, n_ob, n_ok, violations, known_hits, undecided, st):
        if os.environ.get('VERIF_NO_EVIDENCE'):
            return
        os.makedirs(os.path.join(VERIF, 'evidence'), exist_ok=True)
        samples = []
        for ob in self.obligations:
            samples.append({
                'rule': ob.rule, 'construct': ob.construct, 'config': ob.config, 'verdict': ob.verdict,
                'rule_instances_evaluated': ob.evaluations, 'inspected': ob.inspected[:12],
                'detail': (ob.details + ob.notes)[:4],
            })
        evaluations = sum(o.evaluations for o in self.obligations)
        distinct = len({o.key() + '|' + str(o.config) for o in self.obligations if o.inspected})
        ev = {
            'property_id': self.pid,
            'tier': self.tier,
            'seed': self.seed,
            'level': 'other',
            'coverage': {
                'explanation': self.explanation or 'static analysis of the parsed source tree',
                'obligations': n_ob,
                'discharged': n_ok,
                'evaluations': max(evaluations, 0),
                'distinct_nontrivial': distinct,
                'rule': 'one evaluation = one rule instance (obligation clause x configuration) decided on the parsed '
                        'source; an obligation is non-trivial iff it inspected at least one real construct '
                        '(file:line recorded); distinct by (rule, construct, configuration)',
                'samples': samples,
                'units_analysed': st,
                'repo': self.p.repo if self.p else None,
                'known_findings_reported': [k['what'] for _, k in known_hits],
                'undecided': [o.key() for o in undecided],
                'not_decided_clauses': self.not_decided,
                'checker_cmd': './vcheck %s --tier %s' % (self.pid, self.tier),
                'trusted_base': self.trusted or ['CPython ast module', 'the analyser itself (sa/*.py)',
                                                 'spec tables under sa/spec (transcribed from the BIPs)'],
                'exhaustive': False,
            },
            'assumptions': _assumptions(self),
            'wall_s': round(time.time() - self.t0, 3),
            'violations': len(violations),
        }
        ev['coverage'].update(self.extra)
        with open(os.path.join(VERIF, 'evidence', '%s.json' % self.pid), 'w') as f:
            json.dump(ev, f, indent=1, default=str)


def _assumptions(ctx):
    """what this check trusts: the engine's own trusted base, the per-property note of claims.json (trusted facts about
    the specification / libraries) and the clauses the check states it does not decide"""
    out = list(ctx.trusted or ['CPython ast module parses the source as the interpreter does', 'the analyser itself (sa/*.py): '
                               'summary table of external functions (sa/externals.py), algebraic laws of the term constructors (sa/terms.py)',
                               'specification tables and reference transcriptions under sa/spec (transcribed from the BIPs)'])
    try:
        with open(os.path.join(VERIF, 'claims.json')) as f:
            note = json.load(f).get(ctx.pid, {}).get('note')
        if note:
            out.append(note)
    except Exception:
        pass
    out.extend('not decided: %s' % x for x in (ctx.not_decided or []))
    return out


def load_known():
    path = os.path.join(VERIF, 'known_findings.json')
    if not os.path.exists(path):
        return []
    with open(path) as f:
        data = json.load(f)
    return data.get('known', [])


def match_known(known, pid, ob):
    for k in known:
        if k['property'] == pid and k['rule'] == ob.rule and k['construct'] == ob.construct \
                and ('config' not in k or k['config'] == ob.config):
            # every violated detail must be one the entry lists (a different violation of the same
            # obligation is still reported)
            pats = k.get('detail_patterns')
            if pats:
                if all(any(re.search(p, d) for p in pats) for d in ob.details):
                    return k
                continue
            return k
    return None
