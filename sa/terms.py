"""Abstract value terms for the btc-hd-wallet static analyser.

A term is an immutable, hashable Python tuple whose first element is a tag.
Terms are built through the smart constructors below, which keep them in a
normal form (constant folding, Cat flattening, Slice canonicalisation against
known lengths, algebraic laws stated in DESIGN.md 3.4).  Nothing here executes
repository code: it is the value domain of the syntax-directed evaluator.
"""
from __future__ import annotations

import itertools

# ----------------------------------------------------------------------------
# basic constructors
# ----------------------------------------------------------------------------

_opaque_counter = itertools.count()


def const(v):
    return ('const', v)


TRUE = ('const', True)
FALSE = ('const', False)
NONE = ('const', None)


def is_const(t):
    return isinstance(t, tuple) and len(t) == 2 and t[0] == 'const'


def cval(t):
    return t[1]


def sym(name, **meta):
    """Free symbol (universally quantified input). meta: type=, len=, cls=."""
    return ('sym', name, tuple(sorted(meta.items())))


def sym_meta(t, key, default=None):
    for k, v in t[2]:
        if k == key:
            return v
    return default


def opaque(reason):
    return ('opaque', reason, next(_opaque_counter))


def raise_(exc):
    return ('raise', exc)


def tup(items):
    return ('tuple', tuple(items))


def lst(items):
    return ('list', tuple(items))


def dct(pairs):
    return ('dict', tuple(pairs))


def obj(cls, fields):
    return ('obj', cls, tuple(sorted(fields.items())))


def obj_fields(t):
    return dict(t[2])


def obj_set(t, name, value):
    f = dict(t[2])
    f[name] = value
    return ('obj', t[1], tuple(sorted(f.items())))


def clsref(qual):
    return ('cls', qual)


def funcref(qual):
    return ('func', qual)


def bound(selfterm, qual):
    return ('bound', selfterm, qual)


def ext(dotted):
    return ('ext', dotted)


def enum_member(cls, name, value):
    return ('enum', cls, name, value)


def tag(t):
    return t[0] if isinstance(t, tuple) and t else None


def is_op(t, name=None):
    return isinstance(t, tuple) and len(t) >= 2 and t[0] == 'op' and (name is None or t[1] == name)


# ----------------------------------------------------------------------------
# type and length inference
# ----------------------------------------------------------------------------

BYTES_OPS = {'CAT', 'SLICE', 'SER', 'SER_SIGNED', 'HMAC512', 'HMAC', 'SHA256', 'SHA512', 'RIPEMD160', 'PBKDF2',
             'ENCODE', 'SEC', 'SK_ADD', 'FROMHEX', 'B58DEC', 'B64ENC', 'BYTES', 'REPB'}
STR_OPS = {'NORM', 'HEX', 'B58ENC', 'BECH32', 'FORMAT', 'STR', 'DECODE', 'JOIN', 'UPPER', 'STRIP', 'BIN', 'ZFILL',
           'STRCAT', 'JSON', 'LOWER'}
INT_OPS = {'INT', 'INT_SIGNED', 'ADD', 'SUB', 'MUL', 'MOD', 'FLOORDIV', 'POW', 'LEN', 'SK_ADD_INT', 'INTCAST', 'RANDBITS',
           'LSHIFT', 'RSHIFT', 'BITAND', 'BITOR', 'BITXOR', 'NEG', 'ORD', 'INT2', 'FIND', 'RFIND', 'INDEX', 'COUNT', 'LEADRUN', 'PX', 'PY'}
BOOL_OPS = {'LT', 'EQ', 'NOT', 'AND', 'OR', 'IN', 'IS', 'ISINSTANCE', 'BOOL', 'VALID_SK', 'LE', 'ALL', 'ANY'}
POINT_OPS = {'PT', 'PT_ADD', 'PARSE_PT', 'PARSE_PT_UNVALIDATED'}


def type_of(t, _depth=0):
    """Return 'int','bytes','str','bool','none','list','tuple','dict','obj:<cls>','point',... or None."""
    k = tag(t)
    if k == 'const':
        v = t[1]
        if v is None:
            return 'none'
        if isinstance(v, bool):
            return 'bool'
        if isinstance(v, int):
            return 'int'
        if isinstance(v, bytes):
            return 'bytes'
        if isinstance(v, str):
            return 'str'
        if isinstance(v, float):
            return 'float'
        return None
    if k == 'sym':
        return sym_meta(t, 'type')
    if k in ('list', 'tuple', 'dict'):
        return k
    if k == 'obj':
        return 'obj:' + t[1]
    if k == 'enum':
        return 'obj:' + t[1]
    if k == 'op':
        n = t[1]
        if n == 'REPB':
            return type_of(t[2])
        if n == 'CAT':
            for sg in t[2:]:
                ty = type_of(sg)
                if ty in ('str', 'bytes'):
                    return ty
            return 'bytes'
        if n == 'SLICE':
            return type_of(t[2])
        if n == 'GETITEM' and len(t) == 4 and tag(t[2]) in ('tuple', 'list') and t[2][1] and _depth < 3:
            # an element of a homogeneous table, whichever it is
            tys = {type_of(x, _depth + 1) for x in t[2][1][:1024]}
            if len(tys) == 1:
                return next(iter(tys))
        if n in BYTES_OPS:
            return 'bytes'
        if n in STR_OPS:
            return 'str'
        if n in INT_OPS:
            return 'int'
        if n in BOOL_OPS:
            return 'bool'
        if n in POINT_OPS:
            return 'point'
        if n == 'GETITEM':
            bt = type_of(t[2])
            if bt == 'bytes':
                return 'int'
            if bt == 'str':
                return 'str'
            return None
        if n == 'TRUEDIV':
            return 'float'
        if n == 'MAP':
            return 'list'
        if n == 'STREAM':
            return 'stream'
    if k == 'phi':
        # bounded: look through at most a few levels of alternatives (Phi DAGs can be huge)
        if _depth > 5:
            return None
        if tag(t[2]) == 'raise':
            return type_of(t[3], _depth + 1)
        if tag(t[3]) == 'raise':
            return type_of(t[2], _depth + 1)
        a = type_of(t[2], _depth + 1)
        if a is None:
            return None
        b = type_of(t[3], _depth + 1)
        if a == b:
            return a
    return None


def length_of(t):
    """Known length (bytes/str/sequence) as a Python int, or None."""
    k = tag(t)
    if k == 'const':
        if isinstance(t[1], (bytes, str)):
            return len(t[1])
        return None
    if k == 'sym':
        return sym_meta(t, 'len')
    if k in ('list', 'tuple', 'dict'):
        return len(t[1])
    if k == 'op':
        n = t[1]
        if n == 'CAT':
            tot = 0
            for s in t[2:]:
                l = length_of(s)
                if l is None:
                    return None
                tot += l
            return tot
        if n == 'SER':
            w = t[3]
            return w[1] if is_const(w) and isinstance(w[1], int) else None
        if n in ('HMAC512', 'SHA512'):
            return 64
        if n == 'SHA256':
            return 32
        if n == 'RIPEMD160':
            return 20
        if n == 'SK_ADD':
            return 32
        if n == 'SEC':
            c = t[3]
            if is_const(c):
                return 33 if c[1] else 65
            return None
        if n == 'PBKDF2':
            dk = t[6]
            if is_const(dk) and dk[1] is None:
                return 64 if t[2] == const('sha512') else None
            if is_const(dk) and isinstance(dk[1], int):
                return dk[1]
            return None
        if n == 'SLICE':
            lo, hi = t[3], t[4]
            if is_const(lo) and is_const(hi) and isinstance(lo[1], int) and isinstance(hi[1], int) \
                    and lo[1] >= 0 and hi[1] >= lo[1]:
                base = length_of(t[2])
                if base is not None:
                    return max(0, min(hi[1], base) - lo[1])
                return None
            return None
        if n == 'HEX':
            l = length_of(t[2])
            return None if l is None else 2 * l
        if n == 'FROMHEX':
            return None
        if n == 'B64ENC':
            l = length_of(t[2])
            return None if l is None else 4 * ((l + 2) // 3)
        if n == 'DECODE' or n == 'STRIP_B64':
            return length_of(t[2])
    if k == 'phi':
        a, b = length_of(t[2]), length_of(t[3])
        if a == b:
            return a
    return None


# ----------------------------------------------------------------------------
# smart constructors for operators
# ----------------------------------------------------------------------------

_NARY = {'AND', 'OR', 'ADD', 'PT_ADD', 'MUL'}


def _fold_numeric(name, pyf):
    def f(*args):
        if args and all(is_const(a) and isinstance(a[1], (int, float)) and not isinstance(a[1], bool) for a in args):
            try:
                return const(pyf(*[a[1] for a in args]))
            except Exception:
                pass
        return ('op', name) + tuple(args)
    return f


def op(name, *args):
    f = _SMART.get(name)
    if f is not None:
        if name in _NARY and len(args) != 2:
            if not args:
                return ('op', name)
            acc = args[0]
            for a in args[1:]:
                acc = f(acc, a)
            return acc
        return f(*args)
    return ('op', name) + tuple(args)


def raw_op(name, *args):
    return ('op', name) + tuple(args)


def _all_const(*ts):
    return all(is_const(t) for t in ts)


def cat(*segs):
    """Concatenation of bytes (or str) values; flattens, merges adjacent constants."""
    flat = []
    for s in segs:
        if is_op(s, 'CAT'):
            flat.extend(s[2:])
        else:
            flat.append(s)
    out = []
    for s in flat:
        if is_const(s) and isinstance(s[1], (bytes, str)) and len(s[1]) == 0:
            continue
        if not is_const(s) and length_of(s) == 0 and type_of(s) in ('bytes', 'str'):
            continue
        if out and is_const(s) and is_const(out[-1]) and type(s[1]) is type(out[-1][1]) \
                and isinstance(s[1], (bytes, str)):
            out[-1] = const(out[-1][1] + s[1])
        else:
            out.append(s)
    # re-join adjacent slices of the same base: SLICE(x,a,b) ++ SLICE(x,b,c) = SLICE(x,a,c)
    merged = []
    for s in out:
        if merged and is_op(s, 'SLICE') and is_op(merged[-1], 'SLICE') and s[2] == merged[-1][2] \
                and merged[-1][4] == s[3] and is_const(s[3]):
            merged[-1] = slice_(s[2], merged[-1][3], s[4])
        else:
            merged.append(s)
    out = _merge_byte_runs(merged)
    if not out:
        # type unknown: choose bytes if any seg typed bytes else str
        for s in segs:
            if type_of(s) == 'str':
                return const('')
        return const(b'')
    if len(out) == 1:
        return out[0]
    return ('op', 'CAT') + tuple(out)


def _byte_of(e):
    """(source, k, masked) when e selects byte k of a non-negative-or-refused integer: (src >> 8k) & 255, (src // 256**k) % 256
    (masked) or the unmasked src >> 8k / src // 256**k (everything from byte k upwards); else None."""
    def shifted(x):
        if is_op(x, 'RSHIFT') and is_const(x[3]) and isinstance(x[3][1], int) and x[3][1] > 0 and x[3][1] % 8 == 0:
            return x[2], x[3][1] // 8
        if is_op(x, 'FLOORDIV') and is_const(x[3]) and isinstance(x[3][1], int) and x[3][1] > 1:
            d, k = x[3][1], 0
            while d % 256 == 0:
                d //= 256
                k += 1
            if d == 1:
                return x[2], k
        return x, 0
    if is_op(e, 'BITAND') and const(255) in (e[2], e[3]):
        x = e[3] if e[2] == const(255) else e[2]
        src, k = shifted(x)
        return src, k, True
    if is_op(e, 'MOD') and e[3] == const(256):
        src, k = shifted(e[2])
        return src, k, True
    src, k = shifted(e)
    if k:
        return src, k, False
    return None


def _merge_byte_runs(segs):
    """Adjacent one-byte serialisations of consecutive bytes of one integer are its multi-byte serialisation:
    SER(n & 255, 1) ++ SER(n >> 8, 1) = SER(n, 2, little) (same refusals: n >> 8 fits one byte iff n fits two)."""
    out, i = [], 0
    while i < len(segs):
        s = segs[i]
        run = None
        if is_op(s, 'SER') and s[3] == const(1):
            b0 = _byte_of(s[2])
            if b0 is not None:
                j, items = i, []
                while j < len(segs) and is_op(segs[j], 'SER') and segs[j][3] == const(1):
                    bj = _byte_of(segs[j][2])
                    if bj is None or bj[0] != b0[0]:
                        break
                    items.append(bj)
                    j += 1
                ks = [k for _, k, _ in items]
                m = len(items)
                if m >= 2:
                    for order, seq in (('little', ks), ('big', ks[::-1])):
                        if seq == list(range(m)):
                            its = items if order == 'little' else items[::-1]
                            if all(mk for _, _, mk in its[:-1]):
                                src = b0[0]
                                if its[-1][2]:      # top byte masked too: the value is truncated to m bytes
                                    src = ('op', 'BITAND', src, const(256 ** m - 1))
                                run = (ser(src, const(m), const(order)), j)
                            break
        if run is not None:
            out.append(run[0])
            i = run[1]
        else:
            out.append(s)
            i += 1
    return out


def _norm_index(i, n):
    """Normalise a possibly negative/None python slice bound i against known length n."""
    if i is None:
        return None
    if i < 0 and n is not None:
        return max(0, n + i)
    return i


def slice_(t, lo, hi):
    """t[lo:hi]; lo/hi are terms (const int or const None or symbolic)."""
    n = length_of(t)
    if lo == NONE:
        lo = const(0)

    def _len_relative(b):
        # x[: len(x) - k] is x[:-k] and x[len(x) - k :] is x[-k:] for k >= 1 (both clamp the same way when len(x) < k)
        if is_op(b, 'ADD') and len(b) == 4:
            for c_, l_ in ((b[2], b[3]), (b[3], b[2])):
                if is_const(c_) and isinstance(c_[1], int) and not isinstance(c_[1], bool) and c_[1] <= -1 \
                        and is_op(l_, 'LEN') and l_[2] == t:
                    return const(c_[1])
        if is_op(b, 'LEN') and b[2] == t:
            return None
        return b
    if n is None:
        lo2, hi2 = _len_relative(lo), _len_relative(hi)
        lo = const(0) if lo2 is None and False else (lo if lo2 is None else lo2)
        hi = NONE if hi2 is None else hi2
    if lo == const(0) and hi == NONE and tag(t) not in ('phi', 'raise'):
        return t        # t[0:] / t[:] of a sequence is an equal sequence
    if is_const(lo) and is_const(hi) and (lo[1] is None or isinstance(lo[1], int)) \
            and (hi[1] is None or isinstance(hi[1], int)):
        a, b = lo[1], hi[1]
        if a is None:
            a = 0
        if n is not None:
            a = _norm_index(a, n)
            b = n if b is None else _norm_index(b, n)
            a = min(a, n)
            b = min(b, n)
            if b < a:
                b = a
        if is_op(t, 'CAT') and n is None and is_const(lo) and is_const(hi) and a == 0 \
                and isinstance(b, int) and b < 0:
            segs = list(t[2:])
            drop = -b
            while segs and drop > 0:
                l = length_of(segs[-1])
                if l is None:
                    break
                if l <= drop:
                    drop -= l
                    segs.pop()
                else:
                    segs[-1] = slice_(segs[-1], const(0), const(l - drop))
                    drop = 0
            if drop == 0:
                return cat(*segs) if segs else (const('') if type_of(t) == 'str' else const(b''))
        if is_const(t) and isinstance(t[1], (bytes, str)):
            return const(t[1][a:b])
        if a >= 0 and b is not None and 0 <= b <= a and type_of(t) in ('bytes', 'str'):
            return const(b'') if type_of(t) == 'bytes' else const('')
        if tag(t) in ('list', 'tuple') and (b is None or b >= 0) and a >= 0:
            return (t[0], t[1][a:b])
        if n is not None and a == 0 and b == n:
            return t
        # slice of a CAT with known segment lengths
        if is_op(t, 'CAT') and a >= 0 and b is not None and b >= 0:
            segs = t[2:]
            pos = 0
            res = []
            ok = True
            for s in segs:
                l = length_of(s)
                if l is None:
                    # unknown-length segment: fine if the slice ends before it, or starts inside/after
                    # its beginning and it is where the slice ends up (python truncates at the end)
                    if pos >= b:
                        break
                    if s is segs[-1]:
                        res.append(slice_(s, const(max(a - pos, 0)), const(b - pos)))
                        break
                    ok = False
                    break
                s_lo, s_hi = max(a, pos), min(b, pos + l)
                if s_lo < s_hi:
                    res.append(slice_(s, const(s_lo - pos), const(s_hi - pos)))
                pos += l
                if pos >= b:
                    break
            if ok:
                return cat(*res) if res else (const('') if type_of(t) == 'str' else const(b''))
        # slice of slice with non-negative const bounds
        if is_op(t, 'SLICE') and is_const(t[3]) and isinstance(t[3][1], int) and t[3][1] >= 0 \
                and a >= 0 and (b is None or b >= 0):
            ia = t[3][1]
            ib = t[4][1] if is_const(t[4]) else None
            if is_const(t[4]) and (ib is None or ib >= 0):
                na = ia + a
                if b is None:
                    nb = ib
                else:
                    nb = ia + b if ib is None else min(ib, ia + b)
                return slice_(t[2], const(na), const(nb))
        return ('op', 'SLICE', t, const(a), const(b))
    if is_op(t, 'CAT') and is_const(lo) and isinstance(lo[1], int) and lo[1] >= 0 and type_of(hi) == 'int':
        # drop leading segments of known length that lie entirely before lo
        segs = list(t[2:])
        shift = 0
        while segs:
            l = length_of(segs[0])
            if l is None or shift + l > lo[1]:
                break
            shift += l
            segs.pop(0)
        if shift:
            return slice_(cat(*segs), const(lo[1] - shift), sub(hi, const(shift)))
    return ('op', 'SLICE', t, lo, hi)


def getitem(t, idx):
    if tag(t) == 'dict' and len(t[1]) == 0 and tag(idx) not in ('phi', 'raise'):
        return raise_('KeyError')          # nothing is in an empty mapping
    if tag(t) == 'dict' and tag(idx) not in ('phi', 'raise', 'enum') and 0 < len(t[1]) <= 64 \
            and (not is_const(idx) or not all(is_const(k) or tag(k) == 'enum' for k, _ in t[1])):
        # look-up by a symbolic key in a table with constant keys: a case analysis over the keys
        out = raise_('KeyError')
        for k, v in reversed(t[1]):
            out = phi(eq(idx, k), v, out)
        return out
    if is_const(idx) and type(idx[1]) is int and idx[1] >= 0 and is_op(t, 'SLICE') and len(t) == 5 \
            and is_const(t[3]) and type(t[3][1]) is int and t[3][1] >= 0 \
            and (t[4] == NONE or (is_const(t[4]) and type(t[4][1]) is int and t[4][1] >= 0 and idx[1] < t[4][1] - t[3][1])):
        # x[a:b][i] is x[a + i] (both fail with IndexError when x is too short) for constant a, i >= 0 and i < b - a
        return getitem(t[2], const(t[3][1] + idx[1]))
    if is_const(idx) and idx[1] in (0, -1) and type(idx[1]) is int and is_op(t, 'SER') and t[3] == const(1):
        return t[2]           # the one byte of a one-byte serialisation is the number (valid whenever SER did not raise)
    if is_const(idx):
        i = idx[1]
        if tag(t) in ('list', 'tuple') and isinstance(i, int):
            n = len(t[1])
            if -n <= i < n:
                return t[1][i]
            return raise_('IndexError')
        if tag(t) == 'dict':
            for k, v in t[1]:
                if k == idx:
                    return v
            if all(is_const(k) or tag(k) == 'enum' for k, _ in t[1]):
                return raise_('KeyError')
        if is_const(t) and isinstance(t[1], (bytes, str, tuple)) and isinstance(i, int):
            try:
                return const(t[1][i])
            except IndexError:
                return raise_('IndexError')
        if isinstance(i, int) and type_of(t) in ('bytes', 'str'):
            n = length_of(t)
            if n is not None:
                j = i + n if i < 0 else i
                if 0 <= j < n:
                    if is_op(t, 'CAT'):
                        pos = 0
                        for s in t[2:]:
                            l = length_of(s)
                            if l is None:
                                break
                            if pos <= j < pos + l:
                                return getitem(s, const(j - pos))
                            pos += l
                    return ('op', 'GETITEM', t, const(j))
                return raise_('IndexError')
            if is_op(t, 'CAT') and i >= 0:
                pos = 0
                for s in t[2:]:
                    l = length_of(s)
                    if l is None:
                        break
                    if pos <= i < pos + l:
                        return getitem(s, const(i - pos))
                    pos += l
    if is_const(idx) and isinstance(idx[1], int) and idx[1] < 0 and is_op(t, 'CAT'):
        back = -idx[1]
        pos = 0
        for sg in reversed(t[2:]):
            l = length_of(sg)
            if l is None:
                break
            if pos < back <= pos + l:
                return getitem(sg, const(l - (back - pos)))
            pos += l
    if tag(t) == 'dict' and not is_const(idx) and tag(idx) not in ('enum', 'phi') and 0 < len(t[1]) <= 16 \
            and all(is_const(k_) for k_, _ in t[1]):
        out = raise_('KeyError')
        for k_, v_ in reversed(t[1]):
            out = phi(eq(idx, k_), v_, out)
        return out
    if tag(t) == 'dict' and tag(idx) == 'enum':
        for k, v in t[1]:
            if k == idx:
                return v
    if tag(t) == 'phi':
        return phi(t[1], getitem(t[2], idx), getitem(t[3], idx))
    return ('op', 'GETITEM', t, idx)


def ser(n, width, order):
    """n.to_bytes(width, order)"""
    if width == const(1) and order in (const('little'), const('big')):
        order = const('big')        # one byte reads the same in both orders: one canonical spelling
    if _all_const(n, width, order) and isinstance(n[1], int) and not isinstance(n[1], bool):
        try:
            return const(n[1].to_bytes(width[1], order[1]))
        except (OverflowError, ValueError, TypeError):
            return raise_('OverflowError')
    # SER(INT(b, o), len(b), o) == b
    if is_op(n, 'INT') and n[3] == order and is_const(width) and length_of(n[2]) == width[1]:
        return n[2]
    if is_op(n, 'SK_ADD_INT') and width == const(32) and order == const('big'):
        return ('op', 'SK_ADD', n[2], n[3])
    return ('op', 'SER', n, width, order)


def int_(b, order):
    """int.from_bytes(b, order)"""
    if order in (const('little'), const('big')) and length_of(b) == 1:
        order = const('big')        # one byte reads the same in both orders
    if _all_const(b, order) and isinstance(b[1], bytes):
        return const(int.from_bytes(b[1], order[1]))
    if is_op(b, 'SER') and b[4] == order:
        return b[2]           # valid whenever SER did not raise
    if is_op(b, 'SK_ADD') and order == const('big'):
        return ('op', 'SK_ADD_INT', b[2], b[3])
    # leading zero bytes do not change a big-endian integer
    if is_op(b, 'CAT') and order == const('big') and is_const(b[2]) and isinstance(b[2][1], bytes) \
            and set(b[2][1]) <= {0}:
        return int_(cat(*b[3:]), order)
    return ('op', 'INT', b, order)


def _num(t):
    return is_const(t) and isinstance(t[1], (int, float)) and not isinstance(t[1], bool)


def _add_nary(items):
    c = 0
    rest = []
    for x in items:
        if is_op(x, 'ADD'):
            for y in x[2:]:
                if _num(y):
                    c += y[1]
                else:
                    rest.append(y)
        elif _num(x):
            c += x[1]
        else:
            rest.append(x)
    rest.sort(key=repr)
    if not rest:
        return const(c)
    if c != 0:
        rest = [const(c)] + rest
    if len(rest) == 1:
        return rest[0]
    return ('op', 'ADD') + tuple(rest)


def _arith(name, pyf):
    def f(a, b):
        if _num(a) and _num(b):
            try:
                return const(pyf(a[1], b[1]))
            except Exception:
                return raise_('ArithmeticError')
        if name == 'ADD':
            return _add_nary([a, b])
        if name == 'MUL':
            x, y = sorted((a, b), key=repr)
            if x == const(1):
                return y
            if y == const(1):
                return x
            return ('op', name, x, y)
        if name == 'SUB':
            if _num(b):
                return _add_nary([a, const(-b[1])])
            # (x + y) - y
            if is_op(a, 'ADD') and b in a[2:]:
                rest = list(a[2:])
                rest.remove(b)
                return _add_nary(rest)
            if a == b:
                return const(0)
        if name in ('BITXOR', 'BITOR', 'LSHIFT', 'RSHIFT') and b == const(0) and type(b[1]) is int:
            return a
        if name in ('BITXOR', 'BITOR') and a == const(0) and type(a[1]) is int:
            return b
        if name in ('BITXOR', 'BITOR', 'BITAND') and (_int_typed(a) or _int_typed(b)):
            a, b = sorted((a, b), key=repr)          # commutative on integers: one operand order
        return ('op', name, a, b)
    return f


def add(a, b):
    ta, tb = type_of(a), type_of(b)
    if ta in ('bytes', 'str') or tb in ('bytes', 'str'):
        return cat(a, b)
    if tag(a) in ('list', 'tuple') and tag(b) == tag(a):
        return (a[0], a[1] + b[1])
    if is_const(a) and is_const(b) and isinstance(a[1], (bytes, str)) and type(a[1]) is type(b[1]):
        return const(a[1] + b[1])
    # `+` is commutative only on numbers: when neither operand is known to be numeric the order is kept
    # (the operands may be lists or strings: [witver] + data is not data + [witver])
    numeric = ('int', 'float', 'bool')
    if ta in numeric or tb in numeric or _num(a) or _num(b):
        return _ADD(a, b)
    if tag(a) in ('list', 'tuple') or tag(b) in ('list', 'tuple') or ta == 'list' or tb == 'list':
        return ('op', 'SEQCAT', a, b)
    return ('op', 'PLUS', a, b)


_ADD = _arith('ADD', lambda x, y: x + y)
sub = _arith('SUB', lambda x, y: x - y)
_MUL = _arith('MUL', lambda x, y: x * y)
floordiv = _arith('FLOORDIV', lambda x, y: x // y)
truediv = _arith('TRUEDIV', lambda x, y: x / y)
pow_ = _arith('POW', lambda x, y: x ** y)
lshift = _arith('LSHIFT', lambda x, y: x << y)
rshift = _arith('RSHIFT', lambda x, y: x >> y)
_bitand2 = _arith('BITAND', lambda x, y: x & y)


def bitand(a, b):
    """masks compose: c1 & (c2 & x) is (c1 & c2) & x  (masking a value that is already masked changes nothing)"""
    for c, o in ((a, b), (b, a)):
        if c == const(0xffffffff) and is_op(o, 'COMPRESS'):
            return o            # an output word of the RIPEMD-160 compression function is a 32-bit word already (C05.RMD-STEPS)
        if is_const(c) and type(c[1]) is int and is_op(o, 'BITAND') and len(o) == 4:
            for c2, x in ((o[2], o[3]), (o[3], o[2])):
                if is_const(c2) and type(c2[1]) is int:
                    return _bitand2(const(c[1] & c2[1]), x)
    return _bitand2(a, b)
bitor = _arith('BITOR', lambda x, y: x | y)
_bitxor2 = _arith('BITXOR', lambda x, y: x ^ y)


def bitxor(a, b):
    """xor on integers is associative and commutative: nested xors are kept flat (right-nested, operands in one order) with
    their integer constants folded into one, so that `(x ^ g1) ^ g2` and `x ^ (g1 ^ g2)` are one term"""
    r = _bitxor2(a, b)
    if not (is_op(r, 'BITXOR') and len(r) == 4 and (is_op(r[2], 'BITXOR') or is_op(r[3], 'BITXOR'))):
        return r
    ops, stack = [], [r]
    while stack:
        x = stack.pop()
        if is_op(x, 'BITXOR') and len(x) == 4:
            stack.extend([x[3], x[2]])
        else:
            ops.append(x)
    consts = [x for x in ops if is_const(x) and type(x[1]) is int]
    rest = [x for x in ops if not (is_const(x) and type(x[1]) is int)]
    if any(is_const(x) for x in rest) or not (consts or any(_int_typed(x) for x in rest)):
        return r
    c = 0
    for x in consts:
        c ^= x[1]
    rest = sorted(rest, key=repr)
    parts = ([const(c)] if c else []) + rest
    if not parts:
        return const(0)
    acc = parts[-1]
    for x in reversed(parts[:-1]):
        acc = ('op', 'BITXOR', x, acc)
    return acc


def mul(a, b):
    for x, y in ((a, b), (b, a)):
        if is_const(x) and isinstance(x[1], (bytes, str)) and is_const(y) and isinstance(y[1], int):
            return const(x[1] * y[1])
        if is_const(x) and isinstance(x[1], (bytes, str)) and (type_of(y) in ('int', None)) and not is_const(y):
            return ('op', 'REPB', x, y)          # repetition of a string: the other operand can only be a count
        if tag(x) in ('list', 'tuple') and is_const(y) and type(y[1]) is int and len(x[1]) * max(y[1], 0) <= 4096:
            return (x[0], x[1] * max(y[1], 0))
    return _MUL(a, b)


CURVE_N = ('sym', 'CURVE_ORDER', (('type', 'int'),))
INFINITY = ('sym', 'INFINITY', (('type', 'point'),))


def mod(a, b):
    if _all_const(a, b) and isinstance(a[1], int) and isinstance(b[1], int) and b[1] != 0:
        return const(a[1] % b[1])
    if is_const(a) and isinstance(a[1], str):
        return ('op', 'FORMAT%', a, b)
    # (INT(x,'big') + INT(y,'big')) mod N  ==  SK_ADD_INT(x, y)
    if b == CURVE_N and is_op(a, 'ADD'):
        xs = [_scalar_bytes(z) for z in a[2:]]
        if len(a) == 4 and all(z is not None for z in xs):
            p, q = sorted(xs, key=repr)
            return ('op', 'SK_ADD_INT', p, q)
    return ('op', 'MOD', a, b)


def _scalar_bytes(i):
    """32-byte big-endian bytes term whose integer value is the int term i (None if not of that form)."""
    if is_op(i, 'INT') and i[3] == const('big'):
        return i[2]
    if is_op(i, 'SK_ADD_INT'):
        return ('op', 'SK_ADD', i[2], i[3])
    return None


def sk_add(a, b):
    p, q = sorted((a, b), key=repr)
    return ('op', 'SK_ADD', p, q)


def sk_add_int(a, b):
    p, q = sorted((a, b), key=repr)
    return ('op', 'SK_ADD_INT', p, q)


def pt(k):
    """k*G for a 32-byte big-endian scalar term k."""
    if is_op(k, 'SK_ADD'):
        # homomorphism: (a+b)G = aG + bG
        return pt_add(pt(k[2]), pt(k[3]))
    return ('op', 'PT', k)


def pt_add(a, b):
    if a == INFINITY:
        return b
    if b == INFINITY:
        return a
    items = []
    for x in (a, b):
        if is_op(x, 'PT_ADD'):
            items.extend(x[2:])
        else:
            items.append(x)
    items.sort(key=repr)
    return ('op', 'PT_ADD') + tuple(items)


def sec(p, compressed):
    compressed = truth(compressed)
    # re-encoding a parsed 33-byte (hence compressed) encoding gives it back
    if compressed == TRUE and is_op(p, 'PARSE_PT') and length_of(p[2]) == 33:
        return p[2]
    if not is_const(compressed):
        return phi(compressed, ('op', 'SEC', p, TRUE), ('op', 'SEC', p, FALSE))
    return ('op', 'SEC', p, compressed)


def parse_pt(b):
    # parsing the SEC encoding of a point gives the point back
    if is_op(b, 'SEC'):
        return b[2]
    return ('op', 'PARSE_PT', b)


# -- comparisons / booleans ----------------------------------------------------

def _cmp_const(a, b):
    return _all_const(a, b)


def eq(a, b):
    if is_op(a, 'BARR'):        # a bytearray equals the bytes it holds
        a = a[2]
    if is_op(b, 'BARR'):
        b = b[2]
    if a == b and not _contains_opaque(a):
        return TRUE
    # injective encodings: equal encodings (same form) of equal things
    if is_op(a, 'SEC') and is_op(b, 'SEC') and a[3] == b[3]:
        return eq(a[2], b[2])
    if is_op(a, 'HEX') and is_op(b, 'HEX'):
        return eq(a[2], b[2])
    if _all_const(a, b):
        return const(a[1] == b[1] and (type(a[1]) is type(b[1]) or
                                       (isinstance(a[1], (int, float)) and isinstance(b[1], (int, float)))))
    if tag(a) == 'enum' and tag(b) == 'enum':
        return const(a == b)
    if tag(a) in ('cls', 'ext', 'func') and tag(b) in ('cls', 'ext', 'func'):
        return const(a == b)
    if tag(a) in ('tuple', 'list') and tag(b) == tag(a):
        if len(a[1]) != len(b[1]):
            return FALSE
        r = TRUE
        for x, y in zip(a[1], b[1]):
            r = and_(r, eq(x, y))
        return r
    for x, y in ((a, b), (b, a)):
        if is_op(x, 'GETITEM') and is_op(x[2], 'STR') and type_of(x[2][2]) == 'int' and is_const(y) \
                and isinstance(y[1], str) and (len(y[1]) != 1 or y[1] not in '0123456789-'):
            return FALSE
    # c == k * X on integers: X == c / k when k divides c, never otherwise (`len(b) * 8 == 128` is `len(b) == 16`)
    for x, y in ((a, b), (b, a)):
        if is_const(y) and type(y[1]) is int and is_op(x, 'MUL') and len(x) == 4:
            for kk, xx in ((x[2], x[3]), (x[3], x[2])):
                if is_const(kk) and type(kk[1]) is int and kk[1] not in (0, 1, -1) and _int_typed(xx):
                    if y[1] % kk[1]:
                        return FALSE
                    return eq(const(y[1] // kk[1]), xx)
    # first byte of a SEC encoding: 02/03 (compressed) or 04 (uncompressed), never anything else
    for x, y in ((a, b), (b, a)):
        if is_op(x, 'GETITEM') and is_op(x[2], 'SEC') and x[3] == const(0) and is_const(y) and isinstance(y[1], int) \
                and is_const(x[2][3]) and y[1] not in ((2, 3) if x[2][3][1] else (4,)):
            return FALSE
    # a piece of canonical hex text never equals a text with a character that is no lower-case hex digit
    for x, y in ((a, b), (b, a)):
        if is_const(y) and isinstance(y[1], str) and set(y[1]) - set('0123456789abcdef'):
            z = x
            while is_op(z) and z[1] in ('SLICE', 'LOWER', 'STRIP', 'LSTRIP', 'RSTRIP'):
                z = z[2]
            if is_op(z, 'HEX') and z is not x or is_op(x, 'HEX'):
                return FALSE
    # a truth value compared with a boolean constant is itself or its negation
    for x, y in ((a, b), (b, a)):
        if y in (TRUE, FALSE) and type_of(x) == 'bool':
            return x if y == TRUE else not_(x)
    # values of different known static types are never equal
    ta, tb = type_of(a), type_of(b)
    if ta and tb and ta != tb and not ({ta, tb} <= {'int', 'bool', 'float'}):
        return FALSE
    la, lb = length_of(a), length_of(b)
    if la is not None and lb is not None and la != lb and ta in ('bytes', 'str', 'list', 'tuple'):
        return FALSE
    x, y = sorted((a, b), key=repr)
    return ('op', 'EQ', x, y)


def _int_typed(t):
    return (is_const(t) and isinstance(t[1], int) and not isinstance(t[1], bool)) or type_of(t) == 'int'


def _split_const(t):
    """(symbolic part or None, integer constant part) of an integer expression."""
    if is_const(t):
        return None, t[1]
    if is_op(t, 'ADD'):
        k = 0
        rest = []
        for x in t[2:]:
            if is_const(x) and isinstance(x[1], int) and not isinstance(x[1], bool):
                k += x[1]
            else:
                rest.append(x)
        if not rest:
            return None, k
        return (rest[0] if len(rest) == 1 else ('op', 'ADD') + tuple(rest)), k
    return t, 0


def lt(a, b):
    if _all_const(a, b):
        try:
            return const(a[1] < b[1])
        except TypeError:
            return raise_('TypeError')
    if _int_typed(a) and _int_typed(b):
        # integer comparisons have one spelling: constants on the right, `c < x` as `not x < c+1`, `x + 7 > y` as `y < x + 7`
        # (so that `<= 75` / `< 76`, `> 0x7fffffff` / `>= 2**31`, `pos + 6 >= n` / `pos + 7 > n` are the same term)
        A, k1 = _split_const(a)
        B, k2 = _split_const(b)
        if A is None and B is None:
            return const(k1 < k2)
        if B is None:
            return ('op', 'LT', A, const(k2 - k1))
        if A is None:
            return not_(('op', 'LT', B, const(k1 - k2 + 1)))
        if A == B:
            return const(k1 < k2)
        # named numeric constants (the curve order, the field prime) behave like literals: they stay on the right
        a_named = tag(A) == 'sym' and A[1].isupper()
        b_named = tag(B) == 'sym' and B[1].isupper()
        if b_named and not a_named:
            return ('op', 'LT', A, _add_nary([B, const(k2 - k1)]))
        if a_named and not b_named:
            return not_(('op', 'LT', B, _add_nary([A, const(k1 + 1 - k2)])))
        if repr(A) <= repr(B):
            return ('op', 'LT', A, _add_nary([B, const(k2 - k1)]))
        return not_(('op', 'LT', B, _add_nary([A, const(k1 + 1 - k2)])))
    return ('op', 'LT', a, b)


def le(a, b):
    return not_(lt(b, a))


def not_(a):
    if is_const(a):
        return const(not a[1])
    if is_op(a, 'NOT'):
        return a[2]
    # negation normal form (De Morgan): the conjunction/disjunction stays outermost
    if is_op(a, 'AND'):
        out = FALSE
        for x in a[2:]:
            out = or_(out, not_(x))
        return out
    if is_op(a, 'OR'):
        out = TRUE
        for x in a[2:]:
            out = and_(out, not_(x))
        return out
    if tag(a) == 'phi':
        return phi(a[1], not_(a[2]), not_(a[3]))
    if tag(a) in ('list', 'tuple', 'dict'):
        return const(len(a[1]) == 0)
    if tag(a) in ('obj', 'cls', 'func', 'bound', 'enum'):
        return FALSE
    return ('op', 'NOT', truth(a))


def truth(a):
    """bool(a) as a term."""
    if is_const(a):
        return const(bool(a[1]))
    if tag(a) == 'phi':
        c, x, y = a[1], truth(a[2]), truth(a[3])
        # `c and x` evaluates to Phi(c ? x : c), `c or y` to Phi(c ? c : y): as truth values these are c & x, c | y
        if tag(x) != 'raise' and tag(y) != 'raise':
            if y == c or y == FALSE:
                return and_(c, x)
            if x == c or x == TRUE:
                return or_(c, y)
        return phi(c, x, y)
    if tag(a) == 'raise':
        return a
    t = type_of(a)
    if t == 'bool':
        return a
    if tag(a) in ('list', 'tuple', 'dict'):
        return const(len(a[1]) > 0)
    if tag(a) in ('obj', 'cls', 'func', 'bound', 'enum', 'ext', 'closure'):
        return TRUE
    if tag(a) == 'sym' and (sym_meta(a, 'callable') or sym_meta(a, 'cls')):
        return TRUE
    n = length_of(a)
    if n is not None and t in ('bytes', 'str'):
        return const(n > 0)
    if is_op(a, 'CAT') and any(is_const(x) and len(x[1]) > 0 for x in a[2:]):
        return TRUE
    if is_op(a, 'STR') and type_of(a[2]) == 'int':
        return TRUE
    if t == 'none':
        return FALSE
    return ('op', 'BOOL', a)


def and_(a, b):
    """logical conjunction of two boolean terms"""
    if a == TRUE:
        return b
    if b == TRUE:
        return a
    if a == FALSE or b == FALSE:
        return FALSE
    if a == b:
        return a
    items = []
    for x in (a, b):
        if is_op(x, 'AND'):
            items.extend(x[2:])
        else:
            items.append(x)
    seen = []
    for x in items:
        if x not in seen:
            seen.append(x)
    for x in seen:
        if not_(x) in seen:
            return FALSE
    return ('op', 'AND') + tuple(seen)


def or_(a, b):
    if a == FALSE:
        return b
    if b == FALSE:
        return a
    if a == TRUE or b == TRUE:
        return TRUE
    if a == b:
        return a
    items = []
    for x in (a, b):
        if is_op(x, 'OR'):
            items.extend(x[2:])
        else:
            items.append(x)
    seen = []
    for x in items:
        if x not in seen:
            seen.append(x)
    for x in seen:
        if not_(x) in seen:
            return TRUE
    return ('op', 'OR') + tuple(seen)


class BudgetExceeded(Exception):
    pass


# ----------------------------------------------------------------------------
# equality of DAG-shaped terms: Python compares (and hashes) nested tuples as trees, which is exponential on values
# whose alternatives share sub-terms; `same` compares by a structural hash cached per object and, when the hashes
# agree, by a comparison memoised on pairs of objects.  Same answers as `==`.
# ----------------------------------------------------------------------------
_THASH = {}


def thash(t):
    if type(t) is not tuple:
        try:
            return hash(t)
        except TypeError:
            return id(t)
    e = _THASH.get(id(t))
    if e is not None and e[0] is t:
        return e[1]
    if len(_THASH) > 3000000:
        _THASH.clear()
    h = hash(tuple([thash(x) for x in t]))
    _THASH[id(t)] = (t, h)
    return h


def same(a, b):
    if a is b:
        return True
    if type(a) is not tuple or type(b) is not tuple:
        return a == b
    if len(a) != len(b) or thash(a) != thash(b):
        return False
    return _deep_same(a, b, {})


def _deep_same(a, b, memo):
    if a is b:
        return True
    if type(a) is not tuple or type(b) is not tuple:
        return a == b
    if len(a) != len(b):
        return False
    k = (id(a), id(b))
    r = memo.get(k)
    if r is not None:
        return r
    if thash(a) != thash(b):
        memo[k] = False
        return False
    r = True
    for x, y in zip(a, b):
        if not _deep_same(x, y, memo):
            r = False
            break
    memo[k] = r
    return r


PHI_BUDGET = [0, 4000000]      # [constructed so far, limit]; reset per Evaluator


def phi(c, a, b):
    PHI_BUDGET[0] += 1
    if PHI_BUDGET[0] > PHI_BUDGET[1]:
        raise BudgetExceeded('term budget exceeded (%d Phi constructions): the value is too branchy to evaluate' % PHI_BUDGET[1])
    if c == TRUE:
        return a
    if c == FALSE:
        return b
    if same(a, b):
        return a
    if is_op(c, 'NOT'):
        return phi(c[2], b, a)
    # phi(c, phi(c, x, y), z) -> phi(c, x, z)
    if tag(a) == 'phi' and same(a[1], c):
        a = a[2]
    if tag(b) == 'phi' and same(b[1], c):
        b = b[3]
    if same(a, b):
        return a
    if a == TRUE and b == FALSE:
        return c
    if a == FALSE and b == TRUE:
        return not_(c)
    # x == y ? y : x  is x  (where they are equal either name will do: "skip the work if already normalised")
    if is_op(c, 'EQ') and len(c) == 4 and ((same(a, c[2]) and same(b, c[3])) or (same(a, c[3]) and same(b, c[2]))):
        return b
    # fixed-shape sequences of equal length (and mappings with the same keys) are joined element by element
    if tag(a) in ('list', 'tuple') and tag(b) == tag(a) and len(a[1]) == len(b[1]):
        return (a[0], tuple(x if same(x, y) else phi(c, x, y) for x, y in zip(a[1], b[1])))
    if tag(a) == 'dict' and tag(b) == 'dict' and [k for k, _ in a[1]] == [k for k, _ in b[1]]:
        return ('dict', tuple((k, (x if same(x, y) else phi(c, x, y))) for (k, x), (_, y) in zip(a[1], b[1])))
    return ('phi', c, a, b)


def in_(x, container):
    k = tag(container)
    if k in ('list', 'tuple'):
        r = FALSE
        for e in container[1]:
            r = or_(r, eq(x, e))
        return r
    if k == 'dict':
        r = FALSE
        for e, _ in container[1]:
            r = or_(r, eq(x, e))
        return r
    if is_const(container) and isinstance(container[1], str) and 0 < len(container[1]) <= 64 and not is_const(x) \
            and type_of(x) == 'str' and length_of(x) == 1 and len(set(container[1])) == len(container[1]):
        # one character in a constant alphabet: it is one of its letters
        r = FALSE
        for ch in container[1]:
            r = or_(r, eq(x, const(ch)))
        return r
    if _all_const(x, container) and isinstance(container[1], (str, bytes, tuple)):
        try:
            return const(x[1] in container[1])
        except TypeError:
            return raise_('TypeError')
    if (is_op(container, 'VALUES') or is_op(container, 'KEYS')) and tag(container[2]) == 'dict':
        items = [b if container[1] == 'VALUES' else a for a, b in container[2][1]]
        return in_(x, ('list', tuple(items)))
    return ('op', 'IN', x, container)


def is_(a, b):
    if tag(a) == 'enum' or tag(b) == 'enum':
        return eq(a, b)         # enum members are singletons: identity and equality coincide
    if tag(a) == 'phi':
        return phi(a[1], is_(a[2], b), is_(a[3], b))
    if tag(b) == 'phi':
        return phi(b[1], is_(a, b[2]), is_(a, b[3]))
    if b == NONE or a == NONE:
        other = a if b == NONE else b
        t = type_of(other)
        if is_const(other):
            return const(other[1] is None)
        if t is not None and t != 'none':
            return FALSE
        if tag(other) in ('obj', 'cls', 'func', 'bound', 'list', 'tuple', 'dict', 'enum', 'closure'):
            return FALSE
        if is_op(other, 'WEAKREF') or is_op(other, 'ITER'):
            return FALSE      # the reference / iterator object itself
        if is_op(other) and other[1] in ('STRUCTOBJ', 'HASHOBJ', 'HMACOBJ', 'LOCKOBJ', 'CSPRNG', 'PRNG', 'STREAM', 'BARR', 'NTCLS', 'ECDSA_SK',
                                         'FILE', 'RANGE', 'MAP', 'ENUMERATE', 'ZIP', 'JSON', 'JSON_SORTED'):
            return FALSE      # a library object / a computed container or text, never None
        if tag(other) == 'sym' and (sym_meta(other, 'callable') or sym_meta(other, 'cls')):
            return FALSE      # a symbol that stands for a function / an object of a class
        return ('op', 'IS', other, NONE)
    if _all_const(a, b):
        return const(a[1] is b[1] or a[1] == b[1])
    if a == b:
        return TRUE
    if tag(a) in ('cls', 'func', 'ext', 'enum') and tag(b) in ('cls', 'func', 'ext', 'enum'):
        return FALSE      # two different classes / functions / enum members
    return ('op', 'IS', a, b)


def len_(t):
    if is_op(t, 'BARR'):
        t = t[2]
    if is_op(t, 'SPLIT') and len(t) == 4 and is_const(t[3]) and isinstance(t[3][1], str) and len(t[3][1]) >= 1:
        # the number of pieces of s.split(sep) is one more than the number of separators
        return add(const(1), ('op', 'COUNT', t[2], t[3]))
    n = length_of(t)
    if n is not None:
        return const(n)
    return ('op', 'LEN', t)


_SMART = {
    'CAT': cat, 'SLICE': slice_, 'GETITEM': getitem, 'SER': ser, 'INT': int_, 'ADD': add, 'SUB': sub,
    'MUL': mul, 'MOD': mod, 'FLOORDIV': floordiv, 'TRUEDIV': truediv, 'POW': pow_, 'EQ': eq, 'LT': lt,
    'NOT': not_, 'AND': and_, 'OR': or_, 'IN': in_, 'IS': is_, 'LEN': len_, 'PT': pt, 'PT_ADD': pt_add,
    'SEC': sec, 'PARSE_PT': parse_pt, 'SK_ADD': sk_add, 'SK_ADD_INT': sk_add_int, 'LSHIFT': lshift,
    'RSHIFT': rshift, 'BITAND': bitand, 'BITOR': bitor, 'BITXOR': bitxor, 'BOOL': truth,
    'MAX': _fold_numeric('MAX', max), 'MIN': _fold_numeric('MIN', min), 'ABS': _fold_numeric('ABS', abs),
    'ROUND': _fold_numeric('ROUND', round), 'POW': _fold_numeric('POW', pow),
}


# ----------------------------------------------------------------------------
# traversal helpers
# ----------------------------------------------------------------------------

def children(t):
    k = tag(t)
    if k in ('const', 'sym', 'cls', 'func', 'ext', 'opaque', 'raise'):
        return ()
    if k == 'enum':
        return ()
    if k in ('tuple', 'list'):
        return t[1]
    if k == 'dict':
        out = []
        for a, b in t[1]:
            out.append(a)
            out.append(b)
        return out
    if k == 'obj':
        return [v for _, v in t[2]]
    if k == 'op':
        return [x for x in t[2:] if isinstance(x, tuple)]
    if k == 'phi':
        return t[1:]
    if k == 'bound':
        return (t[1],)
    return ()


def walk(t, _seen=None):
    """Yield every distinct sub-term (by identity-insensitive equality) once."""
    seen = set() if _seen is None else _seen
    stack = [t]
    while stack:
        x = stack.pop()
        if not isinstance(x, tuple):
            continue
        i = id(x)
        if i in seen:
            continue
        seen.add(i)
        yield x
        stack.extend(children(x))


def contains(t, pred):
    for x in walk(t):
        if pred(x):
            return True
    return False


def _contains_opaque(t):
    return contains(t, lambda x: tag(x) == 'opaque')


def opaques(t):
    return [x for x in walk(t) if tag(x) == 'opaque']


def occurs_outside(t, target_pred, shield_pred, _memo=None):
    """True if a sub-term satisfying target_pred occurs in t on a path that does not pass
    through a sub-term satisfying shield_pred (used for declassification)."""
    memo = {} if _memo is None else _memo
    stack = [t]
    seen = set()
    while stack:
        x = stack.pop()
        if not isinstance(x, tuple):
            continue
        i = id(x)
        if i in seen:
            continue
        seen.add(i)
        if shield_pred(x):
            continue
        if target_pred(x):
            return True
        stack.extend(children(x))
    return False


def subst(t, mapping, _memo=None):
    """Replace sub-terms according to mapping (term -> term), rebuilding through smart constructors."""
    memo = {} if _memo is None else _memo
    if not isinstance(t, tuple):
        return t
    if t in mapping:
        return mapping[t]
    i = id(t)
    if i in memo:
        return memo[i][1]
    k = tag(t)
    if k in ('const', 'sym', 'cls', 'func', 'ext', 'opaque', 'raise', 'enum'):
        r = t
    elif k in ('tuple', 'list'):
        r = (k, tuple(subst(x, mapping, memo) for x in t[1]))
    elif k == 'dict':
        r = ('dict', tuple((subst(a, mapping, memo), subst(b, mapping, memo)) for a, b in t[1]))
    elif k == 'obj':
        r = ('obj', t[1], tuple((n, subst(v, mapping, memo)) for n, v in t[2]))
    elif k == 'op':
        r = op(t[1], *[subst(x, mapping, memo) if isinstance(x, tuple) else x for x in t[2:]])
    elif k == 'phi':
        r = phi(subst(t[1], mapping, memo), subst(t[2], mapping, memo), subst(t[3], mapping, memo))
    elif k == 'bound':
        r = ('bound', subst(t[1], mapping, memo), t[2])
    else:
        r = t
    memo[i] = (t, r)
    return r


def assume(t, facts, _memo=None):
    """Simplify t under the assumption that every boolean term in `facts` holds."""
    memo = {} if _memo is None else _memo
    if not isinstance(t, tuple):
        return t
    i = id(t)
    if i in memo:
        return memo[i][1]
    k = tag(t)
    if k == 'phi':
        c = assume(t[1], facts, memo)
        if c in facts or c == TRUE:
            r = assume(t[2], facts, memo)
        elif not_(c) in facts or c == FALSE:
            r = assume(t[3], facts, memo)
        else:
            r = phi(c, assume(t[2], facts, memo), assume(t[3], facts, memo))
    elif k in ('tuple', 'list'):
        r = (k, tuple(assume(x, facts, memo) for x in t[1]))
    elif k == 'dict':
        r = ('dict', tuple((assume(a, facts, memo), assume(b, facts, memo)) for a, b in t[1]))
    elif k == 'obj':
        r = ('obj', t[1], tuple((n, assume(v, facts, memo)) for n, v in t[2]))
    elif k == 'op':
        if t in facts:
            r = TRUE
        elif type_of(t) == 'bool' and not_(t) in facts:
            r = FALSE
        else:
            r = op(t[1], *[assume(x, facts, memo) if isinstance(x, tuple) else x for x in t[2:]])
    else:
        r = t
    memo[i] = (t, r)
    return r


def phi_conditions(t):
    out = []
    for x in walk(t):
        if tag(x) == 'phi':
            c = x[1]
            if c not in out:
                out.append(c)
    return out


def _atoms(c, out):
    if is_op(c, 'NOT'):
        _atoms(c[2], out)
    elif is_op(c, 'AND') or is_op(c, 'OR'):
        for x in c[2:]:
            _atoms(x, out)
    elif is_op(c, 'BOOL') and tag(c[2]) == 'phi':
        _atoms(c[2][1], out)
        out.add(c)
    elif not is_const(c):
        out.add(c)


HOIST_BUDGET = [0, 3000000]     # [term nodes visited by the current top-level call, limit]


def hoist(t, _depth=0):
    """Canonical decision-tree form: Shannon expansion over the atomic predicates of all Phi conditions, in a fixed
    order; compound conditions (and/or/not) are decided by their atoms."""
    if _depth == 0:
        HOIST_BUDGET[0] = 0
    conds = []
    for x in walk(t):
        HOIST_BUDGET[0] += 1
        if tag(x) == 'phi' and x[1] not in conds:
            conds.append(x[1])
    if HOIST_BUDGET[0] > HOIST_BUDGET[1]:
        raise BudgetExceeded('decision-tree normal form visits more than %d term nodes: too many independent conditions to compare'
                             % HOIST_BUDGET[1])
    if not conds or _depth > 80:
        return t
    atoms = set()
    for c in conds:
        _atoms(c, atoms)
    if not atoms:
        return t
    c = sorted(atoms, key=repr)[0]
    a = assume(t, {c})
    b = assume(t, {not_(c)})
    if is_op(c, 'EQ'):
        # under x == <constant> the two are interchangeable: use the constant (so `return x` and `return 0` agree)
        done = False
        for x, y in ((c[2], c[3]), (c[3], c[2])):
            if is_const(y) and not is_const(x) and isinstance(y[1], (int, str, bytes)) and not isinstance(y[1], bool):
                a = subst(a, {x: y})
                done = True
                break
        if not done:
            # two names for one value: written with either name the branch says the same; prefer the spelling that makes
            # it coincide with the other branch
            hb = hoist(b, _depth + 1)
            for x, y in ((c[2], c[3]), (c[3], c[2])):
                if tag(x) == 'sym' and tag(y) in ('sym', 'op') and not contains(y, lambda z, x=x: z == x):
                    a2 = subst(a, {x: y})
                    if hoist(a2, _depth + 1) == hb:
                        return hb
            for x, y in ((c[2], c[3]), (c[3], c[2])):
                if tag(x) == 'sym' and tag(y) in ('sym', 'op') and not contains(y, lambda z, x=x: z == x):
                    a = subst(a, {x: y})
                    break
    return phi(c, hoist(a, _depth + 1), hoist(b, _depth + 1))


def _neg_facts(c):
    n = not_(c)
    out = [n]
    if is_op(n, 'AND'):
        out.extend(n[2:])
    if is_op(c, 'OR'):
        out.extend(not_(x) for x in c[2:])
    return out


# ----------------------------------------------------------------------------
# pretty printer (for reports)
# ----------------------------------------------------------------------------

def show(t, depth=0, maxdepth=7):
    k = tag(t)
    if depth > maxdepth:
        return '…'
    if k == 'const':
        v = t[1]
        if isinstance(v, bytes):
            return 'x' + v.hex() if len(v) <= 40 else 'x' + v[:8].hex() + '…(%d)' % len(v)
        if isinstance(v, int) and not isinstance(v, bool) and abs(v) >= 65536:
            return hex(v)
        return repr(v)
    if k == 'sym':
        return t[1]
    if k == 'opaque':
        return 'Opaque(%s)' % (t[1],)
    if k == 'raise':
        return 'RAISE(%s)' % t[1]
    if k in ('cls', 'func', 'ext'):
        return '%s:%s' % (k, t[1])
    if k == 'enum':
        return '%s.%s' % (t[1].split('.')[-1], t[2])
    if k in ('tuple', 'list'):
        o, c = ('(', ')') if k == 'tuple' else ('[', ']')
        if len(t[1]) > 16:
            return o + ', '.join(show(x, depth + 1, maxdepth) for x in t[1][:4]) + ', …(%d items)' % len(t[1]) + c
        return o + ', '.join(show(x, depth + 1, maxdepth) for x in t[1]) + c
    if k == 'dict':
        return '{' + ', '.join('%s: %s' % (show(a, depth + 1, maxdepth), show(b, depth + 1, maxdepth))
                               for a, b in t[1]) + '}'
    if k == 'obj':
        return '%s{%s}' % (t[1].split('.')[-1],
                           ', '.join('%s=%s' % (n, show(v, depth + 1, maxdepth)) for n, v in t[2]))
    if k == 'op':
        if t[1] == 'CAT':
            return 'Cat[' + ' | '.join(show(x, depth + 1, maxdepth) for x in t[2:]) + ']'
        return '%s(%s)' % (t[1], ', '.join(show(x, depth + 1, maxdepth) if isinstance(x, tuple) else repr(x)
                                         for x in t[2:]))
    if k == 'phi':
        return 'Phi(%s ? %s : %s)' % tuple(show(x, depth + 1, maxdepth) for x in t[1:])
    if k == 'bound':
        return 'bound(%s)' % t[2]
    return repr(t)


def first_difference(a, b, path=''):
    """Return (path, a_sub, b_sub) for the first structural difference between two terms, or None."""
    if a == b:
        return None
    ka, kb = tag(a), tag(b)
    if ka != kb:
        return (path, a, b)
    if ka == 'op':
        if a[1] != b[1] or len(a) != len(b):
            return (path, a, b)
        for i, (x, y) in enumerate(zip(a[2:], b[2:])):
            d = first_difference(x, y, '%s/%s.%d' % (path, a[1], i))
            if d:
                return d
        return (path, a, b)
    if ka == 'phi':
        for i, (x, y) in enumerate(zip(a[1:], b[1:])):
            d = first_difference(x, y, '%s/phi.%d' % (path, i))
            if d:
                return d
    if ka in ('tuple', 'list'):
        if len(a[1]) != len(b[1]):
            return (path, a, b)
        for i, (x, y) in enumerate(zip(a[1], b[1])):
            d = first_difference(x, y, '%s[%d]' % (path, i))
            if d:
                return d
    if ka == 'obj':
        if a[1] != b[1]:
            return (path + '.__class__', const(a[1]), const(b[1]))
        fa, fb = dict(a[2]), dict(b[2])
        for n in sorted(set(fa) | set(fb)):
            if n not in fa or n not in fb:
                return ('%s.%s' % (path, n), fa.get(n, NONE), fb.get(n, NONE))
            d = first_difference(fa[n], fb[n], '%s.%s' % (path, n))
            if d:
                return d
    if ka == 'dict':
        if len(a[1]) != len(b[1]):
            return (path, a, b)
        for (k1, v1), (k2, v2) in zip(a[1], b[1]):
            d = first_difference(k1, k2, path + '{key}')
            if d:
                return d
            d = first_difference(v1, v2, '%s{%s}' % (path, show(k1)))
            if d:
                return d
    return (path, a, b)
