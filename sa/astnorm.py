"""Behaviour-preserving source-level normalisations applied to BOTH sides of a reference comparison before the value-flow
walk (refcmp).  Each one removes a difference of *representation* that the per-loop comparison cannot see through:

  ACCUMULATOR   a local list that is only ever appended to and finally joined into a string
                    v = []; ... v.append(X) ...; [v.reverse()]; ''.join(v | reversed(v) | v[::-1])
                is the string built by appending / prepending:   v = ''; ... v = v + X | X + v ...; v
                (conditions: `v` is a plain local, bound once, and occurs in no other way - so the list cannot escape or be
                aliased; a non-string X makes both forms raise TypeError)

  INLINE        `T = helper(args)` where `helper` is a module-level function that only one side has, whose body is straight
                code ending in its single `return`: the body is spliced in with its locals renamed (the comparison then sees
                the helper's loop as a loop of the caller, as it is in the reference)

Both are decided on the syntax tree of one function; nothing here looks at literal text or positions."""
from __future__ import annotations

import ast
import copy


class _Rename(ast.NodeTransformer):
    def __init__(self, mapping):
        self.mapping = mapping

    def visit_Name(self, n):
        if n.id in self.mapping:
            return ast.copy_location(ast.Name(id=self.mapping[n.id], ctx=n.ctx), n)
        return n


def _locals_of(fn):
    names = [a.arg for a in fn.args.posonlyargs + fn.args.args + fn.args.kwonlyargs]
    for n in ast.walk(fn):
        if isinstance(n, ast.Name) and isinstance(n.ctx, (ast.Store, ast.Del)) and n.id not in names:
            names.append(n.id)
    return names


def _inlinable(fn):
    """body (without docstring) when `fn` is straight code ending in its only return"""
    if fn.decorator_list or fn.args.vararg or fn.args.kwarg or fn.args.posonlyargs or fn.args.kwonlyargs:
        return None
    body = list(fn.body)
    if body and isinstance(body[0], ast.Expr) and isinstance(body[0].value, ast.Constant) and isinstance(body[0].value.value, str):
        body = body[1:]
    if not body or not isinstance(body[-1], ast.Return) or body[-1].value is None:
        return None
    for s in body[:-1]:
        for n in ast.walk(s):
            if isinstance(n, (ast.Return, ast.Yield, ast.YieldFrom, ast.FunctionDef, ast.AsyncFunctionDef, ast.Lambda, ast.ClassDef,
                              ast.Global, ast.Nonlocal, ast.Await)):
                return None
    for n in ast.walk(body[-1]):
        if isinstance(n, (ast.Yield, ast.YieldFrom, ast.Lambda, ast.Await)):
            return None
    return body


def _bind(fn, call):
    """[(param, expr)] or None"""
    if any(isinstance(a, ast.Starred) for a in call.args) or any(k.arg is None for k in call.keywords):
        return None
    params = [a.arg for a in fn.args.args]
    dfl = dict(zip(params[len(params) - len(fn.args.defaults):], fn.args.defaults))
    got = {}
    if len(call.args) > len(params):
        return None
    for p, a in zip(params, call.args):
        got[p] = a
    for k in call.keywords:
        if k.arg not in params or k.arg in got:
            return None
        got[k.arg] = k.value
    out = []
    for p in params:
        if p in got:
            out.append((p, got[p]))
        elif p in dfl and isinstance(dfl[p], ast.Constant):
            out.append((p, dfl[p]))
        else:
            return None
    return out


def inline_helpers(fn, helpers, counter=None):
    """`helpers`: {name: FunctionDef} of module-level functions that may be spliced in.  Returns (new body, inlined names)."""
    counter = counter if counter is not None else [0]
    done = []

    def rewrite(stmts):
        out = []
        for s in stmts:
            for fld in ('body', 'orelse', 'finalbody'):
                if isinstance(getattr(s, fld, None), list) and not isinstance(s, (ast.FunctionDef, ast.ClassDef)):
                    setattr(s, fld, rewrite(getattr(s, fld)))
            if isinstance(s, ast.Assign) and len(s.targets) == 1 and isinstance(s.targets[0], ast.Name) \
                    and isinstance(s.value, ast.Call) and isinstance(s.value.func, ast.Name) and s.value.func.id in helpers:
                h = helpers[s.value.func.id]
                body = _inlinable(h)
                bind = _bind(h, s.value) if body is not None else None
                if body is not None and bind is not None:
                    counter[0] += 1
                    pre = '_inl%d_%s_' % (counter[0], h.name)
                    mapping = {nm: pre + nm for nm in _locals_of(h)}
                    for p, e in bind:
                        out.append(ast.copy_location(ast.Assign(targets=[ast.Name(id=mapping[p], ctx=ast.Store())], value=e), s))
                    for b in body[:-1]:
                        out.append(_Rename(mapping).visit(copy.deepcopy(b)))
                    ret = _Rename(mapping).visit(copy.deepcopy(body[-1].value))
                    out.append(ast.copy_location(ast.Assign(targets=[s.targets[0]], value=ret), s))
                    done.append(h.name)
                    continue
            out.append(s)
        return out
    fn.body = rewrite(fn.body)
    return done


def _is_empty_list(e):
    return (isinstance(e, ast.List) and not e.elts) or (isinstance(e, ast.Call) and isinstance(e.func, ast.Name) and e.func.id == 'list'
                                                        and not e.args and not e.keywords)


def _join_use(call, name):
    """'fwd' / 'rev' when `call` is ''.join(<name>) / ''.join(reversed(<name>) | <name>[::-1]) else None"""
    if not (isinstance(call, ast.Call) and isinstance(call.func, ast.Attribute) and call.func.attr == 'join'
            and isinstance(call.func.value, ast.Constant) and call.func.value.value == '' and len(call.args) == 1 and not call.keywords):
        return None
    a = call.args[0]
    if isinstance(a, ast.Name) and a.id == name:
        return 'fwd'
    if isinstance(a, ast.Call) and isinstance(a.func, ast.Name) and a.func.id == 'reversed' and len(a.args) == 1 and not a.keywords \
            and isinstance(a.args[0], ast.Name) and a.args[0].id == name:
        return 'rev'
    if isinstance(a, ast.Subscript) and isinstance(a.value, ast.Name) and a.value.id == name and isinstance(a.slice, ast.Slice) \
            and a.slice.lower is None and a.slice.upper is None and isinstance(a.slice.step, ast.UnaryOp) \
            and isinstance(a.slice.step.op, ast.USub) and isinstance(a.slice.step.operand, ast.Constant) and a.slice.step.operand.value == 1:
        return 'rev'
    return None


def string_accumulators(fn):
    """Rewrite every list accumulator of `fn` that is only appended to and joined (see module docstring).  Returns the names."""
    params = {a.arg for a in fn.args.posonlyargs + fn.args.args + fn.args.kwonlyargs}
    cands = []
    for i, s in enumerate(fn.body):
        if isinstance(s, ast.Assign) and len(s.targets) == 1 and isinstance(s.targets[0], ast.Name) and _is_empty_list(s.value) \
                and s.targets[0].id not in params:
            cands.append((s.targets[0].id, i))
    done = []
    for name, at in cands:
        occ = [n for n in ast.walk(fn) if isinstance(n, ast.Name) and n.id == name]
        if sum(1 for n in occ if isinstance(n.ctx, (ast.Store, ast.Del))) != 1:
            continue
        if any(isinstance(n, (ast.FunctionDef, ast.Lambda, ast.ClassDef, ast.Global, ast.Nonlocal)) for s in fn.body for n in ast.walk(s)):
            continue
        parent = {}
        for n in ast.walk(fn):
            for c in ast.iter_child_nodes(n):
                parent[id(c)] = n
        appends, joins, rev_stmt, ok = [], [], None, True
        for n in occ:
            if isinstance(n.ctx, ast.Store):
                continue
            par = parent.get(id(n))
            # v.append(X) / v.reverse() as a statement
            if isinstance(par, ast.Attribute) and par.value is n:
                call = parent.get(id(par))
                stmt = parent.get(id(call))
                if isinstance(call, ast.Call) and call.func is par and isinstance(stmt, ast.Expr) and stmt.value is call:
                    if par.attr == 'append' and len(call.args) == 1 and not call.keywords and not isinstance(call.args[0], ast.Starred):
                        appends.append((stmt, call.args[0]))
                        continue
                    if par.attr == 'reverse' and not call.args and not call.keywords and rev_stmt is None and stmt in fn.body:
                        rev_stmt = stmt
                        continue
                ok = False
                break
            # ''.join(v) / ''.join(reversed(v)) / ''.join(v[::-1])
            j = par
            if not (isinstance(j, ast.Call) and _join_use(j, name)):
                j = parent.get(id(j)) if j is not None else None
            if isinstance(j, ast.Call) and _join_use(j, name):
                joins.append(j)
                continue
            ok = False
            break
        if not ok or not appends or not joins:
            continue
        # order: every append sits in a top-level statement before the reversal and before every join; joins are in
        # top-level statements that are not loops
        def top_index(node):
            while id(node) in parent and parent[id(node)] is not fn:
                node = parent[id(node)]
            return fn.body.index(node) if node in fn.body else None
        ai = [top_index(st) for st, _ in appends]
        ji = [top_index(j) for j in joins]
        if None in ai or None in ji or min(ai) <= at:
            continue
        if any(isinstance(fn.body[k], (ast.For, ast.While, ast.AsyncFor)) for k in ji):
            continue
        ri = fn.body.index(rev_stmt) if rev_stmt is not None else None
        if ri is not None and not (max(ai) < ri < min(ji)):
            continue
        if max(ai) >= min(ji):
            continue
        kinds = {_join_use(j, name) for j in joins}
        if len(kinds) != 1:
            continue
        reversed_ = (kinds == {'rev'}) != (rev_stmt is not None)
        # rewrite
        fn.body[at].value = ast.copy_location(ast.Constant(value=''), fn.body[at].value)
        for stmt, x in appends:
            me = ast.Name(id=name, ctx=ast.Load())
            val = ast.BinOp(left=x, op=ast.Add(), right=me) if reversed_ else ast.BinOp(left=me, op=ast.Add(), right=x)
            new = ast.copy_location(ast.Assign(targets=[ast.Name(id=name, ctx=ast.Store())], value=val), stmt)
            _replace(fn, parent, stmt, new)
        for j in joins:
            _replace(fn, parent, j, ast.copy_location(ast.Name(id=name, ctx=ast.Load()), j))
        if rev_stmt is not None:
            fn.body.remove(rev_stmt)
        done.append(name)
    return done


def _replace(fn, parent, old, new):
    par = parent.get(id(old), fn)
    for fld, val in ast.iter_fields(par):
        if val is old:
            setattr(par, fld, new)
            parent[id(new)] = par
            return
        if isinstance(val, list):
            for i, x in enumerate(val):
                if x is old:
                    val[i] = new
                    parent[id(new)] = par
                    return
    raise ValueError('node to replace not found')


def leading_run_loops(fn):
    """LEADING RUN   cnt = 0 ... for c in X: (if c == ITEM: cnt += 1 / else: break)   counts the leading items of X equal to ITEM:
    the loop becomes `cnt = __leadrun__(X, ITEM)` (the evaluator turns the call into the operator LEADRUN, the same operator
    that `len(X) - len(X.lstrip(P))` is brought to by refcmp.canon).  Conditions: cnt is a plain local that is the constant 0
    when the loop is reached (its last binding before the loop, at the same nesting level), the loop has no else clause and
    the body is exactly the test-and-count shown (either arm order)."""
    done = []

    def rewrite(body):
        for i, st in enumerate(list(body)):
            for fld in ('body', 'orelse', 'finalbody'):
                sub = getattr(st, fld, None)
                if isinstance(sub, list) and sub and isinstance(sub[0], ast.stmt):
                    rewrite(sub)
            if not (isinstance(st, ast.For) and not st.orelse and isinstance(st.target, ast.Name) and len(st.body) == 1
                    and isinstance(st.body[0], ast.If)):
                continue
            iff = st.body[0]
            t = iff.test
            if not (isinstance(t, ast.Compare) and len(t.ops) == 1 and isinstance(t.ops[0], (ast.Eq, ast.NotEq))
                    and isinstance(t.left, ast.Name) and t.left.id == st.target.id):
                continue
            eq_arm, ne_arm = (iff.body, iff.orelse) if isinstance(t.ops[0], ast.Eq) else (iff.orelse, iff.body)
            if not (len(eq_arm) == 1 and isinstance(eq_arm[0], ast.AugAssign) and isinstance(eq_arm[0].op, ast.Add)
                    and isinstance(eq_arm[0].target, ast.Name) and isinstance(eq_arm[0].value, ast.Constant) and eq_arm[0].value.value == 1
                    and len(ne_arm) == 1 and isinstance(ne_arm[0], ast.Break)):
                continue
            cnt = eq_arm[0].target.id
            # the counter's last binding before the loop, in this block, must be the constant 0
            init = None
            for prev in reversed(body[:i]):
                names = {n.id for n in ast.walk(prev) if isinstance(n, ast.Name) and isinstance(n.ctx, (ast.Store, ast.Del))}
                if cnt in names:
                    init = prev
                    break
            if not (isinstance(init, ast.Assign) and len(init.targets) == 1 and isinstance(init.targets[0], ast.Name)
                    and isinstance(init.value, ast.Constant) and init.value.value == 0 and init.value.value is not False):
                continue
            if any(isinstance(n, ast.Name) and n.id in (cnt, st.target.id) for n in ast.walk(t.comparators[0])) \
                    or any(isinstance(n, ast.Name) and n.id == cnt for n in ast.walk(st.iter)):
                continue
            call = ast.Call(func=ast.Name(id='__leadrun__', ctx=ast.Load()), args=[st.iter, t.comparators[0]], keywords=[])
            new = ast.Assign(targets=[ast.Name(id=cnt, ctx=ast.Store())], value=call)
            ast.copy_location(new, st)
            body[i] = new
            done.append(cnt)
    rewrite(fn.body)
    return done


def normalise(fn, helpers, level=2):
    """Normalised deep copy of the FunctionDef `fn`; second result: what was done (for the evidence).
    level 0: nothing; 1: helper inlining; 2: helper inlining and string accumulators; 3: also leading-run counting loops."""
    fn = copy.deepcopy(fn)
    notes = []
    if level >= 1:
        inl = inline_helpers(fn, helpers)
        if inl:
            notes.append('inlined single-return helpers: %s' % sorted(set(inl)))
    if level >= 2:
        acc = string_accumulators(fn)
        if acc:
            notes.append('list accumulators joined into a string treated as string accumulators: %s' % acc)
    if level >= 3:
        lr = leading_run_loops(fn)
        if lr:
            notes.append('leading-run counting loops treated as the run-length operator: %s' % lr)
    ast.fix_missing_locations(fn)
    return fn, notes
