"""Thorough tier: obligation sensitivity analysis (DESIGN 7).  Site mutators are applied to the functions a property's
analysis actually consulted; every mutant is re-analysed (never executed) and must flip the verdict.  Survivors are
listed in the evidence - they are either equivalent edits or blind spots of the checker; they never fail the run."""
from __future__ import annotations

import ast
import copy
import os
import random
import shutil
import subprocess
import sys
from concurrent.futures import ThreadPoolExecutor

from .loader import PKG

VERIF = os.path.dirname(os.path.dirname(os.path.abspath(__file__)))

CMP_SWAP = {ast.Lt: ast.LtE, ast.LtE: ast.Lt, ast.Gt: ast.GtE, ast.GtE: ast.Gt, ast.Eq: ast.NotEq, ast.NotEq: ast.Eq,
            ast.In: ast.NotIn, ast.NotIn: ast.In, ast.Is: ast.IsNot, ast.IsNot: ast.Is}
STR_SWAP = {'big': 'little', 'little': 'big', 'NFKD': 'NFKC', 'compressed': 'uncompressed', 'uncompressed': 'compressed',
            'sha512': 'sha256', 'utf-8': 'ascii', 'p2pkh': 'p2wpkh', 'p2wpkh': 'p2pkh', "'": '"', 'h': 'H', 'm': 'M'}


def _is_docstring(node, parents):
    par = parents.get(node)
    return isinstance(par, ast.Expr)


def mutants_of_function(fi):
    """Yield (description, mutated module AST).  One node changed per mutant."""
    mod = fi.module.tree
    # index nodes of the function inside the module tree by position
    targets = []
    parents = {}
    for n in ast.walk(fi.node):
        for ch in ast.iter_child_nodes(n):
            parents[ch] = n
    for n in ast.walk(fi.node):
        targets.append(n)
    index = {id(n): i for i, n in enumerate(ast.walk(mod))}

    def clone_and(fn_edit, node, desc):
        i = index.get(id(node))
        if i is None:
            return None
        m2 = copy.deepcopy(mod)
        n2 = list(ast.walk(m2))[i]
        r = fn_edit(n2, m2)
        if r is False:
            return None
        ast.fix_missing_locations(m2)
        return ('%s:%d %s: %s' % (fi.module.relpath, getattr(node, 'lineno', 0), fi.qual[len(PKG) + 1:], desc), m2)

    def replace_child(m2, old, new):
        for par in ast.walk(m2):
            for field, val in ast.iter_fields(par):
                if val is old:
                    setattr(par, field, new)
                    return True
                if isinstance(val, list):
                    for j, x in enumerate(val):
                        if x is old:
                            val[j] = new
                            return True
        return False

    for n in targets:
        if isinstance(n, ast.Compare):
            for j, o in enumerate(n.ops):
                if type(o) in CMP_SWAP:
                    def ed(n2, m2, j=j, o=o):
                        n2.ops[j] = CMP_SWAP[type(o)]()
                    yield clone_and(ed, n, 'comparison %s -> %s' % (type(o).__name__, CMP_SWAP[type(o)].__name__))
        if isinstance(n, ast.Constant) and not _is_docstring(n, parents):
            v = n.value
            if isinstance(v, bool):
                def ed(n2, m2, v=v):
                    n2.value = not v
                yield clone_and(ed, n, 'constant %r -> %r' % (v, not v))
            elif isinstance(v, int):
                for d in (1, -1):
                    def ed(n2, m2, v=v, d=d):
                        n2.value = v + d
                    yield clone_and(ed, n, 'constant %r -> %r' % (v, v + d))
            elif isinstance(v, bytes) and v:
                def ed(n2, m2, v=v):
                    n2.value = bytes([v[0] ^ 1]) + v[1:]
                yield clone_and(ed, n, 'bytes constant %r -> first byte flipped' % (v[:6],))
            elif isinstance(v, str) and v in STR_SWAP:
                def ed(n2, m2, v=v):
                    n2.value = STR_SWAP[v]
                yield clone_and(ed, n, 'string %r -> %r' % (v, STR_SWAP[v]))
        if isinstance(n, ast.Raise) and n.exc is not None:
            def ed(n2, m2):
                return replace_child(m2, n2, ast.Expr(value=n2.exc))
            yield clone_and(ed, n, 'raise dropped (exception constructed, not raised)')
        if isinstance(n, ast.Call) and n.keywords:
            for j, k in enumerate(n.keywords):
                if k.arg is None:
                    continue
                def ed(n2, m2, j=j):
                    del n2.keywords[j]
                yield clone_and(ed, n, 'keyword %s= dropped from %s(...)' % (k.arg, ast.unparse(n.func)))
        if isinstance(n, ast.Subscript) and isinstance(n.slice, ast.Slice):
            sl = n.slice
            if sl.lower is None and sl.upper is not None:
                def ed(n2, m2):
                    n2.slice.lower, n2.slice.upper = n2.slice.upper, None
                yield clone_and(ed, n, 'slice [:n] -> [n:] in %s' % ast.unparse(n))
            elif sl.lower is not None and sl.upper is None:
                def ed(n2, m2):
                    n2.slice.lower, n2.slice.upper = None, n2.slice.lower
                yield clone_and(ed, n, 'slice [n:] -> [:n] in %s' % ast.unparse(n))
        if isinstance(n, ast.BinOp) and isinstance(n.op, ast.Add):
            def ed(n2, m2):
                n2.left, n2.right = n2.right, n2.left
            yield clone_and(ed, n, 'operands of + swapped in %s' % ast.unparse(n)[:40])
        if isinstance(n, ast.BinOp) and isinstance(n.op, (ast.Sub, ast.Mod, ast.LShift, ast.RShift)):
            swap = {ast.Sub: ast.Add, ast.Mod: ast.FloorDiv, ast.LShift: ast.RShift, ast.RShift: ast.LShift}[type(n.op)]
            def ed(n2, m2, swap=swap):
                n2.op = swap()
            yield clone_and(ed, n, 'operator %s -> %s in %s' % (type(n.op).__name__, swap.__name__, ast.unparse(n)[:40]))
        if isinstance(n, ast.If):
            def ed(n2, m2):
                n2.test = ast.UnaryOp(op=ast.Not(), operand=n2.test)
            yield clone_and(ed, n, 'condition negated: if %s' % ast.unparse(n.test)[:50])
        if isinstance(n, ast.Expr) and isinstance(n.value, ast.Call) and parents.get(n) is not None:
            def ed(n2, m2):
                return replace_child(m2, n2, ast.Pass())
            yield clone_and(ed, n, 'statement removed: %s' % ast.unparse(n)[:60])
        if isinstance(n, ast.Attribute) and isinstance(n.value, ast.Name) and n.value.id == 'self' and n.attr == 'testnet' \
                and isinstance(n.ctx, ast.Load):
            def ed(n2, m2):
                return replace_child(m2, n2, ast.Constant(value=False))
            yield clone_and(ed, n, 'self.testnet -> False')


def consulted_functions(pid, repo):
    """Functions the property's analysis evaluates (trace of the abstract evaluator) plus explicit targets."""
    from . import loader, report, evalr
    import importlib
    seen = set()
    orig_invoke = evalr.Evaluator._invoke
    orig_construct = evalr.Evaluator._construct

    def inv(self, fi, *a, **k):
        seen.add(fi.qual)
        return orig_invoke(self, fi, *a, **k)

    def con(self, ci, *a, **k):
        init = ci.find_method('__init__')
        if init is not None:
            seen.add(init.qual)
        return orig_construct(self, ci, *a, **k)
    evalr.Evaluator._invoke = inv
    evalr.Evaluator._construct = con
    try:
        prog = loader.Program(repo)
        ctx = report.Context(pid, 'thorough', prog, 0)
        mod = importlib.import_module('sa.props.%s' % pid)
        mod.run(ctx)
    finally:
        evalr.Evaluator._invoke = orig_invoke
        evalr.Evaluator._construct = orig_construct
    extra = getattr(mod, 'MUTATION_TARGETS', [])
    for q in extra:
        seen.add(PKG + '.' + q)
    return prog, [prog.functions[q] for q in sorted(seen) if q in prog.functions]


def run_thorough(pid, repo, seed=0, cap=None, jobs=None):
    cap = cap or int(os.environ.get('VERIF_MUTANT_CAP', '400'))
    jobs = jobs or int(os.environ.get('VERIF_JOBS', str(min(16, os.cpu_count() or 4))))
    prog, fns = consulted_functions(pid, repo)
    mutants = []
    for fi in fns:
        if fi.module.name.endswith('bip39_wordlist'):
            continue
        for m in mutants_of_function(fi):
            if m is not None:
                mutants.append((fi, m[0], m[1]))
    total = len(mutants)
    rnd = random.Random(seed)
    if total > cap:
        mutants = rnd.sample(mutants, cap)
    base = os.path.join(VERIF, 'out', 'thorough', pid)
    shutil.rmtree(base, ignore_errors=True)
    os.makedirs(base, exist_ok=True)
    pkg_src = os.path.join(repo, PKG)

    def one(i_m):
        i, (fi, desc, tree) = i_m
        d = os.path.join(base, 'm%04d' % i)
        try:
            shutil.copytree(pkg_src, os.path.join(d, PKG), ignore=shutil.ignore_patterns('__pycache__'))
            try:
                src = ast.unparse(tree)
                compile(src, fi.module.relpath, 'exec')
            except Exception as e:
                return (desc, 'invalid', str(e)[:80])
            with open(os.path.join(d, fi.module.relpath), 'w') as f:
                f.write(src)
            env = dict(os.environ, VERIF_NO_EVIDENCE='1', VERIF_OUT=os.path.join(d, 'out'))
            r = subprocess.run([sys.executable, '-B', '-m', 'sa.main', pid, '--repo', d, '--tier', 'quick'], cwd=VERIF,
                               capture_output=True, text=True, env=env, timeout=600)
            first = ''
            for line in r.stdout.splitlines():
                if line.startswith('  ') or line.startswith('ANALYSIS-ERROR'):
                    first = line.strip()[:200]
                    break
            return (desc, {0: 'survived', 1: 'killed', 2: 'undecided'}.get(r.returncode, 'error'), first)
        except subprocess.TimeoutExpired:
            return (desc, 'timeout', '')
        finally:
            shutil.rmtree(d, ignore_errors=True)
    with ThreadPoolExecutor(max_workers=jobs) as ex:
        results = list(ex.map(one, enumerate(mutants)))
    shutil.rmtree(base, ignore_errors=True)
    summary = {}
    for _, verdict, _ in results:
        summary[verdict] = summary.get(verdict, 0) + 1
    return {
        'functions_consulted': [f.qual[len(PKG) + 1:] for f in fns],
        'mutants_generated': total,
        'mutants_analysed': len(mutants),
        'summary': summary,
        'survivors': [d for d, v, _ in results if v == 'survived'][:200],
        'killed_samples': [(d, w) for d, v, w in results if v == 'killed'][:12],
        'undecided_samples': [(d, w) for d, v, w in results if v == 'undecided'][:12],
    }


# ---------------------------------------------------------------------------------------------------------------------
# second operator set (development sweeps and thorough tier): confusions a reviewer would not spot at once
BIN_SWAP2 = {ast.Mult: ast.FloorDiv, ast.FloorDiv: ast.Mult, ast.BitOr: ast.BitAnd, ast.BitAnd: ast.BitOr,
             ast.BitXor: ast.BitOr, ast.Add: ast.Sub}


def _local_names(fnode):
    names = []
    a = fnode.args
    for x in a.posonlyargs + a.args + a.kwonlyargs:
        if x.arg not in ('self', 'cls'):
            names.append(x.arg)
    for n in ast.walk(fnode):
        if isinstance(n, ast.Name) and isinstance(n.ctx, ast.Store) and n.id not in names:
            names.append(n.id)
    return names


def mutants_v2(fi, prog=None):
    """Yield (description, mutated module AST): boolean connective swaps, dropped `not`, swapped positional arguments,
    variable / attribute / sibling-callee confusion, removed guard, slice bound off by one, augmented operators."""
    mod = fi.module.tree
    index = {id(n): i for i, n in enumerate(ast.walk(mod))}
    parents = {}
    for n in ast.walk(fi.node):
        for ch in ast.iter_child_nodes(n):
            parents[ch] = n

    def clone_and(fn_edit, node, desc):
        i = index.get(id(node))
        if i is None:
            return None
        m2 = copy.deepcopy(mod)
        n2 = list(ast.walk(m2))[i]
        if fn_edit(n2, m2) is False:
            return None
        ast.fix_missing_locations(m2)
        return ('%s:%d %s: %s' % (fi.module.relpath, getattr(node, 'lineno', 0), fi.qual[len(PKG) + 1:], desc), m2)

    def replace_child(m2, old, new):
        for par in ast.walk(m2):
            for field, val in ast.iter_fields(par):
                if val is old:
                    setattr(par, field, new)
                    return True
                if isinstance(val, list):
                    for j, x in enumerate(val):
                        if x is old:
                            val[j] = new
                            return True
        return False

    locs = _local_names(fi.node)
    self_attrs = []
    for n in ast.walk(fi.node):
        if isinstance(n, ast.Attribute) and isinstance(n.value, ast.Name) and n.value.id == 'self' and n.attr not in self_attrs:
            self_attrs.append(n.attr)
    if fi.cls is not None:
        for c in fi.cls.mro():
            for s in (c.slots or []):
                if s not in self_attrs:
                    self_attrs.append(s)
    # sibling callables: functions of the same module / methods of the same class hierarchy with the same arity
    sib_funcs = {}
    for f2 in fi.module.functions.values() if hasattr(fi.module.functions, 'values') else []:
        if f2.cls is None:
            sib_funcs.setdefault(len(f2.params), []).append(f2.name)
    sib_meths = {}
    if fi.cls is not None:
        for c in fi.cls.mro():
            for nm, m in c.methods.items():
                if not nm.startswith('__'):
                    sib_meths.setdefault((m.kind, len(m.params)), [])
                    if nm not in sib_meths[(m.kind, len(m.params))]:
                        sib_meths[(m.kind, len(m.params))].append(nm)

    for n in ast.walk(fi.node):
        if isinstance(n, ast.BoolOp):
            def ed(n2, m2):
                n2.op = ast.Or() if isinstance(n2.op, ast.And) else ast.And()
            yield clone_and(ed, n, 'and <-> or in %s' % ast.unparse(n)[:50])
        if isinstance(n, ast.UnaryOp) and isinstance(n.op, ast.Not):
            def ed(n2, m2):
                return replace_child(m2, n2, n2.operand)
            yield clone_and(ed, n, '`not` dropped in %s' % ast.unparse(n)[:50])
        if isinstance(n, ast.Call) and len(n.args) >= 2 and not any(isinstance(x, ast.Starred) for x in n.args):
            def ed(n2, m2):
                n2.args[0], n2.args[1] = n2.args[1], n2.args[0]
            yield clone_and(ed, n, 'first two positional arguments swapped in %s' % ast.unparse(n)[:50])
        if isinstance(n, ast.Call) and len(n.keywords) >= 2:
            ks = [k for k in n.keywords if k.arg]
            for j in range(len(ks) - 1):
                def ed(n2, m2, j=j):
                    ks2 = [k for k in n2.keywords if k.arg]
                    ks2[j].value, ks2[j + 1].value = ks2[j + 1].value, ks2[j].value
                yield clone_and(ed, n, 'values of keywords %s/%s swapped in %s' % (ks[j].arg, ks[j + 1].arg, ast.unparse(n.func)))
        if isinstance(n, ast.Name) and isinstance(n.ctx, ast.Load) and n.id in locs and len(locs) > 1:
            i = locs.index(n.id)
            for alt in {locs[(i + 1) % len(locs)], locs[i - 1]} - {n.id}:
                def ed(n2, m2, alt=alt):
                    n2.id = alt
                yield clone_and(ed, n, 'variable %s -> %s' % (n.id, alt))
        if isinstance(n, ast.Attribute) and isinstance(n.value, ast.Name) and n.value.id == 'self' \
                and isinstance(n.ctx, ast.Load) and n.attr in self_attrs and len(self_attrs) > 1 \
                and not (isinstance(parents.get(n), ast.Call) and parents[n].func is n):
            i = self_attrs.index(n.attr)
            for alt in {self_attrs[(i + 1) % len(self_attrs)], self_attrs[i - 1]} - {n.attr}:
                def ed(n2, m2, alt=alt):
                    n2.attr = alt
                yield clone_and(ed, n, 'self.%s -> self.%s' % (n.attr, alt))
        if isinstance(n, ast.Call) and isinstance(n.func, ast.Name):
            for ar, names in sib_funcs.items():
                if n.func.id in names and len(names) > 1:
                    i = names.index(n.func.id)
                    alt = names[(i + 1) % len(names)]
                    def ed(n2, m2, alt=alt):
                        n2.func.id = alt
                    yield clone_and(ed, n, 'callee %s -> %s' % (n.func.id, alt))
        if isinstance(n, ast.Call) and isinstance(n.func, ast.Attribute):
            for key, names in sib_meths.items():
                if n.func.attr in names and len(names) > 1:
                    i = names.index(n.func.attr)
                    alt = names[(i + 1) % len(names)]
                    def ed(n2, m2, alt=alt):
                        n2.func.attr = alt
                    yield clone_and(ed, n, 'method %s -> %s' % (n.func.attr, alt))
        if isinstance(n, ast.If) and not n.orelse and n.body and isinstance(n.body[-1], ast.Raise):
            def ed(n2, m2):
                return replace_child(m2, n2, ast.Pass())
            yield clone_and(ed, n, 'guard removed: if %s: raise' % ast.unparse(n.test)[:50])
        if isinstance(n, ast.BinOp) and type(n.op) in BIN_SWAP2:
            sw = BIN_SWAP2[type(n.op)]
            def ed(n2, m2, sw=sw):
                n2.op = sw()
            yield clone_and(ed, n, 'operator %s -> %s in %s' % (type(n.op).__name__, sw.__name__, ast.unparse(n)[:40]))
        if isinstance(n, ast.AugAssign) and isinstance(n.op, (ast.Add, ast.Mult)):
            sw = {ast.Add: ast.Sub, ast.Mult: ast.Add}[type(n.op)]
            def ed(n2, m2, sw=sw):
                n2.op = sw()
            yield clone_and(ed, n, 'augmented operator %s -> %s in %s' % (type(n.op).__name__, sw.__name__, ast.unparse(n)[:40]))
        if isinstance(n, ast.Subscript) and isinstance(n.slice, ast.Slice):
            for which in ('lower', 'upper'):
                b = getattr(n.slice, which)
                if b is not None and not isinstance(b, ast.Constant):
                    def ed(n2, m2, which=which):
                        b2 = getattr(n2.slice, which)
                        setattr(n2.slice, which, ast.BinOp(left=b2, op=ast.Add(), right=ast.Constant(value=1)))
                    yield clone_and(ed, n, 'slice %s bound + 1 in %s' % (which, ast.unparse(n)[:40]))
        if isinstance(n, ast.Return) and isinstance(n.value, ast.IfExp):
            def ed(n2, m2):
                n2.value.body, n2.value.orelse = n2.value.orelse, n2.value.body
            yield clone_and(ed, n, 'arms of conditional expression swapped in %s' % ast.unparse(n)[:50])
