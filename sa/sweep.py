"""Development sweep: every site mutant of every package function against every property check.
Usage: python3 -m sa.sweep /repo out.json [cap]"""
import ast, json, os, random, shutil, subprocess, sys, tempfile
from concurrent.futures import ThreadPoolExecutor
from . import loader, mutate
from .loader import PKG

VERIF = os.path.dirname(os.path.dirname(os.path.abspath(__file__)))
SKIP_FUNCS = ('helper.merkle', 'helper.chunks', 'ripemd.TestFrameworkKey', 'script.Script.__repr__', 'script.Script.__add__')


def main():
    repo, outp = sys.argv[1], sys.argv[2]
    cap = int(sys.argv[3]) if len(sys.argv) > 3 else 100000
    prog = loader.Program(repo)
    muts = []
    for fi in sorted(prog.functions.values(), key=lambda f: f.qual):
        key = fi.qual[len(PKG) + 1:]
        if key.startswith(SKIP_FUNCS) or fi.module.name.endswith(('bip39_wordlist', '.op')):
            continue
        for m in mutate.mutants_of_function(fi):
            if m is not None:
                muts.append((fi, m[0], m[1]))
    random.Random(0).shuffle(muts)
    muts = muts[:cap]
    base = tempfile.mkdtemp(prefix='sweep_')
    pkg_src = os.path.join(repo, PKG)

    def one(i_m):
        i, (fi, desc, tree) = i_m
        d = os.path.join(base, 'm%05d' % i)
        try:
            shutil.copytree(pkg_src, os.path.join(d, PKG), ignore=shutil.ignore_patterns('__pycache__'))
            try:
                src = ast.unparse(tree)
                compile(src, 'x', 'exec')
            except Exception:
                return (desc, 'invalid', {})
            open(os.path.join(d, fi.module.relpath), 'w').write(src)
            r = subprocess.run([sys.executable, '-B', '-m', 'sa.allprops', d], cwd=VERIF, capture_output=True, text=True,
                               env=dict(os.environ, VERIF_OUT=os.path.join(d, 'out')), timeout=900)
            try:
                res = json.loads(r.stdout.strip().splitlines()[-1])
            except Exception:
                return (desc, 'error', {'stderr': r.stderr[-200:]})
            killed = [k for k, v in res.items() if v == 1]
            und = [k for k, v in res.items() if v == 2]
            return (desc, 'killed' if killed else ('undecided' if und else 'survived'), {'violated': killed, 'undecided': und})
        except subprocess.TimeoutExpired:
            return (desc, 'timeout', {})
        finally:
            shutil.rmtree(d, ignore_errors=True)
    with ThreadPoolExecutor(max_workers=int(os.environ.get('VERIF_JOBS', '16'))) as ex:
        results = list(ex.map(one, enumerate(muts)))
    shutil.rmtree(base, ignore_errors=True)
    summ = {}
    for _, v, _ in results:
        summ[v] = summ.get(v, 0) + 1
    json.dump({'summary': summ, 'results': results}, open(outp, 'w'), indent=0)
    print(summ)


if __name__ == '__main__':
    main()
