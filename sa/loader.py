"""Loader / resolver: parses /repo's package on every run and builds symbol tables,
class hierarchy and a name+CHA call graph.  Stdlib only; nothing is imported from the repo."""
from __future__ import annotations

import ast
import hashlib
import os

REPO = os.environ.get('VERIF_REPO', '/repo')
PKG = 'btc_hd_wallet'


class AnalysisError(Exception):
    """The analyser could not decide (vanished anchor, unknown shape, floor not met)."""

    def __init__(self, rule, reason):
        super().__init__('%s: %s' % (rule, reason))
        self.rule = rule
        self.reason = reason


class FunctionInfo:
    __slots__ = ('name', 'qual', 'node', 'module', 'cls', 'kind', 'params', 'defaults', 'lineno')

    def __init__(self, name, qual, node, module, cls, kind):
        self.name = name
        self.qual = qual
        self.node = node
        self.module = module
        self.cls = cls
        self.kind = kind          # 'function' | 'method' | 'classmethod' | 'staticmethod' | 'property'
        self.lineno = node.lineno
        a = node.args
        self.params = [x.arg for x in a.posonlyargs + a.args]
        nd = len(a.defaults)
        self.defaults = {}
        if nd:
            for p, d in zip(self.params[-nd:], a.defaults):
                self.defaults[p] = d
        for p, d in zip(a.kwonlyargs, a.kw_defaults):
            self.params.append(p.arg)
            if d is not None:
                self.defaults[p.arg] = d

    def __repr__(self):
        return '<fn %s>' % self.qual

    @property
    def where(self):
        return '%s:%d' % (self.module.relpath, self.lineno)


class ClassInfo:
    __slots__ = ('name', 'qual', 'node', 'module', 'base_names', 'bases', 'methods', 'attrs', 'is_enum',
                 'enum_members', 'subclasses', 'slots', 'fields', 'is_record', 'setters', 'deleters')

    def __init__(self, name, qual, node, module):
        self.name = name
        self.qual = qual
        self.node = node
        self.module = module
        self.base_names = []
        self.bases = []
        self.methods = {}
        self.setters = {}        # property name -> FunctionInfo of its @name.setter
        self.deleters = {}
        self.attrs = {}          # class-level name -> ast expr
        self.is_enum = False
        self.enum_members = []   # [(name, ast expr)]
        self.subclasses = []
        self.slots = None
        self.fields = []         # annotated class-level names in order: [(name, default expr or None)]
        self.is_record = False   # typing.NamedTuple subclass or @dataclass: the constructor takes the fields

    def mro(self):
        out = [self]
        for b in self.bases:
            for c in b.mro():
                if c not in out:
                    out.append(c)
        return out

    def find_method(self, name):
        for c in self.mro():
            if name in c.methods:
                return c.methods[name]
        return None

    def find_attr(self, name):
        for c in self.mro():
            if name in c.attrs:
                return c, c.attrs[name]
        return None

    def find_setter(self, name):
        for c in self.mro():
            if name in c.setters:
                return c.setters[name]
            if name in c.methods or name in c.attrs:
                return None
        return None

    def all_subclasses(self):
        out = []
        for s in self.subclasses:
            out.append(s)
            out.extend(s.all_subclasses())
        return out

    def __repr__(self):
        return '<class %s>' % self.qual


class ModuleInfo:
    __slots__ = ('name', 'path', 'relpath', 'tree', 'source', 'functions', 'classes', 'assigns', 'imports',
                 'secp_names', 'ecdsa_names', 'digest', 'secp_nodes', 'ecdsa_nodes', 'try_of')

    def __init__(self, name, path, relpath, source):
        self.name = name
        self.path = path
        self.relpath = relpath
        self.source = source
        self.tree = ast.parse(source, filename=path)
        self.functions = {}
        self.classes = {}
        self.assigns = {}        # module-level name -> [ast expr, ...] (all bindings in order)
        self.imports = {}        # local name -> ('module', dotted) | ('from', dotted module, name)
        self.secp_names = set()
        self.ecdsa_names = set()
        self.secp_nodes = set()      # id() of module-level assignment values made in the `try:` arm of the back-end import
        self.ecdsa_nodes = set()     # ... in its `except ImportError:` arm
        self.try_of = {}             # id(assignment value) -> module-level `try` statement it sits in (environment probes)
        self.digest = hashlib.sha256(source.encode()).hexdigest()


def _decorator_kind(node):
    for d in node.decorator_list:
        if isinstance(d, ast.Name) and d.id in ('classmethod', 'staticmethod', 'property'):
            return d.id
    return None


def _accessor_kind(node):
    for d in node.decorator_list:
        if isinstance(d, ast.Attribute) and d.attr in ('setter', 'deleter', 'getter') and isinstance(d.value, ast.Name) \
                and d.value.id == node.name:
            return d.attr
    return None


class Program:
    def __init__(self, repo=None):
        self.repo = repo or REPO
        self.modules = {}
        self.classes = {}      # qual -> ClassInfo
        self.functions = {}    # qual -> FunctionInfo
        self._load()
        self._link()
        self.callsites = None

    # ------------------------------------------------------------------ loading
    def _load(self):
        root = os.path.join(self.repo, PKG)
        if not os.path.isdir(root):
            raise AnalysisError('LOADER', 'package directory %s not found' % root)
        for dirpath, dirnames, filenames in os.walk(root):
            dirnames[:] = sorted(d for d in dirnames if d != '__pycache__')
            for fn in sorted(filenames):
                if not fn.endswith('.py'):
                    continue
                path = os.path.join(dirpath, fn)
                rel = os.path.relpath(path, self.repo)
                modname = rel[:-3].replace(os.sep, '.')
                if modname.endswith('.__init__'):
                    modname = modname[:-9]
                with open(path, encoding='utf-8') as f:
                    src = f.read()
                try:
                    mi = ModuleInfo(modname, path, rel, src)
                except SyntaxError as e:
                    raise AnalysisError('LOADER', 'syntax error in %s: %s' % (rel, e))
                self.modules[modname] = mi
                self._index_module(mi)

    def _index_module(self, mi):
        for node in mi.tree.body:
            self._index_stmt(mi, node, cond=None)

    def _bind_import(self, mi, node, cond):
        names = []
        if isinstance(node, ast.Import):
            for a in node.names:
                local = a.asname or a.name.split('.')[0]
                target = a.name if a.asname else a.name.split('.')[0]
                mi.imports[local] = ('module', target)
                names.append(local)
        elif isinstance(node, ast.ImportFrom):
            for a in node.names:
                local = a.asname or a.name
                mi.imports[local] = ('from', node.module, a.name)
                names.append(local)
        return names

    def _index_stmt(self, mi, node, cond):
        if isinstance(node, (ast.Import, ast.ImportFrom)):
            self._bind_import(mi, node, cond)
        elif isinstance(node, ast.FunctionDef):
            fi = FunctionInfo(node.name, '%s.%s' % (mi.name, node.name), node, mi, None, 'function')
            mi.functions[node.name] = fi
            self.functions[fi.qual] = fi
        elif isinstance(node, ast.ClassDef):
            ci = ClassInfo(node.name, '%s.%s' % (mi.name, node.name), node, mi)
            for b in node.bases:
                if isinstance(b, ast.Name):
                    ci.base_names.append(b.id)
                elif isinstance(b, ast.Attribute):
                    ci.base_names.append(ast.unparse(b))
            if any(b in ('Enum', 'enum.Enum', 'IntEnum', 'enum.IntEnum') for b in ci.base_names):
                ci.is_enum = True
            if any(b in ('NamedTuple', 'typing.NamedTuple') for b in ci.base_names) or any(
                    (isinstance(d, ast.Name) and d.id == 'dataclass') or (isinstance(d, ast.Attribute) and d.attr == 'dataclass')
                    or (isinstance(d, ast.Call) and ast.unparse(d.func).endswith('dataclass')) for d in node.decorator_list):
                ci.is_record = True
            for st in node.body:
                if isinstance(st, ast.FunctionDef):
                    kind = _decorator_kind(st) or 'method'
                    acc = _accessor_kind(st)
                    if acc in ('setter', 'deleter'):
                        # @name.setter / @name.deleter: the attribute stays the property; the accessor is kept beside it
                        fi = FunctionInfo(st.name, '%s.%s.%s' % (ci.qual, st.name, acc), st, mi, ci, 'method')
                        (ci.setters if acc == 'setter' else ci.deleters)[st.name] = fi
                        self.functions[fi.qual] = fi
                        continue
                    if acc == 'getter':
                        kind = 'property'
                    fi = FunctionInfo(st.name, '%s.%s' % (ci.qual, st.name), st, mi, ci, kind)
                    ci.methods[st.name] = fi
                    self.functions[fi.qual] = fi
                elif isinstance(st, ast.Assign) and len(st.targets) == 1 and isinstance(st.targets[0], ast.Name):
                    ci.attrs[st.targets[0].id] = st.value
                    if st.targets[0].id == '__slots__':
                        try:
                            v = ast.literal_eval(st.value)
                            ci.slots = (v,) if isinstance(v, str) else tuple(v)
                        except Exception:
                            ci.slots = None
                    elif ci.is_enum:
                        ci.enum_members.append((st.targets[0].id, st.value))
                elif isinstance(st, ast.Assign) and len(st.targets) == 1 and isinstance(st.targets[0], (ast.Tuple, ast.List)) \
                        and isinstance(st.value, (ast.Tuple, ast.List)) and len(st.targets[0].elts) == len(st.value.elts) \
                        and all(isinstance(t_, ast.Name) for t_ in st.targets[0].elts) \
                        and not any(isinstance(v_, ast.Starred) for v_ in st.value.elts):
                    # A, B = 1, 2 at class level
                    for t_, v_ in zip(st.targets[0].elts, st.value.elts):
                        ci.attrs[t_.id] = v_
                elif isinstance(st, ast.Assign) and len(st.targets) > 1 and all(isinstance(t_, ast.Name) for t_ in st.targets):
                    for t_ in st.targets:       # A = B = value
                        ci.attrs[t_.id] = st.value
                elif isinstance(st, ast.AnnAssign) and isinstance(st.target, ast.Name):
                    ci.fields.append((st.target.id, st.value))
                    if st.value is not None:
                        ci.attrs[st.target.id] = st.value
            mi.classes[node.name] = ci
            self.classes[ci.qual] = ci
        elif isinstance(node, ast.Assign):
            for t in node.targets:
                if isinstance(t, ast.Name):
                    mi.assigns.setdefault(t.id, []).append(node.value)
                elif isinstance(t, (ast.Tuple, ast.List)) and isinstance(node.value, (ast.Tuple, ast.List)) \
                        and len(t.elts) == len(node.value.elts) and all(isinstance(x, ast.Name) for x in t.elts) \
                        and not any(isinstance(v_, ast.Starred) for v_ in node.value.elts):
                    for x, v_ in zip(t.elts, node.value.elts):      # A, B = 1, 2 at module level
                        mi.assigns.setdefault(x.id, []).append(v_)
                elif isinstance(t, (ast.Tuple, ast.List)) and all(isinstance(x, ast.Name) for x in t.elts):
                    # A, B = <any expression yielding len(targets) items> (a generator expression, a call): the i-th target is
                    # item i of the value, written as the subscript expression the evaluator folds
                    for i_, x in enumerate(t.elts):
                        sub = ast.Subscript(value=ast.Call(func=ast.Name(id='tuple', ctx=ast.Load()), args=[node.value], keywords=[]),
                                            slice=ast.Constant(value=i_), ctx=ast.Load())
                        ast.copy_location(sub, node)
                        ast.fix_missing_locations(sub)
                        mi.assigns.setdefault(x.id, []).append(sub)
        elif isinstance(node, ast.AnnAssign):
            if isinstance(node.target, ast.Name) and node.value is not None:
                mi.assigns.setdefault(node.target.id, []).append(node.value)
        elif isinstance(node, ast.Try):
            # the repository's back-end selection idiom:
            #   try: from pysecp256k1 import (...)   except ImportError: import ecdsa; NAME = ...
            is_backend = any(
                isinstance(h.type, ast.Name) and h.type.id == 'ImportError' for h in node.handlers
            ) and any(isinstance(s, ast.ImportFrom) and s.module and s.module.startswith('pysecp256k1')
                      or isinstance(s, ast.Import) and any(a.name.startswith('pysecp256k1') for a in s.names)
                      for s in node.body)
            def bound_by(s_):
                out = set()
                for n_ in ast.walk(s_):
                    if isinstance(n_, (ast.Import, ast.ImportFrom)):
                        for a_ in n_.names:
                            out.add((a_.asname or a_.name).split('.')[0])
                    elif isinstance(n_, ast.Name) and isinstance(n_.ctx, ast.Store):
                        out.add(n_.id)
                return out

            def values_of(s_):
                if isinstance(s_, ast.Assign):
                    return [s_.value]
                if isinstance(s_, ast.AnnAssign) and s_.value is not None:
                    return [s_.value]
                return []
            if not is_backend:
                for s in node.body + [x for h in node.handlers for x in h.body] + node.orelse + node.finalbody:
                    for sub in ast.walk(s):
                        for v in values_of(sub):
                            mi.try_of[id(v)] = node
            for s in node.body:
                self._index_stmt(mi, s, cond)
                if is_backend:
                    mi.secp_names |= bound_by(s)
                    mi.secp_nodes |= {id(v) for v in values_of(s)}
            for h in node.handlers:
                for s in h.body:
                    self._index_stmt(mi, s, cond)
                    if is_backend:
                        mi.ecdsa_names |= bound_by(s)
                        mi.ecdsa_nodes |= {id(v) for v in values_of(s)}
            for s in node.orelse + node.finalbody:
                self._index_stmt(mi, s, cond)
        elif isinstance(node, ast.If):
            # `if __name__ == "__main__":` etc. — index both arms
            for s in node.body + node.orelse:
                self._index_stmt(mi, s, cond)

    def _link(self):
        for ci in self.classes.values():
            for bn in ci.base_names:
                b = self.resolve_name(ci.module, bn)
                if isinstance(b, ClassInfo):
                    ci.bases.append(b)
                    b.subclasses.append(ci)

    # ------------------------------------------------------------------ name resolution
    def resolve_name(self, mi, name, _depth=0):
        """Resolve a module-level name to ClassInfo | FunctionInfo | ModuleInfo | ('ext', dotted) |
        ('assign', ModuleInfo, name) | None."""
        if _depth > 10:
            return None
        if name in mi.classes:
            return mi.classes[name]
        if name in mi.functions:
            return mi.functions[name]
        if name in mi.assigns:
            return ('assign', mi, name)
        if name in mi.imports:
            imp = mi.imports[name]
            if imp[0] == 'module':
                if imp[1] in self.modules:
                    return self.modules[imp[1]]
                return ('ext', imp[1])
            _, modname, orig = imp
            if modname in self.modules:
                return self.resolve_name(self.modules[modname], orig, _depth + 1) or \
                    self.modules.get(modname + '.' + orig)
            if modname + '.' + orig in self.modules:
                return self.modules[modname + '.' + orig]
            return ('ext', '%s.%s' % (modname, orig))
        return None

    def backend_names(self):
        secp, ecdsa = set(), set()
        for mi in self.modules.values():
            secp |= mi.secp_names
            ecdsa |= mi.ecdsa_names
        return secp, ecdsa

    def get_function(self, qual):
        f = self.functions.get(PKG + '.' + qual) or self.functions.get(qual)
        if f is None:
            raise AnalysisError('ANCHOR', 'function %s not found in %s' % (qual, self.repo))
        return f

    def get_class(self, qual):
        c = self.classes.get(PKG + '.' + qual) or self.classes.get(qual)
        if c is None:
            raise AnalysisError('ANCHOR', 'class %s not found in %s' % (qual, self.repo))
        return c

    def get_module(self, name):
        m = self.modules.get(PKG + '.' + name) or self.modules.get(name)
        if m is None:
            raise AnalysisError('ANCHOR', 'module %s not found in %s' % (name, self.repo))
        return m

    # ------------------------------------------------------------------ call graph (name + CHA)
    def build_callgraph(self):
        """Return list of CallSite(caller FunctionInfo|None, node, targets [FunctionInfo|ClassInfo|('ext',..)|None])"""
        if self.callsites is not None:
            return self.callsites
        sites = []
        for mi in self.modules.values():
            for fi, node in self._iter_bodies(mi):
                for call in _calls_in(node):
                    sites.append(CallSite(fi, mi, call, self._resolve_call(mi, fi, call)))
        self.callsites = sites
        return sites

    def _iter_bodies(self, mi):
        """Yield (FunctionInfo or None, ast node to scan) — functions, and module-level code."""
        for fi in self.functions.values():
            if fi.module is mi:
                yield fi, fi.node
        top = ast.Module(body=[n for n in mi.tree.body
                               if not isinstance(n, (ast.FunctionDef, ast.ClassDef))], type_ignores=[])
        yield None, top
        for ci in mi.classes.values():
            body = ast.Module(body=[n for n in ci.node.body if not isinstance(n, ast.FunctionDef)], type_ignores=[])
            yield None, body

    def _resolve_call(self, mi, fi, call):
        f = call.func
        if isinstance(f, ast.Name):
            # local variable shadows? (parameters named like callables are rare here)
            if fi is not None and f.id in fi.params and f.id not in ('cls',):
                return [('param', f.id)]
            if fi is not None and f.id == 'cls' and fi.cls is not None:
                return [fi.cls] + fi.cls.all_subclasses()
            r = self.resolve_name(mi, f.id)
            if r is None:
                return [('builtin', f.id)]
            return [r]
        if isinstance(f, ast.Attribute):
            recv = f.value
            m = f.attr
            # self.__class__(...)
            if m == '__class__':
                return []
            if isinstance(recv, ast.Name):
                if recv.id in ('self', 'cls') and fi is not None and fi.cls is not None:
                    cands = []
                    for c in [fi.cls] + fi.cls.all_subclasses():
                        meth = c.find_method(m)
                        if meth is not None and meth not in cands:
                            cands.append(meth)
                    if cands:
                        return cands
                    return self._by_method_name(m, call)
                r = None
                if fi is None or recv.id not in fi.params:
                    r = self.resolve_name(mi, recv.id)
                if isinstance(r, ClassInfo):
                    cands = []
                    for c in [r] + r.all_subclasses():
                        meth = c.find_method(m)
                        if meth is not None and meth not in cands:
                            cands.append(meth)
                    return cands or [('ext', '%s.%s' % (r.qual, m))]
                if isinstance(r, ModuleInfo):
                    t = self.resolve_name(r, m)
                    return [t] if t is not None else [('ext', '%s.%s' % (r.name, m))]
                if isinstance(r, tuple) and r[0] == 'ext':
                    return [('ext', '%s.%s' % (r[1], m))]
            # dotted external e.g. hashlib.sha256(x).digest(), ecdsa.SigningKey.from_string
            dotted = _dotted(f)
            if dotted:
                head = dotted.split('.')[0]
                r = None
                if fi is None or head not in fi.params:
                    r = self.resolve_name(mi, head)
                if isinstance(r, tuple) and r[0] == 'ext':
                    return [('ext', r[1] + dotted[len(head):])]
                if isinstance(r, ModuleInfo):
                    return [('ext', r.name + dotted[len(head):])]
            return self._by_method_name(m, call)
        return []

    def _by_method_name(self, m, call=None):
        cands = []
        for ci in self.classes.values():
            if m in ci.methods:
                cands.append(ci.methods[m])
        if call is not None and len(cands) > 1:
            # a candidate that cannot accept the call's keywords / argument count would raise TypeError
            ok = [f for f in cands if _accepts(f, call)]
            if ok:
                cands = ok
        return cands or [('method', m)]

    def callers_of(self, target):
        out = []
        for cs in self.build_callgraph():
            for t in cs.targets:
                if t is target:
                    out.append(cs)
                    break
        return out

    def calls_from(self, fi):
        return [cs for cs in self.build_callgraph() if cs.caller is fi]

    def reachable_from(self, roots):
        """Call-graph closure over package functions (constructor calls resolve to __init__)."""
        seen = set()
        work = list(roots)
        while work:
            f = work.pop()
            if f in seen:
                continue
            seen.add(f)
            for cs in self.calls_from(f):
                for t in cs.targets:
                    if isinstance(t, FunctionInfo):
                        work.append(t)
                    elif isinstance(t, ClassInfo):
                        init = t.find_method('__init__')
                        if init is not None:
                            work.append(init)
            # property reads are calls too
            for node in ast.walk(f.node):
                if isinstance(node, ast.Attribute) and isinstance(node.ctx, ast.Load):
                    for ci in self.classes.values():
                        p = ci.methods.get(node.attr)
                        if p is not None and p.kind == 'property':
                            work.append(p)
                    # dunder dispatch through builtins
            for node in ast.walk(f.node):
                if isinstance(node, ast.Call) and isinstance(node.func, ast.Name) \
                        and node.func.id in ('str', 'bytes', 'int', 'repr', 'len'):
                    dunder = {'str': ['__str__', '__repr__'], 'bytes': ['__bytes__'], 'int': ['__int__', '__index__'],
                              'repr': ['__repr__'], 'len': ['__len__']}[node.func.id]
                    for ci in self.classes.values():
                        for d in dunder:
                            if d in ci.methods:
                                work.append(ci.methods[d])
        return seen

    def stats(self):
        sites = self.build_callgraph()
        resolved = sum(1 for s in sites if s.targets and not all(
            isinstance(t, tuple) and t[0] == 'method' for t in s.targets))
        return {
            'modules': len(self.modules),
            'classes': len(self.classes),
            'functions': len(self.functions),
            'call_sites': len(sites),
            'resolved_call_sites': resolved,
        }


class CallSite:
    __slots__ = ('caller', 'module', 'node', 'targets')

    def __init__(self, caller, module, node, targets):
        self.caller = caller
        self.module = module
        self.node = node
        self.targets = targets

    @property
    def where(self):
        return '%s:%d' % (self.module.relpath, self.node.lineno)

    def __repr__(self):
        return '<call %s in %s at %s>' % (ast.unparse(self.node.func), self.caller.qual if self.caller else '<module>',
                                         self.where)


def _accepts(fi, call):
    params = list(fi.params)
    if fi.kind in ('method', 'classmethod', 'property') and params:
        params = params[1:]
    if fi.node.args.kwarg is None:
        for k in call.keywords:
            if k.arg is not None and k.arg not in params:
                return False
    if fi.node.args.vararg is None and len([a for a in call.args if not isinstance(a, ast.Starred)]) > len(params):
        return False
    return True


def _dotted(node):
    parts = []
    while isinstance(node, ast.Attribute):
        parts.append(node.attr)
        node = node.value
    if isinstance(node, ast.Name):
        parts.append(node.id)
        return '.'.join(reversed(parts))
    return None


def _calls_in(node):
    """All ast.Call nodes inside node, not descending into nested function/class definitions
    (lambdas and comprehensions are descended into)."""
    out = []
    stack = list(ast.iter_child_nodes(node))
    while stack:
        n = stack.pop()
        if isinstance(n, (ast.FunctionDef, ast.AsyncFunctionDef, ast.ClassDef)):
            continue
        if isinstance(n, ast.Call):
            out.append(n)
        stack.extend(ast.iter_child_nodes(n))
    out.sort(key=lambda c: (c.lineno, c.col_offset))
    return out
