"""Reference Base58 (Bitcoin's base58.cpp algorithm expressed over Python big integers): specification side of C10.

encode: every leading zero byte becomes one leading '1'; the rest is the big-endian integer written in radix 58 with the
        published alphabet, most significant digit first (the integer 0 contributes no digit).
decode: Horner evaluation in radix 58 (a character outside the alphabet is refused); the integer is re-expanded to the
        minimal big-endian byte string (the integer 0 expands to ONE zero byte); leading '1' characters become leading
        zero bytes - counted over all characters but the last, because an all-'1' string's last '1' is already accounted
        for by the single zero byte of the integer 0.
With these two definitions decode(encode(b)) == b for every non-empty b and encode(decode(s)) == s for every non-empty
alphabet string s (hand proof in DESIGN.md, section C10)."""

BASE58_ALPHABET = '123456789ABCDEFGHJKLMNPQRSTUVWXYZabcdefghijkmnopqrstuvwxyz'


def encode_base58(data):
    count = 0
    for c in data:
        if c == 0:
            count += 1
        else:
            break
    num = int.from_bytes(data, 'big')
    prefix = '1' * count
    result = ''
    while num > 0:
        num, mod = divmod(num, 58)
        result = BASE58_ALPHABET[mod] + result
    return prefix + result


def decode_base58(s):
    num = 0
    for c in s:
        if c not in BASE58_ALPHABET:
            raise ValueError("invalid base58 character")
        num *= 58
        num += BASE58_ALPHABET.index(c)
    h = hex(num)[2:]
    h = '0' + h if len(h) % 2 else h
    res = bytes.fromhex(h)
    pad = 0
    for c in s[:-1]:
        if c == BASE58_ALPHABET[0]:
            pad += 1
        else:
            break
    return b'\x00' * pad + res
