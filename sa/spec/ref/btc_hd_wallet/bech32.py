"""Reference implementation for Bech32/Bech32m and segwit addresses (BIP-0173 / BIP-0350 reference code,
typed in from the BIPs' segwit_addr.py; MIT licence, (c) 2017, 2020 Pieter Wuille).  Specification side of C11."""

from enum import Enum


class Encoding(Enum):
    """Enumeration type to list the various supported encodings."""
    BECH32 = 1
    BECH32M = 2


CHARSET = "qpzry9x8gf2tvdw0s3jn54khce6mua7l"
BECH32M_CONST = 0x2bc830a3


def bech32_polymod(values):
    """Internal function that computes the Bech32 checksum."""
    generator = [0x3b6a57b2, 0x26508e6d, 0x1ea119fa, 0x3d4233dd, 0x2a1462b3]
    chk = 1
    for value in values:
        top = chk >> 25
        chk = (chk & 0x1ffffff) << 5 ^ value
        for i in range(5):
            chk ^= generator[i] if ((top >> i) & 1) else 0
    return chk


def bech32_hrp_expand(hrp):
    """Expand the HRP into values for checksum computation."""
    return [ord(x) >> 5 for x in hrp] + [0] + [ord(x) & 31 for x in hrp]


def bech32_verify_checksum(hrp, data):
    """Verify a checksum given HRP and converted data characters."""
    const = bech32_polymod(bech32_hrp_expand(hrp) + data)
    if const == 1:
        return Encoding.BECH32
    if const == BECH32M_CONST:
        return Encoding.BECH32M
    return None


def bech32_create_checksum(hrp, data, spec):
    """Compute the checksum values given HRP and data."""
    values = bech32_hrp_expand(hrp) + data
    const = BECH32M_CONST if spec == Encoding.BECH32M else 1
    polymod = bech32_polymod(values + [0, 0, 0, 0, 0, 0]) ^ const
    return [(polymod >> 5 * (5 - i)) & 31 for i in range(6)]


def bech32_encode(hrp, data, spec):
    """Compute a Bech32 string given HRP and data values."""
    combined = data + bech32_create_checksum(hrp, data, spec)
    return hrp + '1' + ''.join([CHARSET[d] for d in combined])


def bech32_decode(bech):
    """Validate a Bech32/Bech32m string, and determine HRP and data."""
    if ((any(ord(x) < 33 or ord(x) > 126 for x in bech)) or
            (bech.lower() != bech and bech.upper() != bech)):
        return (None, None, None)
    bech = bech.lower()
    pos = bech.rfind('1')
    if pos < 1 or pos + 7 > len(bech) or len(bech) > 90:
        return (None, None, None)
    if not all(x in CHARSET for x in bech[pos+1:]):
        return (None, None, None)
    hrp = bech[:pos]
    data = [CHARSET.find(x) for x in bech[pos+1:]]
    spec = bech32_verify_checksum(hrp, data)
    if spec is None:
        return (None, None, None)
    return (hrp, data[:-6], spec)


def convertbits(data, frombits, tobits, pad=True):
    """General power-of-2 base conversion."""
    acc = 0
    bits = 0
    ret = []
    maxv = (1 << tobits) - 1
    max_acc = (1 << (frombits + tobits - 1)) - 1
    for value in data:
        if value < 0 or (value >> frombits):
            return None
        acc = ((acc << frombits) | value) & max_acc
        bits += frombits
        while bits >= tobits:
            bits -= tobits
            ret.append((acc >> bits) & maxv)
    if pad:
        if bits:
            ret.append((acc << (tobits - bits)) & maxv)
    elif bits >= frombits or ((acc << (tobits - bits)) & maxv):
        return None
    return ret


def decode(hrp, addr):
    """Decode a segwit address."""
    hrpgot, data, spec = bech32_decode(addr)
    if hrpgot != hrp:
        return (None, None)
    decoded = convertbits(data[1:], 5, 8, False)
    if decoded is None or len(decoded) < 2 or len(decoded) > 40:
        return (None, None)
    if data[0] > 16:
        return (None, None)
    if data[0] == 0 and len(decoded) != 20 and len(decoded) != 32:
        return (None, None)
    if data[0] == 0 and spec != Encoding.BECH32 or data[0] != 0 and spec != Encoding.BECH32M:
        return (None, None)
    return (data[0], decoded)


def encode(hrp, witver, witprog):
    """Encode a segwit address."""
    spec = Encoding.BECH32 if witver == 0 else Encoding.BECH32M
    ret = bech32_encode(hrp, [witver] + convertbits(witprog, 8, 5), spec)
    if decode(hrp, ret) == (None, None):
        return None
    return ret
