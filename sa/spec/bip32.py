"""BIP32 specification as value terms (transcribed from BIP-0032 'Child key derivation functions',
'Serialization format', 'Master key generation'); BIP39 'From mnemonic to seed'."""
from .. import terms as T

BIG = T.const('big')
H = T.const(2 ** 31)
XPRV, XPUB, TPRV, TPUB = 0x0488ADE4, 0x0488B21E, 0x04358394, 0x043587CF


def ser32(i):
    return T.ser(i, T.const(4), BIG)


def hmac512(key, msg):
    return T.raw_op('HMAC512', key, msg)


def hash160(x):
    return T.raw_op('RIPEMD160', T.raw_op('SHA256', x))


def hash256(x):
    return T.raw_op('SHA256', T.raw_op('SHA256', x))


def b58check(payload):
    return T.raw_op('B58ENC', T.cat(payload, T.slice_(hash256(payload), T.const(0), T.const(4))))


def ckd_priv_I(k, c, i):
    """I = HMAC-SHA512(c_par, 0x00||ser256(k_par)||ser32(i)) if i >= 2^31 else HMAC(c_par, serP(point(k_par))||ser32(i))"""
    hardened = T.cat(T.const(b'\x00'), k, ser32(i))
    normal = T.cat(T.sec(T.pt(k), T.TRUE), ser32(i))
    return hmac512(c, T.phi(T.lt(i, H), normal, hardened))


def ckd_priv(k, c, i):
    """returns (child key bytes, child chain code)"""
    I = ckd_priv_I(k, c, i)
    return T.sk_add(T.slice_(I, T.const(0), T.const(32)), k), T.slice_(I, T.const(32), T.const(64))


def ckd_pub(P, c, i):
    I = hmac512(c, T.cat(T.sec(P, T.TRUE), ser32(i)))
    return T.pt_add(T.pt(T.slice_(I, T.const(0), T.const(32))), P), T.slice_(I, T.const(32), T.const(64))


def fingerprint_of_point(P):
    return T.slice_(hash160(T.sec(P, T.TRUE)), T.const(0), T.const(4))


def serialize(version, depth, fpr, index, chain, keydata):
    return T.cat(T.ser(version, T.const(4), BIG), T.ser(depth, T.const(1), BIG), fpr, ser32(index), chain, keydata)


def master(seed):
    I = hmac512(T.const(b'Bitcoin seed'), seed)
    return T.slice_(I, T.const(0), T.const(32)), T.slice_(I, T.const(32), T.const(64))


def bip39_seed(mnemonic, passphrase):
    nf = T.const('NFKD')

    from ..externals import normalize, encode

    def norm(s):
        return normalize(nf, s)
    return T.raw_op('PBKDF2', T.const('sha512'), encode(norm(mnemonic)),
                    encode(T.cat(T.const('mnemonic'), norm(passphrase))), T.const(2048), T.NONE)
