"""Bitcoin wire-format specification tables (script push rules, CompactSize) — transcribed from the
Bitcoin protocol documentation / BIP62 minimal-push rules, not derived from /repo."""

# data push: inclusive length interval -> (opcode prefix bytes, width of explicit little-endian length)
PUSH_CELLS = [
    (1, 75, b'', 1, 'bare length byte'),        # the single byte *is* the length
    (76, 255, b'\x4c', 1, 'OP_PUSHDATA1'),
    (256, 520, b'\x4d', 2, 'OP_PUSHDATA2'),
]
PUSH_MAX = 520            # elements longer than this are refused

# CompactSize: inclusive value interval -> (marker, payload width, little endian)
VARINT_CELLS = [
    (0, 0xfc, b'', 1),
    (0xfd, 0xffff, b'\xfd', 2),
    (0x10000, 0xffffffff, b'\xfe', 4),
    (0x100000000, 0xffffffffffffffff, b'\xff', 8),
]
VARINT_MAX = 2 ** 64 - 1  # larger values are refused
