"""Base58 / WIF facts computed from the published alphabet (spec side only; interval arithmetic)."""
ALPHABET = '123456789ABCDEFGHJKLMNPQRSTUVWXYZabcdefghijkmnopqrstuvwxyz'


def enc(b: bytes) -> str:
    n = int.from_bytes(b, 'big')
    out = ''
    while n > 0:
        n, r = divmod(n, 58)
        out = ALPHABET[r] + out
    pad = 0
    for c in b:
        if c == 0:
            pad += 1
        else:
            break
    return '1' * pad + out


def leading_chars(prefix: bytes, total_len: int, nchars: int = 1):
    """Set of possible first `nchars` characters of Base58(prefix || X) over all X with
    len(prefix||X) == total_len, prefix[0] != 0.  Monotonicity of the encoding on equal-length
    strings makes the answer the contiguous range between the two extreme payloads."""
    assert prefix and prefix[0] != 0
    lo = enc(prefix + b'\x00' * (total_len - len(prefix)))
    hi = enc(prefix + b'\xff' * (total_len - len(prefix)))
    if len(lo) != len(hi):
        return None
    a, b = lo[:nchars], hi[:nchars]
    if nchars == 1:
        ia, ib = ALPHABET.index(a), ALPHABET.index(b)
        return {ALPHABET[i] for i in range(ia, ib + 1)}
    return {a} if a == b else None
